"""Value catalogues derived from the type spec alone.

entry 'wire': candidates are JSON values as json.loads yields them (blob = base64 text, scaled = integer,
              enum = integer or name, containers = list / dict)
entry 'drv' : candidates are Python-native values as a driver hands them over (bytes, floats for scaled,
              tuples ...)
valid(spec, entry)  -> list of values inside the value set (limits, grid points, every member, empty/maximal ...)
bad(spec, entry)    -> boundary / ill-typed values at a position (may contain values that are in fact valid for
                       some types: the reference model judges, the catalogue does not)
cands(spec, entry, k) -> valid values with <= k positions replaced by bad ones, each with its number of
                       replaced positions
"""
import base64
import math

from vf.catalog import types as T

NAN = float('nan')
INF = float('inf')


class Special:
    """marker for driver-side candidates that have no JSON form"""


def b64(b):
    return base64.b64encode(b).decode('ascii')


def grid(y, scale):
    return round(y / scale) * scale


def valid(spec, entry='wire'):
    k = spec[0]
    if k == 'double':
        lo, hi, absres, relres = T.double_limits(spec)
        vals = [lo, hi]
        mid = lo / 2 + hi / 2
        vals.append(mid)
        for v in (0, 0.0, 1, 2.5, -1.5, 3, 10, 1e-300, 1.5e-300, 7.25):
            if lo <= v <= hi:
                vals.append(v)
        return dedupe(vals)
    if k == 'int':
        lo, hi = T.int_limits(spec)
        vals = [lo, hi, (lo + hi) // 2]
        for v in (0, 1, -1, 5, 9, 5.0, True):
            if lo <= v <= hi:
                vals.append(v)
        return dedupe(vals)
    if k == 'scaled':
        scale, lo, hi = T.scaled_limits(spec)
        nlo, nhi = round(lo / scale), round(hi / scale)
        ns = dedupe([nlo, nhi, (nlo + nhi) // 2] + [n for n in (0, 1, 3, 10000, 33, -5, 99) if nlo <= n <= nhi])
        if entry == 'wire':
            return ns
        return [n * scale for n in ns]
    if k == 'bool':
        return [True, False, 0, 1]
    if k == 'enum':
        vals = [v for _, v in spec[1]] + [n for n, _ in spec[1]]
        return vals
    if k == 'string':
        lo, hi, utf8 = spec[1], spec[2], spec[3]
        pool = ['', 'a', 'ab', 'abc', 'abcd', 'a"b', '\\', 'a\nb', ' x ', "'q'", '5', '[1]', 'True']
        if utf8:
            pool += ['ä', '€ß', '\U0001f600a', 'ñ']
        return [s for s in pool if lo <= len(s) and (hi is None or len(s) <= hi)]
    if k == 'blob':
        lo, hi = spec[1], spec[2]
        pool = [b'', b'\x00', b'ab', b'\xff\xfe', b'abc', b'\x00\x01\x02\x03', bytes(range(256))[:255], bytes(range(256))]
        vals = [b for b in pool if lo <= len(b) <= hi]
        if entry == 'wire':
            return [b64(b) for b in vals]
        return vals
    if k == 'array':
        m, lo, hi = spec[1], spec[2], spec[3]
        mv = valid(m, entry)
        res = []
        for n in dedupe([lo, hi, (lo + hi) // 2]):
            res.append([mv[0]] * n)
            if n:
                res.append([mv[i % len(mv)] for i in range(1, n + 1)])
                res.append([mv[-1 - (i % len(mv))] for i in range(n)])
        return dedupe_repr(res)
    if k == 'tuple':
        mvs = [valid(m, entry) for m in spec[1]]
        n = max(len(v) for v in mvs)
        res = [[v[i % len(v)] for v in mvs] for i in range(n)]
        return dedupe_repr(res)
    if k == 'struct':
        names = [n for n, _ in spec[1]]
        mvs = {n: valid(m, entry) for n, m in spec[1]}
        optional = names if spec[2] is None else list(spec[2])
        n = max(len(v) for v in mvs.values())
        res = [{nm: mvs[nm][i % len(mvs[nm])] for nm in names} for i in range(n)]
        # structs lacking optional members (one at a time, and all)
        for o in optional:
            res.append({nm: mvs[nm][0] for nm in names if nm != o})
        if optional:
            res.append({nm: mvs[nm][-1] for nm in names if nm not in optional})
        return dedupe_repr(res)
    raise ValueError(spec)


def dedupe(vals):
    seen, out = set(), []
    for v in vals:
        key = (type(v).__name__, v)
        if key not in seen:
            seen.add(key)
            out.append(v)
    return out


def dedupe_repr(vals):
    seen, out = set(), []
    for v in vals:
        key = repr(v)
        if key not in seen:
            seen.add(key)
            out.append(v)
    return out


# the common ill-typed JSON values tried at every position
GENERIC_BAD = [None, True, False, 0, 1, -1, 5, 10 ** 400, 2.5, 2.7, -0.0, 5e-324, 1e308, NAN, INF, -INF,
               '', '5', 'abc', 'ä', 'a\x00b', 'QUJD', '!!!!', 'QUJD\n', 'QUJ', 'Q!U!J!D',
               [], [1], [1, 2, 3, 4, 5], [[1]], ['a', 'b'], [None], {}, {'a': 1}, {'zz': 1}, {'a': None},
               [['a', 1]],
               # large values of every JSON container kind (error messages abbreviate them; length checks see them)
               'x' * 300, list(range(50)), {f'k{i:02d}': i for i in range(50)}, [[[[[[[[1]]]]]]]]]


# python objects no JSON decoder produces, as a driver may hand them over (undecoded device replies, swapped members)
# (scalar positions only: which python sequences a driver may hand over as an array is not for this catalogue to decide)
DRV_ONLY_BAD = [b'12', b' 1e1\n', b'nan', b'', bytearray(b'7')]


def bad(spec, entry='wire'):
    """boundary and ill-typed values for one position of type spec"""
    k = spec[0]
    res = list(GENERIC_BAD)
    if entry == 'drv' and k in ('double', 'int', 'scaled', 'bool', 'enum', 'string'):
        res += DRV_ONLY_BAD
    if k == 'double':
        lo, hi, absres, relres = T.double_limits(spec)
        for lim, sign in ((lo, -1), (hi, 1)):
            if abs(lim) >= FMAXH:
                continue
            prec = max(abs(lim) * relres, absres)
            step = prec if prec else abs(lim) * 1e-3 or 1e-3
            res += [lim + sign * step * 0.5, lim + sign * step * 2, lim + sign * step * 100, lim - sign * step * 0.5]
        res += [int(lo) - 1 if abs(lo) < 1e18 else 0, int(hi) + 1 if abs(hi) < 1e18 else 0]
    elif k == 'int':
        lo, hi = T.int_limits(spec)
        res += [lo - 1, hi + 1, lo - 0.5, hi + 0.5, float(lo), lo + 0.5, lo + 1e-9, str(lo), [lo]]
    elif k == 'scaled':
        scale, lo, hi = T.scaled_limits(spec)
        nlo, nhi = round(lo / scale), round(hi / scale)
        if entry == 'wire':
            res += [nlo - 1, nhi + 1, nlo - 2, nhi + 2, nlo + 0.5, nlo + 0.7, float(nlo), str(nlo), [nlo], nhi + 0.9]
        else:
            res += [lo - scale, hi + scale, lo - 0.4 * scale, hi + 0.4 * scale, lo - 0.6 * scale, hi + 0.6 * scale,
                    lo - 2 * scale, hi + 2 * scale, lo + 0.3 * scale, lo + 0.5 * scale, str(lo)]
    elif k == 'bool':
        res += [2, 0.0, 1.0, 0.5, 'true', 'false', 'True', '0', '1', [True], [0], [1]]
    elif k == 'enum':
        vals = [v for _, v in spec[1]]
        names = [n for n, _ in spec[1]]
        res += [min(vals) - 1, max(vals) + 1, float(vals[0]), vals[0] + 0.5, str(vals[0]), names[0].upper(), names[0] + ' ',
                [vals[0]], [names[0]], {names[0]: vals[0]}]
    elif k == 'string':
        lo, hi = spec[1], spec[2]
        if hi is not None:
            res += ['x' * (hi + 1), 'x' * hi]
        if lo:
            res += ['x' * (lo - 1)]
        res += [['a'], ['a', 'b'], 'ok\x00', 'é', b'ab' if entry == 'drv' else 'ab']
    elif k == 'blob':
        lo, hi = spec[1], spec[2]
        pool = [b'x' * (hi + 1), b'x' * max(lo - 1, 0), b'x' * lo, b'x' * hi]
        if entry == 'wire':
            res += [b64(b) for b in pool]
            res += ['QUJDRA', 'QUJDRA=', 'QUJDRA===', 'QUJD RA==', '=QUJD', 'QUJD' * 2 + '!', 'QQ==', 'QR==', 'ääää',
                    'QUJD-_8=', [65, 66]]
        else:
            res += pool + [bytearray(b'ab'), 'ab', [97, 98]]
    elif k == 'array':
        m, lo, hi = spec[1], spec[2], spec[3]
        mv = valid(m, entry)
        res += [[mv[0]] * (hi + 1), [mv[0]] * (hi + 3)]
        if lo:
            res += [[mv[0]] * (lo - 1)]
        res += [{str(i): mv[0] for i in range(max(lo, 1))}, 'ab', 'abc', 7]
        if entry == 'drv':
            res += [tuple([mv[0]] * lo), tuple([mv[0]] * (hi + 1))]
    elif k == 'tuple':
        mvs = [valid(m, entry)[0] for m in spec[1]]
        res += [mvs[:-1], mvs + [mvs[-1]], mvs + [None], mvs * 2, 'ab'[:len(mvs)], 'x' * len(mvs), 7,
                {str(i): v for i, v in enumerate(mvs)}]
        if entry == 'drv':
            res += [tuple(mvs), tuple(mvs[:-1])]
    elif k == 'struct':
        names = [n for n, _ in spec[1]]
        mvs = {n: valid(m, entry)[0] for n, m in spec[1]}
        full = dict(mvs)
        res += [dict(full, zz=1), {n: None for n in names}, [[n, v] for n, v in full.items()], list(full.values()),
                names[0], 7]
        for n in names:
            d = dict(full)
            d[n] = None
            res.append(d)
            d = dict(full)
            del d[n]
            res.append(d)
    return dedupe_repr(res)


FMAXH = T.FMAX / 2


def cands(spec, entry, k, _top=True):
    """yield (candidate, number_of_replaced_positions); every candidate is a fresh object"""
    kind = spec[0]
    good = valid(spec, entry)
    for v in good:
        yield v, 0
    if k <= 0:
        return
    for b in bad(spec, entry):
        yield b, 1
    if kind == 'array':
        m = spec[1]
        for base in good:
            if not base:
                continue
            # replacing at first, last position is enough to cover "every position" for lengths <= 3 (+ middle)
            for i in range(len(base)):
                for c, n in cands(m, entry, k, False):
                    if n == 0:
                        continue
                    new = list(base)
                    new[i] = c
                    yield new, n
            if k >= 2 and len(base) >= 2:
                mb = bad(m, entry)
                for c1 in mb[:12]:
                    for c2 in mb[:12]:
                        new = list(base)
                        new[0], new[-1] = c1, c2
                        yield new, 2
            break  # one base vector per array type (the first non-empty one)
    elif kind == 'tuple':
        base = good[0]
        for i, m in enumerate(spec[1]):
            for c, n in cands(m, entry, k, False):
                if n == 0:
                    continue
                new = list(base)
                new[i] = c
                yield new, n
        if k >= 2 and len(base) >= 2:
            b0, b1 = bad(spec[1][0], entry), bad(spec[1][-1], entry)
            for c1 in b0[:12]:
                for c2 in b1[:12]:
                    new = list(base)
                    new[0], new[-1] = c1, c2
                    yield new, 2
    elif kind == 'struct':
        base = good[0]
        for name, m in spec[1]:
            for c, n in cands(m, entry, k, False):
                if n == 0:
                    continue
                new = dict(base)
                new[name] = c
                yield new, n
            # also a partial struct (only this member given) carrying a bad value
            if len(spec[1]) > 1:
                for c in bad(m, entry)[:16]:
                    yield {name: c}, 1


def prev_shapes(spec, entry_valid):
    """which previous values to try: indices into the list of internal values obtained from the valid catalogue"""
    return entry_valid


# ---- encoding of candidates for replay files (JSON cannot carry bytes / tuples / NaN reliably)

def enc(x):
    if isinstance(x, bytes):
        return {'__bytes__': x.hex()}
    if isinstance(x, bytearray):
        return {'__bytearray__': bytes(x).hex()}
    if isinstance(x, tuple):
        return {'__tuple__': [enc(v) for v in x]}
    if isinstance(x, list):
        return [enc(v) for v in x]
    if isinstance(x, dict):
        return {'__dict__': [[enc(k), enc(v)] for k, v in x.items()]}
    if isinstance(x, float):
        if math.isnan(x):
            return {'__float__': 'nan'}
        if math.isinf(x):
            return {'__float__': 'inf' if x > 0 else '-inf'}
        return x
    if isinstance(x, int) and not isinstance(x, bool) and abs(x) > 2 ** 63:
        return {'__int__': str(x)}
    if x is None or isinstance(x, (bool, int, str)):
        return x
    # EnumMember and friends
    if hasattr(x, 'name') and hasattr(x, 'value'):
        return {'__enum__': [x.name, int(x.value)]}
    return {'__repr__': repr(x)}


def dec(x):
    if isinstance(x, list):
        return [dec(v) for v in x]
    if isinstance(x, dict):
        if '__bytes__' in x:
            return bytes.fromhex(x['__bytes__'])
        if '__bytearray__' in x:
            return bytearray(bytes.fromhex(x['__bytearray__']))
        if '__tuple__' in x:
            return tuple(dec(v) for v in x['__tuple__'])
        if '__dict__' in x:
            return {dec(k): dec(v) for k, v in x['__dict__']}
        if '__float__' in x:
            return float(x['__float__'])
        if '__int__' in x:
            return int(x['__int__'])
        if '__enum__' in x:
            return x['__enum__'][1]
        raise ValueError(x)
    return x
