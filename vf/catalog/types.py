"""Type catalogue: datatype *specs* are plain tuples, independent of frappy, so that the reference model never
consults frappy about what a type means.

  ('double', lo, hi, absres, relres)      lo/hi None = unlimited, absres/relres None = frappy default (0 / 1.2e-7)
  ('int', lo, hi)
  ('scaled', scale, lo, hi)               limits as scaled (float) values, grid aligned
  ('bool',)
  ('enum', ((name, value), ...))
  ('string', minchars, maxchars, isUTF8)  maxchars None = unlimited
  ('blob', minbytes, maxbytes)
  ('array', member, minlen, maxlen)
  ('tuple', (member, ...))
  ('struct', ((name, member), ...), optional)   optional: None = all members optional, else tuple of names
"""
import sys

FMAX = sys.float_info.max
DEFAULT_REL = 1.2e-7

DOUBLES = [
    ('double', None, None, None, None),
    ('double', 0.0, 10.0, None, None),
    ('double', -5.0, 5.0, None, None),
    ('double', 3.0, 3.0, None, None),
    ('double', -1e308, 1e308, None, None),
    ('double', 1e-300, 2e-300, None, None),
    ('double', 0.0, 10.0, 0.5, None),
    ('double', -100.0, 100.0, None, 0.01),
]
INTS = [
    ('int', None, None),
    ('int', 0, 9),
    ('int', -3, 3),
    ('int', 5, 5),
    ('int', -2 ** 63, 2 ** 63 - 1),
    ('int', 0, 2 ** 64),
]
SCALEDS = [
    ('scaled', 0.1, 0.0, 10.0),
    ('scaled', 0.001, 9.999, 10.001),
    ('scaled', 2.0, -10.0, 10.0),
    ('scaled', 1e-6, None, None),
    ('scaled', 0.5, 2.5, 2.5),
]
BOOLS = [('bool',)]
ENUMS = [
    ('enum', (('a', 1), ('b', 2))),
    ('enum', (('off', 0), ('on', 1))),
    ('enum', (('x', -5), ('y', 100))),
]
STRINGS = [
    ('string', 0, None, False),
    ('string', 0, 3, False),
    ('string', 2, 2, False),
    ('string', 0, None, True),
    ('string', 1, 4, True),
]
BLOBS = [
    ('blob', 0, 4),
    ('blob', 2, 2),
    ('blob', 0, 255),
    ('blob', 256, 256),
]
LEAVES = DOUBLES + INTS + SCALEDS + BOOLS + ENUMS + STRINGS + BLOBS

# one or two representatives per kind, used as members of containers
REPS = [
    ('double', 0.0, 10.0, None, None),
    ('double', None, None, None, None),
    ('int', 0, 9),
    ('int', None, None),
    ('scaled', 0.1, 0.0, 10.0),
    ('bool',),
    ('enum', (('a', 1), ('b', 2))),
    ('string', 0, 3, False),
    ('string', 0, None, True),
    ('blob', 0, 4),
]
REPS_SMALL = [
    ('double', 0.0, 10.0, None, None),
    ('int', 0, 9),
    ('scaled', 0.1, 0.0, 10.0),
    ('bool',),
    ('enum', (('a', 1), ('b', 2))),
    ('string', 0, 3, False),
    ('blob', 0, 4),
]
ARRAY_LENS = [(0, 3), (2, 2), (0, 0), (1, 2)]


def arrays_over(members, lens=ARRAY_LENS):
    return [('array', m, lo, hi) for m in members for lo, hi in lens]


def tuples_over(members, tier):
    res = [('tuple', (m,)) for m in members]
    res += [('tuple', (a, b)) for a in members for b in members]
    if tier == 'thorough':
        res += [('tuple', (a, b, a)) for a in members for b in members if a != b]
    else:
        res += [('tuple', (a, b, a)) for a, b in zip(members, members[1:] + members[:1])]
    return res


def structs_over(members, tier):
    res = []
    for a in members:
        res.append(('struct', (('a', a),), ()))
        res.append(('struct', (('a', a),), None))
    pairs = [(a, b) for a in members for b in members] if tier == 'thorough' else \
        [(a, b) for i, a in enumerate(members) for b in (members[(i + 1) % len(members)], members[(i + 3) % len(members)])]
    for a, b in pairs:
        for opt in ((), ('b',), None):
            res.append(('struct', (('a', a), ('b', b)), opt))
    return res


def depth2(tier):
    reps = REPS
    return arrays_over(LEAVES, [(0, 3), (2, 2)]) + arrays_over(reps, [(0, 0), (1, 2)]) + \
        tuples_over(reps if tier == 'thorough' else REPS_SMALL, tier) + \
        structs_over(reps if tier == 'thorough' else REPS_SMALL, tier)


def depth3(tier):
    """containers with one nested container"""
    inner_members = REPS if tier == 'thorough' else [REPS_SMALL[1], REPS_SMALL[4], REPS_SMALL[5]]
    inner = arrays_over(inner_members, [(0, 2), (1, 3)] if tier == 'thorough' else [(0, 2)])
    inner += [('tuple', (a, b)) for a, b in zip(inner_members, inner_members[1:] + inner_members[:1])]
    for a, b in zip(inner_members, inner_members[1:] + inner_members[:1]):
        inner.append(('struct', (('a', a), ('b', b)), ('b',)))
        if tier == 'thorough':
            inner.append(('struct', (('a', a), ('b', b)), None))
    leaf = ('int', 0, 9)
    res = []
    for c in inner:
        res.append(('array', c, 0, 2))
        res.append(('array', c, 1, 3))
        res.append(('tuple', (leaf, c)))
        res.append(('tuple', (c, c)))
        res.append(('struct', (('a', leaf), ('b', c)), ('b',)))
        res.append(('struct', (('a', c), ('b', leaf)), ()))
        res.append(('struct', (('a', c), ('b', c)), None))
    return res


def all_types(tier, maxdepth=3):
    res = list(LEAVES)
    if maxdepth >= 2:
        res += depth2(tier)
    if maxdepth >= 3:
        res += depth3(tier)
    # dedupe preserving order
    seen, out = set(), []
    for t in res:
        if t not in seen:
            seen.add(t)
            out.append(t)
    return out


def depth(spec):
    k = spec[0]
    if k == 'array':
        return 1 + depth(spec[1])
    if k == 'tuple':
        return 1 + max(depth(m) for m in spec[1])
    if k == 'struct':
        return 1 + max(depth(m) for _, m in spec[1])
    return 1


def has_kind(spec, kinds):
    k = spec[0]
    if k in kinds:
        return True
    if k == 'array':
        return has_kind(spec[1], kinds)
    if k == 'tuple':
        return any(has_kind(m, kinds) for m in spec[1])
    if k == 'struct':
        return any(has_kind(m, kinds) for _, m in spec[1])
    return False


def build(spec):
    """the frappy datatype for a spec (constructed through the public constructors)"""
    from frappy import datatypes as D
    k = spec[0]
    if k == 'double':
        kw = {}
        if spec[3] is not None:
            kw['absolute_resolution'] = spec[3]
        if spec[4] is not None:
            kw['relative_resolution'] = spec[4]
        return D.FloatRange(spec[1], spec[2], **kw)
    if k == 'int':
        return D.IntRange(spec[1], spec[2])
    if k == 'scaled':
        return D.ScaledInteger(spec[1], spec[2], spec[3])
    if k == 'bool':
        return D.BoolType()
    if k == 'enum':
        return D.EnumType('e', members=dict(spec[1]))
    if k == 'string':
        return D.StringType(spec[1], spec[2], isUTF8=spec[3])
    if k == 'blob':
        return D.BLOBType(spec[1], spec[2])
    if k == 'array':
        return D.ArrayOf(build(spec[1]), spec[2], spec[3])
    if k == 'tuple':
        return D.TupleOf(*[build(m) for m in spec[1]])
    if k == 'struct':
        opt = None if spec[2] is None else list(spec[2])
        return D.StructOf(opt, **{n: build(m) for n, m in spec[1]})
    raise ValueError(spec)


def sstr(spec):
    """short readable form"""
    k = spec[0]
    if k == 'array':
        return f'array[{spec[2]}..{spec[3]}]<{sstr(spec[1])}>'
    if k == 'tuple':
        return 'tuple<' + ','.join(sstr(m) for m in spec[1]) + '>'
    if k == 'struct':
        return 'struct<' + ','.join(f'{n}:{sstr(m)}' for n, m in spec[1]) + f'|opt={spec[2]}>'
    if k == 'enum':
        return 'enum(' + ','.join(f'{n}={v}' for n, v in spec[1]) + ')'
    return k + '(' + ','.join('' if a is None else repr(a) for a in spec[1:]) + ')'


def int_limits(spec):
    lo = -16777216 if spec[1] is None else spec[1]
    hi = 16777216 if spec[2] is None else spec[2]
    return lo, hi


def scaled_limits(spec):
    scale = spec[1]
    lo = -16777216 * scale if spec[2] is None else spec[2]
    hi = 16777216 * scale if spec[3] is None else spec[3]
    return scale, lo, hi


def double_limits(spec):
    lo = -FMAX if spec[1] is None else spec[1]
    hi = FMAX if spec[2] is None else spec[2]
    absres = 0.0 if spec[3] is None else spec[3]
    relres = DEFAULT_REL if spec[4] is None else spec[4]
    return lo, hi, absres, relres


def tojson(spec):
    """spec as JSON-able nested list (for replay files)"""
    if isinstance(spec, tuple):
        return [tojson(s) for s in spec]
    return spec


def fromjson(obj):
    if isinstance(obj, list):
        return tuple(fromjson(o) for o in obj)
    return obj
