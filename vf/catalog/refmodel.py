"""Reference semantics of SECoP datatypes, written from the SECoP rules and the property text.  Input is the
catalogue's own *spec* of a type, never frappy's export.

judge(spec, x, r, prev, entry) -> None if `r` is an acceptable validation result for the offered candidate `x`
                                  (given the previous value `prev`), else a (clause, reason) pair:
    clause 'S'  result outside the declared value set
    clause 'F'  result does not denote the offered value (silent reinterpretation)
Acceptance is *permission*: refusing a candidate with RangeError / WrongTypeError is always allowed here
(completeness is C02's business).
"""
import base64
import binascii
import math
import re

from vf.catalog import types as T

EPS = 1e-9
B64_ALPHABET = re.compile(r'^[A-Za-z0-9+/]*={0,2}$')


def is_num(x):
    return isinstance(x, (int, float)) and not isinstance(x, complex)


def kindname(x):
    if x is None:
        return 'null'
    if isinstance(x, bool):
        return 'bool'
    if isinstance(x, int):
        return 'int'
    if isinstance(x, float):
        if math.isnan(x):
            return 'nan'
        if math.isinf(x):
            return 'inf'
        return 'float' if x != int(x) else 'intfloat'
    if isinstance(x, str):
        return 'str'
    if isinstance(x, (bytes, bytearray)):
        return 'bytes'
    if isinstance(x, list):
        return 'list'
    if isinstance(x, tuple):
        return 'tuple'
    if isinstance(x, dict):
        return 'object'
    return type(x).__name__


def judge(spec, x, r, prev=None, entry='wire', validate=True):
    """validate=False: the bare conversion dt(x), which by design applies no limits to numbers"""
    k = spec[0]
    res = globals()['_j_' + k](spec, x, r, prev, entry, validate)
    if res is not None and len(res) == 2:
        res = (res[0], res[1], k)   # the kind at the position where the problem was detected
    return res


def _j_double(spec, x, r, prev, entry, validate):
    if not is_num(x):
        return ('F', f'{kindname(x)} accepted as a number')
    if isinstance(r, bool) or not isinstance(r, (int, float)):
        return ('S', f'result {r!r} is not a number')
    if not validate and isinstance(x, float) and math.isnan(x):
        # the bare conversion applies no limits by design; a NaN reading is passed through, not judged here
        return None if math.isnan(r) else ('F', f'NaN became {r!r}')
    if math.isnan(r):
        return ('S', 'NaN returned as a valid double')
    if isinstance(x, float) and math.isnan(x):
        return ('F', 'NaN accepted')
    lo, hi, absres, relres = T.double_limits(spec)
    if isinstance(x, float) and math.isinf(x):
        # documented mapping of +-inf to +-float max: not judged beyond the value set
        if validate and not lo <= r <= hi:
            return ('S', f'{r!r} outside [{lo}, {hi}]')
        return None
    try:
        xf = float(x)
    except OverflowError:
        return ('F', 'integer beyond float range accepted')
    if not validate:
        if r != xf:
            return ('F', f'{x!r} converted to {r!r}')
        return None
    prec = max(abs(xf * relres), absres)
    slack = prec * (1 + 1e-9) + abs(xf) * 1e-15
    if not lo - slack <= xf <= hi + slack:
        return ('S', f'{x!r} accepted although outside [{lo}, {hi}] by more than the resolution {prec!r}')
    if not lo <= r <= hi:
        return ('S', f'result {r!r} outside [{lo}, {hi}]')
    exp = min(max(xf, lo), hi)
    if r != exp:
        return ('F', f'{x!r} became {r!r}, expected {exp!r}')
    return None


def _integral(x):
    """the integer a JSON number denotes, or None"""
    if isinstance(x, bool):
        return int(x)
    if isinstance(x, int):
        return x
    if isinstance(x, float) and math.isfinite(x) and x == math.floor(x):
        return int(x)
    return None


def _j_int(spec, x, r, prev, entry, validate):
    if not is_num(x):
        return ('F', f'{kindname(x)} accepted as an integer')
    n = _integral(x)
    if n is None:
        return ('F', f'non-integral number {x!r} accepted as integer {r!r}')
    if isinstance(r, bool) or not isinstance(r, int):
        return ('S', f'result {r!r} is not an int')
    if r != n:
        return ('F', f'{x!r} became {r!r}')
    lo, hi = T.int_limits(spec)
    if validate and not lo <= r <= hi:
        return ('S', f'{r!r} outside [{lo}, {hi}]')
    return None


def _j_scaled(spec, x, r, prev, entry, validate):
    if not is_num(x):
        return ('F', f'{kindname(x)} accepted as a scaled number')
    scale, lo, hi = T.scaled_limits(spec)
    if isinstance(r, bool) or not isinstance(r, (int, float)) or not math.isfinite(r):
        return ('S', f'result {r!r} is not a finite number')
    if entry == 'wire':
        n = _integral(x)
        if n is None:
            return ('F', f'non-integral wire value {x!r} accepted as scaled integer (result {r!r})')
        v = n * scale
        # on the wire the value and the described limits are integers: no tolerance is needed or documented there
        if validate and not round(lo / scale) <= n <= round(hi / scale):
            return ('S', f'wire value {n} accepted although outside the integer limits [{round(lo / scale)}, {round(hi / scale)}]')
    else:
        if not math.isfinite(x):
            return ('F', f'{x!r} accepted')
        v = float(x)
    tol = scale * 1e-6 + abs(v) * 1e-12
    # on the grid
    if abs(r / scale - round(r / scale)) > 1e-6:
        return ('S', f'result {r!r} is not a multiple of the scale {scale!r}')
    glo, ghi = round(lo / scale) * scale, round(hi / scale) * scale
    if validate:
        if not lo - scale - tol < v < hi + scale + tol:
            return ('S', f'{x!r} (= {v!r}) accepted although outside [{lo}, {hi}] by a scale step or more')
        if not glo - tol <= r <= ghi + tol:
            return ('S', f'result {r!r} outside [{lo}, {hi}]')
        exp = min(max(round(v / scale) * scale, glo), ghi)
    else:
        exp = round(v / scale) * scale
    if abs(r - exp) > tol and abs(r - v) > scale / 2 + tol:
        return ('F', f'{x!r} (= {v!r}) became {r!r}, expected {exp!r}')
    return None


def _j_bool(spec, x, r, prev, entry, validate):
    if not is_num(x) or x not in (0, 1):
        return ('F', f'{kindname(x)} {x!r} accepted as a boolean')
    if not isinstance(r, bool):
        return ('S', f'result {r!r} is not a bool')
    if r != bool(x):
        return ('F', f'{x!r} became {r!r}')
    return None


def _j_enum(spec, x, r, prev, entry, validate):
    members = dict(spec[1])
    rname, rvalue = getattr(r, 'name', None), getattr(r, 'value', None)
    if rname not in members or members[rname] != rvalue:
        return ('S', f'result {r!r} is not a member')
    if isinstance(x, str):
        if x != rname:
            return ('F', f'name {x!r} became member {rname!r}')
        return None
    if type(x).__name__ == 'EnumMember':
        x = x.value
    if is_num(x):
        n = _integral(x)
        if n is None:
            return ('F', f'non-integral number {x!r} accepted as enum member {rname!r}')
        if n != rvalue:
            return ('F', f'{x!r} became member {rname}={rvalue}')
        return None
    return ('F', f'{kindname(x)} accepted as an enum value')


def _j_string(spec, x, r, prev, entry, validate):
    if not isinstance(x, str):
        return ('F', f'{kindname(x)} accepted as a string')
    if not isinstance(r, str) or r != x:
        return ('F', f'{x!r} became {r!r}')
    lo, hi, utf8 = spec[1], spec[2], spec[3]
    if len(r) < lo or (hi is not None and len(r) > hi):
        return ('S', f'length {len(r)} outside [{lo}, {hi}]')
    if not utf8 and not r.isascii():
        return ('S', 'non-ASCII text in an ASCII string')
    if '\0' in r:
        return ('S', 'NUL character in a string')
    return None


def strict_b64(text):
    """bytes denoted by base64 text, or None.  Whitespace is tolerated (RFC 2045 line folding), anything else
    outside the alphabet or wrong padding is not base64"""
    t = re.sub(r'[ \t\r\n]', '', text)
    if not B64_ALPHABET.match(t) or len(t) % 4:
        return None
    try:
        return base64.b64decode(t, validate=True)
    except (binascii.Error, ValueError):
        return None


def _j_blob(spec, x, r, prev, entry, validate):
    if not isinstance(r, bytes):
        return ('S', f'result {r!r} is not bytes')
    if entry == 'wire':
        if not isinstance(x, str):
            return ('F', f'{kindname(x)} accepted as base64 text')
        exp = strict_b64(x)
        if exp is None:
            return ('F', f'undecodable base64 {x!r} taken as {r!r}')
    else:
        if not isinstance(x, (bytes, bytearray)):
            return ('F', f'{kindname(x)} accepted as bytes')
        exp = bytes(x)
    if r != exp:
        return ('F', f'{x!r} became {r!r}')
    if not spec[1] <= len(r) <= spec[2]:
        return ('S', f'{len(r)} bytes outside [{spec[1]}, {spec[2]}]')
    return None


def _seq_ok(x, entry):
    if entry == 'wire':
        return isinstance(x, list)
    return isinstance(x, (list, tuple))


def _j_array(spec, x, r, prev, entry, validate):
    if not _seq_ok(x, entry):
        return ('F', f'{kindname(x)} accepted as an array')
    if not isinstance(r, tuple):
        return ('S', f'result {r!r} is not a frozen sequence')
    if len(r) != len(x):
        return ('F', f'array of {len(x)} elements became one of {len(r)} elements')
    if not spec[2] <= len(r) <= spec[3]:
        return ('S', f'{len(r)} elements outside [{spec[2]}, {spec[3]}]')
    for i, (xe, re_) in enumerate(zip(x, r)):
        pe = prev[i] if isinstance(prev, (tuple, list)) and i < len(prev) else None
        res = _either(spec[1], xe, re_, pe, entry, validate)
        if res:
            return (res[0], f'[{i}]: {res[1]}', res[2])
    return None


def _j_tuple(spec, x, r, prev, entry, validate):
    if not _seq_ok(x, entry):
        return ('F', f'{kindname(x)} accepted as a tuple')
    if not isinstance(r, tuple):
        return ('S', f'result {r!r} is not a frozen sequence')
    if len(x) != len(spec[1]):
        return ('F', f'list of {len(x)} elements accepted as a {len(spec[1])}-tuple')
    if len(r) != len(spec[1]):
        return ('S', f'{len(r)} elements in a {len(spec[1])}-tuple')
    for i, (m, xe, re_) in enumerate(zip(spec[1], x, r)):
        pe = prev[i] if isinstance(prev, (tuple, list)) and i < len(prev) else None
        res = _either(m, xe, re_, pe, entry, validate)
        if res:
            return (res[0], f'[{i}]: {res[1]}', res[2])
    return None


def _either(m, xe, re_, pe, entry, validate):
    """a nested value may or may not have been merged with the corresponding previous element"""
    res = judge(m, xe, re_, pe, entry, validate)
    if res and pe is not None:
        if judge(m, xe, re_, None, entry, validate) is None:
            return None
    return res


def _j_struct(spec, x, r, prev, entry, validate):
    if not isinstance(x, dict):
        return ('F', f'{kindname(x)} accepted as a struct')
    if not isinstance(r, dict):
        return ('S', f'result {r!r} is not a mapping')
    members = dict(spec[1])
    optional = set(members) if spec[2] is None else set(spec[2])
    unknown = set(x) - set(members)
    if unknown:
        return ('F', f'unknown member(s) {sorted(map(str, unknown))} accepted')
    given = {k: v for k, v in x.items() if v is not None}
    prevd = prev if isinstance(prev, dict) else {}
    want = set(given) | set(prevd)
    if set(r) != want:
        return ('F', f'members given {sorted(given)} (previous {sorted(prevd)}) became members {sorted(r)}')
    missing = set(members) - optional - set(r)
    if missing:
        return ('S', f'mandatory member(s) {sorted(missing)} lacking in the result')
    for k2, xe in given.items():
        res = _either(members[k2], xe, r[k2], prevd.get(k2), entry, validate)
        if res:
            return (res[0], f'.{k2}: {res[1]}', res[2])
    for k2 in set(prevd) - set(given):
        if r[k2] != prevd[k2]:
            return ('F', f'.{k2}: previous value {prevd[k2]!r} became {r[k2]!r}')
    try:
        r['__probe__'] = 1
        return ('S', 'result struct is mutable')
    except TypeError:
        pass
    return None


def has_struct(spec):
    return T.has_kind(spec, ('struct',))
