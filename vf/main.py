"""bin/check entry point"""
import argparse
import importlib
import json
import os
import sys
import time
import traceback

from vf import core


def load_harness(pid):
    return importlib.import_module(f'vf.harness.{pid.lower()}')


def replay_signatures(pid, path):
    """re-execute one recorded case; returns the set of violation signatures it produces"""
    with open(path, encoding='utf-8') as f:
        rec = json.load(f)
    mod = load_harness(pid)
    part = mod.replay(rec['case'])
    return set(part.violations)


def report(ctx, t0):
    known, _fixed = core.load_findings()
    nviol = 0
    lines = []
    seen_known = set()
    for sig in sorted(ctx.total.violations):
        count, case, detail = ctx.total.violations[sig]
        rec = known.get((ctx.pid, sig))
        if rec is not None:
            seen_known.add(sig)
            lines.append(f'KNOWN-FINDING: property={ctx.pid} {sig}: {rec.get("what", detail)} [{count} cases]')
            continue
        nviol += 1
        path = core.write_replay(ctx.pid, sig, case, detail, count)
        lines.append(f'VIOLATION property={ctx.pid} replay={path}')
        lines.append(f'  signature={sig} cases={count}')
        lines.append(f'  {detail[:600]}')
    for (pid, sig), rec in known.items():
        if pid == ctx.pid and sig not in seen_known:
            lines.append(f'note: listed known finding not observed in this run: {sig}')
    wall = time.time() - t0
    path = core.write_evidence(ctx, wall, nviol)
    err = core.validate_evidence(path)
    t = ctx.total
    print(f'{ctx.pid} tier={ctx.tier} seed={ctx.seed} evaluations={t.evaluations} distinct_nontrivial={t.nontrivial} '
          f'states={t.states + len(t.fps)} transitions={t.transitions} traces={t.traces} outcomes={len(t.outcomes)} '
          f'caps={t.caps} wall={wall:.1f}s')
    for name, sc in ctx.subchecks.items():
        print(f'  [{name}] ' + ' '.join(f'{k}={v}' for k, v in sc.items()))
    for line in lines:
        print(line)
    if err:
        print(f'INCONCLUSIVE: evidence file does not validate: {err}')
        return 3
    if nviol:
        return 1
    print(f'OK property={ctx.pid} held on everything explored')
    return 0


def main(argv=None):
    ap = argparse.ArgumentParser()
    ap.add_argument('pid', nargs='?')
    ap.add_argument('--tier', default=os.environ.get('VERIF_TIER') or 'quick', choices=['quick', 'thorough'])
    ap.add_argument('--replay')
    ap.add_argument('--selftest', action='store_true')
    ap.add_argument('--workers', type=int, default=int(os.environ.get('VERIF_WORKERS') or 0) or (os.cpu_count() or 4))
    ap.add_argument('--only', default=os.environ.get('VERIF_ONLY') or '', help='debug: run only the named sub-check(s)')
    args = ap.parse_args(argv)
    try:
        seed = int(os.environ.get('VERIF_SEED') or 0)
    except ValueError:
        seed = 0
    core.TIER, core.SEED = args.tier, seed

    if args.selftest:
        from vf import selftest
        return selftest.run()
    if not args.pid:
        ap.error('property id required')
    pid = args.pid.upper()
    mod = load_harness(pid)

    if args.replay:
        with open(args.replay, encoding='utf-8') as f:
            rec = json.load(f)
        try:
            part = mod.replay(rec['case'])
        except core.Inconclusive as e:
            print(f'INCONCLUSIVE: {e}')
            return 3
        if part.violations:
            for sig, (n, _case, detail) in part.violations.items():
                print(f'VIOLATION property={pid} replay={args.replay}')
                print(f'  signature={sig}')
                print(f'  {detail}')
            return 1
        print('not reproduced: the recorded case satisfies the property on the current tree')
        return 0

    ctx = core.Ctx(pid, args.tier, seed, args.workers)
    ctx.only = set(filter(None, args.only.split(',')))
    t0 = time.time()
    trouble = None
    try:
        mod.run(ctx)
    except core.Inconclusive as e:
        trouble = f'INCONCLUSIVE: {e}'
    except Exception:
        trouble = 'INCONCLUSIVE: harness error\n' + traceback.format_exc()
    ctx.close()
    if trouble:
        print(trouble)
        known, _fixed = core.load_findings()
        if any((pid, sig) not in known for sig in ctx.total.violations):
            # a sub-check lost control, but violations were already established by others: they stand
            ctx.total.caps.append('a sub-check ended INCONCLUSIVE: coverage is partial')
            report(ctx, t0)
            return 1
        return 3
    return report(ctx, t0)


if __name__ == '__main__':
    sys.exit(main())
