"""toy problems for memfs + faultx (run by bin/check --selftest)

Three toy savers replace a file holding OLD by NEW (9 bytes written in chunks of 4, 3 and 2 bytes):
  direct               open(target, 'w'); write x3; close                    -> not atomic
  tmp + close + rename open(tmp, 'w'); write x3; close; rename(tmp, target)  -> atomic
  rename before close  open(tmp, 'w'); write x3; rename(tmp, target); close  -> not atomic, but only a file-system model
                                                                               with buffered handles can see it
The crash-state counts are worked out by hand below and asserted exactly.
"""
from vf.engines import faultx
from vf.engines.memfs import MemFS, Crash

OLD = b'{"a": 1}\n'
NEW = [b'{"a"', b': 2', b'}\n']
NEWB = b''.join(NEW)
T, TMP = '/d/f.json', '/d/f.json.tmp'


def _fs(buffered=True):
    return MemFS(image=(((T, OLD),), ('/d',)), buffered=buffered)


def save_direct(fs):
    with fs.open(T, 'wb') as f:
        for c in NEW:
            f.write(c)


def save_tmp_close_rename(fs):
    try:
        with fs.open(TMP, 'wb') as f:
            for c in NEW:
                f.write(c)
        fs.rename(TMP, T)
    finally:
        try:
            fs.remove(TMP)
        except FileNotFoundError:
            pass


def save_rename_before_close(fs):
    with fs.open(TMP, 'wb') as f:
        for c in NEW:
            f.write(c)
        fs.rename(TMP, T)


def _judge(saver, buffered):
    """-> (crash cases, distinct images, cases whose target is neither OLD nor NEW)"""
    tr = faultx.record(saver, lambda: _fs(buffered))
    assert tr.error is None, tr.error
    n = bad = 0
    distinct = set()
    for cc in faultx.crash_cases(tr):
        n += 1
        distinct.add(cc.image)
        if dict(cc.image[0]).get(T) not in (OLD, NEWB):
            bad += 1
        # the recorded image must be what a real re-execution with a crash at that point leaves behind
        real = faultx.crash_image(saver, lambda: _fs(buffered), cc.op_index, cc.choice, cc.torn, expect_ops=tr.ops)
        assert real == cc.image, (cc.tojson(), real, cc.image)
    assert n == faultx.count_crash_cases(tr)
    return n, len(distinct), bad, tr


def selftest_faultx_toy():
    # direct writer, buffered handles: ops = open-w(truncates), write4, write3, write2, close-w
    #   crash before: open 1 | write4 1 (empty) | write3 1+4 | write2 1+7 | close 1+9 | end 1      = 26 cases
    #   bad: empty 1 + prefixes 0..4 5 + 0..7 8 + 0..8 9 (the 10th image before close is complete NEW) = 23
    n, d, bad, _ = _judge(save_direct, True)
    assert (n, bad) == (26, 23), (n, bad)
    assert d == 11, d        # OLD, and target = every prefix of NEW of length 0..9
    # same writer, unbuffered model: torn writes give the same 9 partial contents (+ empty)
    n, d, bad, _ = _judge(save_direct, False)
    #   before: open 1 | write4 1 +3 torn | write3 1 +2 torn | write2 1 +1 torn | close 1 | end 1 = 12 cases
    #   bad: lengths 0..8 = 9 images (after open, torn 1-3, after w4, torn 5-6, after w3, torn 8), NEW twice, OLD once
    assert (n, d, bad) == (12, 11, 9), (n, d, bad)

    # tmp + close + rename: ops = open-w, write4, write3, write2, close-w, rename, remove
    #   before: open 1 | w4 1 | w3 5 | w2 8 | close 10 | rename 1 | remove 1 | end 1 = 28 cases, none bad
    n, d, bad, tr = _judge(save_tmp_close_rename, True)
    assert (n, bad) == (28, 0), (n, bad)
    assert d == 12, d        # no tmp; tmp = every prefix 0..9 (10 images, target OLD); target NEW
    assert tr.opkinds() == ['open-w', 'write', 'write', 'write', 'close-w', 'rename', 'remove'], tr.opkinds()

    # rename before close: ops = open-w, w4, w3, w2, rename, close-w
    #   before: open 1 | w4 1 | w3 5 | w2 8 | rename 10 | close 10 | end 1 = 36 cases
    #   bad: before close the target holds a prefix 0..8 of NEW -> 9 cases
    n, d, bad, _ = _judge(save_rename_before_close, True)
    assert (n, bad) == (36, 9), (n, bad)
    # ... invisible when every write is assumed to hit the disk at once: this is why memfs buffers
    n, d, bad, _ = _judge(save_rename_before_close, False)
    assert bad == 0 and n == 7 + 3 + 2 + 1, (n, bad)

    # (c) error injection: an OSError from every operation of the atomic saver leaves OLD or NEW and no tmp behind
    tr = faultx.record(save_tmp_close_rename, _fs)
    pts = faultx.fault_points(tr)
    assert len(pts) == 7
    outcomes = []
    for i in pts:
        fs, _res, err, fired = faultx.inject(save_tmp_close_rename, _fs, i, expect_ops=tr.ops)
        assert fired and isinstance(err, OSError), (i, err)
        files = dict(fs.image()[0])
        assert files.get(T) in (OLD, NEWB), (i, files)
        outcomes.append((tr.ops[i].kind, 'new' if files[T] == NEWB else 'old', TMP in files))
    # only an error at the final remove (after the rename) leaves NEW; nothing leaves the tmp file behind
    assert [o[1] for o in outcomes] == ['old'] * 6 + ['new'], outcomes
    assert not any(o[2] for o in outcomes), outcomes

    # a frozen file system: after a crash no `finally:` clause can change the image
    fs = _fs()
    fs.hook = lambda op: fs.crash() if op.kind == 'rename' else None
    try:
        save_tmp_close_rename(fs)
        raise AssertionError('crash not raised')
    except Crash:
        pass
    assert dict(fs.image()[0]) == {T: OLD, TMP: NEWB}
    return ('direct writer: 23 of 26 crash states non-atomic (9 of 12 unbuffered); tmp+close+rename: 0 of 28; '
            'rename-before-close: 9 of 36 with buffered handles, 0 of 13 without; 7 injected OSErrors leave old/new')
