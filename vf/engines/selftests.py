"""toy problems for the engines (run by bin/check --selftest)"""


def selftest_refmodel_catches_seeded_errors():
    from vf.catalog import refmodel as R
    assert R.judge(('int', 0, 9), 2.7, 2) is not None          # truncated fraction
    assert R.judge(('int', 0, 9), 5, 5) is None
    assert R.judge(('array', ('int', 0, 9), 0, 3), [1, 2, 3], (1,)) is not None   # truncated array
    assert R.judge(('blob', 0, 4), '!!!!', b'') is not None
    assert R.judge(('double', 0.0, 10.0, None, None), 10.5, 10.0) is not None
    assert R.judge(('double', 0.0, 10.0, 0.5, None), 10.4, 10.0) is None
    return 'reference model rejects 4 seeded wrong results and accepts 2 right ones'


class _Counter:
    def __init__(self, locked):
        from vf.engines import schedx
        self.x = 0
        self.lock = schedx.Lock() if locked else None

    def incr(self):
        if self.lock:
            with self.lock:
                tmp = self.x
                self.x = tmp + 1
        else:
            tmp = self.x
            self.x = tmp + 1


def _toy(locked, bound, trace):
    from vf.engines import schedx
    outcomes = set()
    traces = {}

    def execute(prefix):
        s = schedx.Scheduler(prefix)
        c = []

        def body():
            cnt = _Counter(locked)
            c.append(cnt)
            s.begin()
            ts = [schedx.Thread(target=cnt.incr, name=f'w{i}') for i in range(2)]
            for t in ts:
                t.start()
            for t in ts:
                t.join()
        x = s.run(body)
        outcomes.add(c[0].x)
        traces[tuple(prefix)] = list(x.trace)
        assert x.deadlock is None, x.deadlock
        return x
    if trace:
        schedx.trace_lines([_Counter.incr])
    try:
        n, capped = schedx.explore(execute, bound)
        # determinism: the root schedule replayed gives the identical trace
        t1 = traces[()]
        execute([])
        assert traces[()] == t1, 'replay of the same schedule differs'
    finally:
        schedx.untrace_all()
    return n, outcomes


def selftest_schedx_lost_update():
    n0, out0 = _toy(False, 0, True)
    assert out0 == {2}, out0                       # no preemption: no lost update
    n1, out1 = _toy(False, 1, True)
    assert out1 == {1, 2}, out1                    # one preemption between load and store loses an update
    n2, out2 = _toy(True, 2, True)
    assert out2 == {2}, out2                       # with the lock, no schedule with <= 2 preemptions loses one
    return f'unlocked: bound0 {n0} schedules {sorted(out0)}, bound1 {n1} schedules {sorted(out1)}; locked: bound2 {n2} schedules {sorted(out2)}'


def selftest_schedx_deadlock_and_timeout():
    from vf.engines import schedx
    found = []

    def execute(prefix):
        s = schedx.Scheduler(prefix)
        a, b = schedx.Lock(), schedx.Lock()

        def t1():
            with a:
                with b:
                    pass

        def t2():
            with b:
                with a:
                    pass

        def body():
            s.begin()
            ts = [schedx.Thread(target=t1, name='t1'), schedx.Thread(target=t2, name='t2')]
            for t in ts:
                t.start()
            for t in ts:
                t.join()
        x = s.run(body)
        if x.deadlock:
            found.append(list(prefix))
        return x
    n, _ = schedx.explore(execute, 1)
    assert found, 'lock-order inversion deadlock not found with 1 preemption'
    # timed wait in virtual time
    s = schedx.Scheduler()
    ev = schedx.Event()
    res = []

    def body():
        s.begin()
        t0 = schedx.vtime()
        res.append(ev.wait(2.5))
        res.append(schedx.vtime() - t0)
    s.run(body)
    assert res == [False, 2.5], res
    return f'deadlock found in {len(found)} of {n} schedules; timed wait took exactly 2.5 virtual seconds'
