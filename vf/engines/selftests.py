"""toy problems for the engines (run by bin/check --selftest)"""


def selftest_refmodel_catches_seeded_errors():
    from vf.catalog import refmodel as R
    assert R.judge(('int', 0, 9), 2.7, 2) is not None          # truncated fraction
    assert R.judge(('int', 0, 9), 5, 5) is None
    assert R.judge(('array', ('int', 0, 9), 0, 3), [1, 2, 3], (1,)) is not None   # truncated array
    assert R.judge(('blob', 0, 4), '!!!!', b'') is not None
    assert R.judge(('double', 0.0, 10.0, None, None), 10.5, 10.0) is not None
    assert R.judge(('double', 0.0, 10.0, 0.5, None), 10.4, 10.0) is None
    return 'reference model rejects 4 seeded wrong results and accepts 2 right ones'
