"""faultx - exhaustive crash / torn-write / I/O-error enumeration over a deterministic scenario on a MemFS.

A *scenario* is a callable `scenario(fs)` that runs a history of real code against a fresh `MemFS` (it installs the
file system where the code under test looks for it) and must be deterministic.  The engine

  record(scenario, make_fs)            dry run; returns a Trace: the operation log and, for every operation index i
                                       (and for the end of the run), every on-disk image a process crash *before*
                                       operation i can leave behind: completed operations are on disk, a file open for
                                       writing holds its flushed bytes plus ANY prefix of the unflushed ones (buffered
                                       handles, see memfs), and for a `write` through an unbuffered handle additionally
                                       every torn prefix of that write.
  crash_cases(trace)                   iterates CrashCase(op_index, before, choice, torn, image): (a) crash before every
                                       operation, (b) every torn / unflushed prefix.  Exhaustive, no sampling.
  crash_image(scenario, make_fs, i, choice, torn)
                                       the same image obtained the hard way: the scenario is re-executed and a `Crash`
                                       is raised from operation i, the file system freezes.  Used to cross-check the
                                       recorded images (a difference means the scenario is not deterministic ->
                                       NonDeterministic, which a harness reports as INCONCLUSIVE).
  inject(scenario, make_fs, i, exc)    (c) re-executes the scenario with `exc` (default OSError(EIO)) raised from
                                       operation i - which then has no effect - and lets the history continue; returns
                                       the file system and whatever the scenario returned / raised.

What is done with an image (recovery by freshly constructed real objects) is the harness' business.
"""
import errno

from vf.engines import memfs
from vf.engines.memfs import Crash, MemFS  # noqa: F401  (re-exported)


class NonDeterministic(Exception):
    """a re-execution did not follow the recorded operation log"""


class CrashCase:
    __slots__ = ('op_index', 'before', 'choice', 'torn', 'image', 'label')

    def __init__(self, op_index, before, choice, torn, image, label):
        self.op_index = op_index    # crash happens before this operation (len(ops) = after the last one) ...
        self.before = before        # ... whose kind is this ('end' after the last operation)
        self.choice = choice        # {handle id: unflushed bytes that reached the disk}
        self.torn = torn            # None | number of bytes of the (unbuffered) write op_index that reached the disk
        self.image = image
        self.label = label          # step label of the operation

    def key(self):
        return (self.op_index, tuple(sorted(self.choice.items())), self.torn)

    def tojson(self):
        return {'op': self.op_index, 'before': self.before, 'choice': {str(k): v for k, v in self.choice.items()},
                'torn': self.torn}


class Trace:
    def __init__(self):
        self.ops = []
        self.points = []      # per crash point: (op_index, kind, label, [(choice, torn, image), ...], open write handles)
        self.result = None
        self.error = None
        self.marks = []
        self.final = None     # image at the end (nothing torn, unflushed data of still-open handles lost)

    def opkinds(self):
        return [op.kind for op in self.ops]


def _torn_images(fs, op):
    """images for a crash in the middle of an unbuffered write: 1 .. len-1 bytes of it on disk"""
    if op.kind != 'write' or not op.data or len(op.data) < 2:
        return
    h = next((h for h in fs.handles if h.hid == op.hid), None)
    if h is None or not h._unbuffered:
        return
    base_files, dirs = fs.image()
    paths = [p for p, ino in fs.names.items() if ino is h.inode]
    for j in range(1, len(op.data)):
        files = tuple((p, d + op.data[:j]) if p in paths else (p, d) for p, d in base_files)
        yield j, (files, dirs)


def _nopen(fs):
    return sum(1 for h in fs.handles if not h.closed)


def record(scenario, make_fs=MemFS, torn=True):
    """dry run with a recording hook.  The scenario's own exception (if any) is kept in trace.error"""
    tr = Trace()
    fs = make_fs()

    def hook(op):
        imgs = [(choice, None, img) for choice, img in fs.images()]
        if torn:
            imgs += [({}, j, img) for j, img in _torn_images(fs, op)]
        tr.points.append((op.index, op.kind, op.label, imgs, _nopen(fs)))

    fs.hook = hook
    try:
        tr.result = scenario(fs)
    except Crash:
        raise
    except Exception as e:   # the history itself may end in an error; the harness decides what that means
        tr.error = e
    fs.hook = None
    tr.ops = list(fs.log)
    tr.marks = list(fs.marks)
    tr.points.append((len(tr.ops), 'end', fs.label, [(choice, None, img) for choice, img in fs.images()], _nopen(fs)))
    tr.final = fs.final_image()
    tr.fs = fs
    return tr


def crash_cases(trace, labels=None):
    """(a) a crash before every operation and after the last one x (b) every prefix of unflushed / torn data"""
    for op_index, kind, label, imgs, _n in trace.points:
        if labels is not None and label not in labels:
            continue
        for choice, torn, img in imgs:
            yield CrashCase(op_index, kind, choice, torn, img, label)


def count_crash_cases(trace):
    return sum(len(p[3]) for p in trace.points)


def _differs(op, expect_ops):
    return expect_ops is not None and (op.index >= len(expect_ops) or expect_ops[op.index].kind != op.kind
                                       or expect_ops[op.index].path != op.path)


def crash_image(scenario, make_fs, op_index, choice=None, torn=None, expect_ops=None):
    """re-execute and crash for real before operation op_index (after the last operation if op_index == number of
    operations); returns the frozen on-disk image"""
    fs = make_fs()
    state = {}

    def hook(op):
        if _differs(op, expect_ops):
            state['nondet'] = f'operation {op.brief()} differs from the recorded log'
            fs.crash()      # a BaseException: cannot be swallowed by the code under test
        if op.index == op_index:
            if torn:
                tl = dict((j, img) for j, img in _torn_images(fs, op))
                state['image'] = tl[torn]
            else:
                state['image'] = fs.image(choice)
            fs.crash()

    fs.hook = hook
    try:
        scenario(fs)
    except Crash:
        pass
    except Exception:
        # code under test converted the crash into something else; the image is frozen anyway
        pass
    if 'nondet' in state:
        raise NonDeterministic(state['nondet'])
    if 'image' not in state:
        if expect_ops is not None and op_index != len(fs.log):
            raise NonDeterministic(f'crash point {op_index} not reached ({len(fs.log)} operations)')
        state['image'] = fs.image(choice)
    return state['image']


def injected_error(kind='EIO'):
    code = getattr(errno, kind)
    return OSError(code, f'injected {kind}')


def inject(scenario, make_fs, op_index, exc=None, expect_ops=None):
    """re-execute with an OSError raised from operation op_index (the operation has no effect); the history goes on.
    returns (fs, result, error, fired)"""
    fs = make_fs()
    fired, nondet = [], []

    def hook(op):
        if op.index <= op_index and _differs(op, expect_ops):
            nondet.append(f'operation {op.brief()} differs from the recorded log')
            fs.crash()
        if op.index == op_index:
            fired.append(op)
            raise exc if exc is not None else injected_error()

    fs.hook = hook
    result = error = None
    try:
        result = scenario(fs)
    except Crash:
        pass
    except Exception as e:
        error = e
    if nondet:
        raise NonDeterministic(nondet[0])
    fs.hook = None
    return fs, result, error, bool(fired)


def fault_points(trace, kinds=memfs.MUTATING, labels=None):
    """operation indices at which (c) injects an error: every mutating file-system operation"""
    return [op.index for op in trace.ops if op.kind in kinds and (labels is None or op.label in labels)]
