"""enumx - small generic pieces for bounded-exhaustive enumeration of sequential code.

explore_deviations(run_one, bound, ...)
    "Bound deviations" idiom.  The code under test asks its environment questions at *choice points* (how long
    does this read take, does it raise, does somebody change the interval while the thread sleeps, what does the
    k-th call of a state function return ...).  Choice point number i of an execution has `arity[i]` possible answers;
    answer 0 is the *default*.  An execution is fully determined by the (few) positions where a non-default answer is
    given: `forced = {position: answer_index >= 1}`.  All executions with at most `bound` non-default answers are
    enumerated by a depth-first search in which every execution replays a forced prefix and then takes defaults:

        run_one(forced) -> arity            (list: number of answers of every choice point met, in order)

    must (re)execute the real code from a fresh initial state, answering choice point i with forced.get(i, 0), and
    report the arities it has seen (and do its own oracle work / counting).  It must be deterministic: an execution
    with forced = F + {p: a} (p beyond all positions of F) meets the same choice points as the execution with F up to
    and including p.  This is checked (NonDeterminism is raised otherwise) - it is the cheap detector for state leaking
    from one execution into the next when a harness re-uses objects.

    The search is stateless (nothing is stored but the current path), complete for the bound, and visits every
    execution exactly once: the children of F are F + {p: a} for every p > max(F) present in the execution of F and
    every a in 1..arity[p]-1.

    Sharding: `shard=(i, n)` keeps only the top-level children number j with j % n == i (the root execution is run
    by every shard because its arities are needed, but `count_root` tells the caller whether to count it).

    `allow(forced, p)` optionally restricts where a further deviation may be placed (e.g. only within a window after
    the previous one); the bound actually completed must then be stated by the caller.
"""


class NonDeterminism(Exception):
    """an execution did not repeat the choice points of the execution it extends"""


def explore_deviations(run_one, bound, shard=None, allow=None):
    """enumerate all executions with <= bound deviations from the default answers; returns the number of executions.

    run_one(forced: dict, count: bool) -> list of arities.  `count` is False only for the root execution in shards
    other than shard 0 (the harness should then not add it to its counters / oracle statistics).
    """
    executions = 0

    def rec(forced, last, parent_arity):
        nonlocal executions
        count = not (shard and not forced and shard[0] != 0)
        arity = run_one(dict(forced), count)
        executions += 1 if count else 0
        if parent_arity is not None:
            if len(arity) <= last or list(arity[:last + 1]) != list(parent_arity[:last + 1]):
                raise NonDeterminism(f'forced={forced}: choice points {list(arity[:last + 1])} differ from those of '
                                     f'the parent execution {list(parent_arity[:last + 1])}')
        if len(forced) >= bound:
            return
        j = 0
        for p in range(last + 1, len(arity)):
            if allow is not None and not allow(forced, p):
                continue
            for a in range(1, arity[p]):
                if not forced and shard is not None:
                    mine = j % shard[1] == shard[0]
                    j += 1
                    if not mine:
                        continue
                forced[p] = a
                rec(forced, p, arity)
                del forced[p]

    rec({}, -1, None)
    return executions


def count_deviation_tree(arities, bound):
    """number of executions explore_deviations would make if every execution had the given arities (planning aid and
    self-test): sum over subsets of <= bound positions of the product of (arity - 1)"""
    poly = [1] + [0] * bound            # poly[k] = number of ways with exactly k deviations so far
    for a in arities:
        for k in range(bound, 0, -1):
            poly[k] += poly[k - 1] * (a - 1)
    return sum(poly)


def selftest_explore_deviations():
    """toy: 4 choice points of arity 3,2,1,3 whose number does not depend on the answers -> closed formula; and a toy
    whose later choice points exist only after a deviation"""
    seen = []

    def run_fixed(forced, count):
        seen.append(tuple(sorted(forced.items())))
        return [3, 2, 1, 3]
    n = explore_deviations(run_fixed, 2)
    assert n == count_deviation_tree([3, 2, 1, 3], 2) == 1 + (2 + 1 + 0 + 2) + (2 * 1 + 2 * 2 + 1 * 2), n
    assert len(set(seen)) == len(seen) == n
    total = 0
    for i in range(3):
        total += explore_deviations(run_fixed, 2, shard=(i, 3))
    assert total == n, (total, n)

    def run_dyn(forced, count):
        return [2, 2] if forced.get(0) != 1 else [2, 2, 4]      # a third choice point appears after deviating at 0
    assert explore_deviations(run_dyn, 2) == 1 + 2 + (1 + 3) + 0
    return f'{n} executions of the fixed toy, sharding adds up, dynamic choice points found'
