"""schedx - stateless exploration of all thread schedules of real code up to a preemption bound.

One OS thread per controlled thread, exactly one runs at a time (per-thread semaphore baton).  A thread that reaches a
*scheduling point* (about to acquire/release a lock, set/clear/wait an event, put/get on a queue, start/join a thread,
sleep, do fake I/O, execute a traced source line, or ask the environment for an answer) decides - following the choice
sequence of this execution - which enabled thread runs next.  Blocking is visible: a thread whose pending operation can
not proceed is disabled; a timed wait carries a virtual deadline; virtual time advances only at quiescence.
No enabled thread and no deadline = deadlock.  Search: depth-first over choice sequences with iterative context
bounding (cost = preemptions; environment choices have their own deviation budget), see explore().

The cooperative primitives (Lock, RLock, Event, Queue, Thread, time) replace the real ones *inside the namespaces of the
frappy modules* (install()); a primitive used while no scheduler is active behaves single-threaded (harness set-up).
"""
import collections
import gc
import queue as _queue
import sys
import threading as _threading
import _thread
import time as _time
import types

from vf import core

_sched = None            # the active Scheduler of this process (one execution at a time)
WATCHDOG = 20.0          # real seconds a controlled thread may run between two scheduling points
T0 = 1_000_000.0         # virtual epoch


class _Baton:
    """binary semaphore on a raw lock (threading.Semaphore is a Python-level Condition and ~20x slower);
    every release is matched by exactly one acquire"""
    __slots__ = ('_l',)

    def __init__(self):
        self._l = _thread.allocate_lock()
        self._l.acquire()

    def release(self):
        self._l.release()

    def acquire(self, timeout=None):
        if timeout is None:
            return self._l.acquire()
        return self._l.acquire(True, timeout)


class _Carrier:
    """pooled OS thread executing one controlled thread after the other"""
    def __init__(self):
        self.wake = _Baton()
        self.job = None
        self.ident = _thread.start_new_thread(self.loop, ())

    def loop(self):
        while True:
            self.wake.acquire()
            fn, arg = self.job
            self.job = None
            try:
                fn(arg)
            finally:
                _pool.append(self)


_pool = []


class SchedAbort(BaseException):
    """raised inside controlled threads to unwind them at the end of an execution"""


class CThread:
    def __init__(self, sched, tid, name, fn, daemon):
        self.sched, self.id, self.name, self.fn, self.daemon = sched, tid, name, fn, daemon
        self.baton = _Baton()
        self.pending = ('start', name, None, None)     # (kind, label, enabled_fn, deadline)
        self.wake = 'ok'
        self.done = False
        self.started = False
        self.exc = None
        self.result = None
        self.os_ident = None
        self.gone = False       # the OS thread has left _thread_main
        self.subject = True      # the execution ends when all subject threads are done

    def __repr__(self):
        return f'T{self.id}:{self.name}'


class Point:
    __slots__ = ('kind', 'enabled', 'chosen', 'running_enabled', 'label', 'window')

    def __init__(self, kind, enabled, chosen, running_enabled, label, window):
        self.kind, self.enabled, self.chosen, self.running_enabled, self.label, self.window = \
            kind, enabled, chosen, running_enabled, label, window


class Execution:
    """record of one complete execution"""
    def __init__(self):
        self.points = []        # Point objects (only points with > 1 alternatives inside the window)
        self.choices = []       # chosen index per point
        self.trace = []         # (tid, kind, label) of every scheduling step
        self.steps = 0
        self.pre_window_steps = 0
        self.deadlock = None    # description if the execution deadlocked
        self.livelock = None    # description if the step/time horizon was exceeded
        self.fingerprints = set()
        self.threads = []
        self.aborted_threads = []
        self.stuck = []
        self.vtime = 0.0
        self.preemptions = 0
        self.deviations = 0


class Scheduler:
    def __init__(self, prefix=(), max_steps=20000, horizon=None, point_kinds=None, tick=0.0, state_fn=None, grace=0.0):
        self.prefix = list(prefix)
        self.max_steps = max_steps
        self.horizon = horizon              # virtual seconds after begin(); None = unlimited
        self.kinds = point_kinds            # None = all kinds are scheduling points
        self.tick = tick
        self.grace = grace                  # virtual seconds the non-subject threads may go on after the subjects are done
        self.subjects_done_at = None
        self.state_fn = state_fn
        self.now = T0
        self.threads = []
        self.current = None
        self.x = Execution()
        self.window = False
        self.window_t0 = None
        self.finished = _Baton()
        self.exited = _Baton()
        self.aborting = False
        self.nlabels = collections.Counter()
        self.log = []                       # harness-visible event log (append only from controlled threads)
        self.end_reason = None
        self._ended = False
        self.diverged = None

    # ---- labels
    def newlabel(self, kind):
        self.nlabels[kind] += 1
        return f'{kind}{self.nlabels[kind]}'

    # ---- thread management
    def me(self):
        t = getattr(_tls, 'cthread', None)
        if t is not None and t.sched is self:
            return t
        return None

    def spawn(self, fn, name=None, daemon=False, subject=None):
        t = CThread(self, len(self.threads), name or f'thread{len(self.threads)}', fn, daemon)
        t.subject = (not daemon) if subject is None else subject
        self.threads.append(t)
        # carrier OS threads are pooled across executions (creating an OS thread costs 0.1 - 4 ms depending on load)
        c = _pool.pop() if _pool else _Carrier()
        t.os_ident = c.ident
        c.job = (self._thread_main, t)
        c.wake.release()
        return t

    def _thread_main(self, t):
        _tls.cthread = t
        t.baton.acquire()
        t.started = True
        try:
            if self.aborting:
                raise SchedAbort()
            t.result = t.fn()
        except SchedAbort:
            pass
        except BaseException as e:     # noqa  an exception ending a controlled thread is an observation
            t.exc = e
        finally:
            t.done = True
            t.pending = None
            _tls.cthread = None
            try:
                if self.aborting:
                    self.exited.release()
                else:
                    self._schedule_from(t, finished=True)
            finally:
                t.gone = True

    # ---- the heart: called by the running thread when it reaches a point / finishes
    def point(self, kind, label='', enabled=None, deadline=None):
        """announce the operation about to be performed and let the scheduler decide who runs next.
        returns 'ok' or 'timeout' (deadline passed while the operation was not enabled)"""
        t = self.me()
        if t is None:
            return 'ok'
        if self.aborting:
            raise SchedAbort()
        if self.kinds is not None and kind not in self.kinds and enabled is None and deadline is None:
            return 'ok'     # not a scheduling point at this granularity (never for blocking operations)
        t.pending = (kind, label, enabled, deadline)
        t.wake = 'ok'
        self._schedule_from(t, finished=False)
        if self.aborting:
            raise SchedAbort()
        return t.wake

    def _enabled_threads(self):
        res = []
        for t in self.threads:
            if t.done or t.pending is None:
                continue
            _kind, _label, enabled, deadline = t.pending
            if enabled is None or enabled():
                t.wake = 'ok'
                res.append(t)
            elif deadline is not None and self.now >= deadline:
                t.wake = 'timeout'
                res.append(t)
        return res

    def _schedule_from(self, t, finished):
        """t is the thread that was running; pick the next one (maybe t itself), hand over the baton"""
        x = self.x
        while True:
            if self._end_condition():
                nxt = None
                break
            enabled = self._enabled_threads()
            if enabled:
                nxt = self._choose_thread(t, enabled, finished)
                break
            # quiescence: advance virtual time to the earliest deadline
            deadlines = [th.pending[3] for th in self.threads if not th.done and th.pending and th.pending[3] is not None]
            if not deadlines and self.subjects_done_at is not None:
                self.end_reason = 'done'        # only non-subject threads are left, blocked for ever: reported as alive
                nxt = None
                break
            if not deadlines:
                x.deadlock = 'no enabled thread: ' + ', '.join(
                    f'{th!r} blocked at {th.pending[0]}:{th.pending[1]}' for th in self.threads if not th.done)
                self.end_reason = 'deadlock'
                nxt = None
                break
            self.now = max(self.now, min(deadlines))
        if nxt is None:
            self._ended = True
            self.finished.release()
            if not finished:
                t.baton.acquire()       # parked until the abort phase unwinds us
            return
        x.steps += 1
        if not self.window:
            x.pre_window_steps += 1
        kind, label = nxt.pending[0], nxt.pending[1]
        x.trace.append((nxt.id, kind, label))
        if self.window and self.state_fn is not None:
            try:
                x.fingerprints.add(hash((tuple((th.id, th.pending[0], th.pending[1]) if th.pending else (th.id, 'done')
                                               for th in self.threads), self.state_fn())))
            except Exception:
                pass
        elif self.window:
            x.fingerprints.add(hash(tuple((th.id, th.pending[0], th.pending[1]) if th.pending else (th.id, 'done')
                                          for th in self.threads)))
        self.current = nxt
        if nxt is t and not finished:
            return
        nxt.baton.release()
        if not finished:
            t.baton.acquire()

    def _end_condition(self):
        x = self.x
        if self._ended:
            return True
        if self.diverged:
            self.end_reason = 'diverged'
            return True
        if x.steps >= self.max_steps:
            x.livelock = f'step horizon {self.max_steps} exceeded'
            self.end_reason = 'steps'
            return True
        if self.window and self.horizon is not None and self.now - self.window_t0 > self.horizon:
            subj = [th for th in self.threads if th.subject and not th.done]
            if subj:
                x.livelock = 'virtual time horizon exceeded with subject threads alive: ' + ', '.join(map(repr, subj))
            self.end_reason = 'horizon'
            return True
        if self.threads and all(th.done for th in self.threads if th.subject):
            if self.subjects_done_at is None:
                self.subjects_done_at = self.now
            if self.grace <= 0 or all(th.done for th in self.threads) or self.now - self.subjects_done_at > self.grace:
                self.end_reason = 'done'
                return True
        return False

    def _choose_thread(self, running, enabled, finished):
        # canonical order: the running thread first if still enabled, then ascending ids
        running_enabled = (not finished) and running in enabled
        order = sorted(enabled, key=lambda th: (0 if (running_enabled and th is running) else 1, th.id))
        if len(order) == 1 or not self.window:
            return order[0]
        idx = self._take_choice('sched', len(order), running_enabled, label=[th.id for th in order])
        if idx and running_enabled:
            self.x.preemptions += 1
        return order[idx]

    def _take_choice(self, kind, n, running_enabled, label):
        x = self.x
        i = len(x.points)
        if i < len(self.prefix):
            idx = self.prefix[i]
            if idx >= n:
                # can not raise here (we are inside some controlled thread): end the execution, run() raises
                self.diverged = f'choice {i}: recorded alternative {idx} but only {n} enabled ({kind} {label})'
                self._ended_by_divergence = True
                idx = 0
        else:
            idx = 0
        x.points.append(Point(kind, n, idx, running_enabled, label, True))
        x.choices.append(idx)
        return idx

    # ---- environment choices
    def choose(self, n, label=''):
        """environment answer: returns 0..n-1; 0 is the benign default; alternatives cost one deviation each"""
        if n <= 1 or not self.window or self.me() is None:
            return 0
        idx = self._take_choice('env', n, False, label)
        if idx:
            self.x.deviations += 1
        return idx

    def begin(self):
        """opens the exploration window: choices before it are forced to the default"""
        self.window = True
        self.window_t0 = self.now

    # ---- running one execution
    def run(self, body, name='main'):
        global _sched
        if _sched is not None:
            raise core.Inconclusive('nested scheduler')
        _sched = self
        gc_was = gc.isenabled()
        gc.disable()
        try:
            main = self.spawn(body, name)
            self.current = main
            self.x.trace.append((main.id, 'start', name))
            main.baton.release()
            if not self.finished.acquire(timeout=WATCHDOG * 6):
                self._diagnose_hang()
            # what every unfinished thread was blocked at when the execution ended
            self.x.stuck = [(t.name, t.pending[0], str(t.pending[1]), t.subject) for t in self.threads if not t.done and t.pending]
            # unwind whatever is still parked
            self.aborting = True
            for t in self.threads:
                if not t.done:
                    self.x.aborted_threads.append(t.name)
                    t.baton.release()
                    if not self.exited.acquire(timeout=WATCHDOG):
                        raise core.Inconclusive(f'controlled thread {t!r} does not unwind (catches BaseException in a loop?)')
            deadline = _time.time() + WATCHDOG
            while not all(t.gone for t in self.threads) and _time.time() < deadline:
                _time.sleep(0)
            self.x.threads = self.threads
            self.x.vtime = self.now - T0
            if self.diverged:
                raise ReplayDivergence(self.diverged)
            return self.x
        finally:
            _sched = None
            if gc_was:
                gc.enable()

    def _diagnose_hang(self):
        cur = self.current
        frames = sys._current_frames()
        where = ''
        if cur is not None and cur.os_ident is not None:
            f = frames.get(cur.os_ident)
            stack = []
            while f is not None and len(stack) < 8:
                stack.append(f'{f.f_code.co_filename.rsplit("/", 1)[-1]}:{f.f_lineno}:{f.f_code.co_name}')
                f = f.f_back
            where = ' <- '.join(stack)
        raise core.Inconclusive(f'watchdog: thread {cur!r} did not reach a scheduling point (uncontrolled blocking or endless loop) at {where}')


class ReplayDivergence(core.Inconclusive):
    pass


_tls = _threading.local()


def active():
    s = _sched
    if s is not None and s.me() is not None:
        return s
    return None


# ---------------------------------------------------------------------------------------------
# cooperative primitives

def _label(kind):
    s = _sched
    return s.newlabel(kind) if s is not None else kind + '?'


class Lock:
    reentrant = False

    def __init__(self):
        self.owner = None
        self.count = 0
        self.label = _label('RL' if self.reentrant else 'L')

    def _free_for(self, me):
        return self.owner is None or (self.reentrant and self.owner is me)

    def acquire(self, blocking=True, timeout=-1):
        s = active()
        if s is None:
            me = 'uncontrolled'
            if self._free_for(me):
                self.owner, self.count = me, self.count + 1
                return True
            if not blocking:
                return False
            raise core.Inconclusive(f'uncontrolled thread blocks on lock {self.label} held by {self.owner!r}')
        me = s.me()
        if not blocking:
            s.point('tryacquire', self.label)
            if self._free_for(me):
                self.owner, self.count = me, self.count + 1
                return True
            return False
        deadline = s.now + timeout if timeout is not None and timeout >= 0 else None
        wake = s.point('acquire', self.label, lambda: self._free_for(me), deadline)
        if wake == 'timeout':
            return False
        self.owner, self.count = me, self.count + 1
        return True

    def release(self):
        if self.owner is None:
            raise RuntimeError('release unlocked lock')
        self.count -= 1
        if self.count == 0:
            self.owner = None
        s = active()
        if s is not None and not s.aborting:
            s.point('release', self.label)

    __enter__ = acquire

    def __exit__(self, *exc):
        self.release()

    def locked(self):
        return self.owner is not None

    def _is_owned(self):
        s = active()
        return self.owner is (s.me() if s else 'uncontrolled')


class RLock(Lock):
    reentrant = True


class Event:
    def __init__(self):
        self._flag = False
        self.label = _label('E')

    def is_set(self):
        return self._flag

    isSet = is_set

    def set(self):
        s = active()
        if s is not None:
            s.point('set', self.label)
        self._flag = True

    def clear(self):
        s = active()
        if s is not None:
            s.point('clear', self.label)
        self._flag = False

    def wait(self, timeout=None):
        s = active()
        if s is None:
            if self._flag:
                return True
            if timeout is None:
                raise core.Inconclusive(f'uncontrolled thread waits for event {self.label}')
            vsleep(timeout)
            return self._flag
        deadline = s.now + timeout if timeout is not None else None
        if timeout is not None and timeout <= 0:
            s.point('poll', self.label)
            return self._flag
        wake = s.point('wait', self.label, lambda: self._flag, deadline)
        return wake != 'timeout'


class Condition:
    """minimal Condition on top of the cooperative lock (frappy itself does not use it; queue shim has its own)"""
    def __init__(self, lock=None):
        self._lock = lock or RLock()
        self._waiters = []
        self.acquire, self.release = self._lock.acquire, self._lock.release
        self.label = _label('C')

    def __enter__(self):
        return self._lock.__enter__()

    def __exit__(self, *a):
        return self._lock.__exit__(*a)

    def wait(self, timeout=None):
        s = active()
        if s is None:
            raise core.Inconclusive('uncontrolled Condition.wait')
        token = [False]
        self._waiters.append(token)
        saved = self._lock.count
        owner = self._lock.owner
        self._lock.count, self._lock.owner = 0, None
        deadline = s.now + timeout if timeout is not None else None
        wake = s.point('cwait', self.label, lambda: token[0] and self._lock.owner is None, deadline)
        if token in self._waiters:
            self._waiters.remove(token)
        if wake == 'timeout':
            s.point('acquire', self._lock.label, lambda: self._lock.owner is None)
        self._lock.owner, self._lock.count = owner, saved
        return wake != 'timeout'

    def notify(self, n=1):
        for token in self._waiters[:n]:
            token[0] = True
        del self._waiters[:n]

    def notify_all(self):
        self.notify(len(self._waiters))


class Queue:
    def __init__(self, maxsize=0):
        self.maxsize = maxsize
        self.items = collections.deque()
        self.label = _label('Q')

    def qsize(self):
        return len(self.items)

    def empty(self):
        return not self.items

    def full(self):
        return 0 < self.maxsize <= len(self.items)

    def put(self, item, block=True, timeout=None):
        s = active()
        if s is None:
            if self.full():
                if not block:
                    raise _queue.Full
                raise core.Inconclusive(f'uncontrolled thread blocks on full queue {self.label}')
            self.items.append(item)
            return
        if not block:
            s.point('put', self.label)
            if self.full():
                raise _queue.Full
        else:
            deadline = s.now + timeout if timeout is not None else None
            wake = s.point('put', self.label, (lambda: not self.full()) if self.maxsize > 0 else None, deadline)
            if wake == 'timeout':
                raise _queue.Full
        self.items.append(item)

    def put_nowait(self, item):
        return self.put(item, block=False)

    def get(self, block=True, timeout=None):
        s = active()
        if s is None:
            if not self.items:
                if not block or timeout is not None:
                    raise _queue.Empty
                raise core.Inconclusive(f'uncontrolled thread blocks on empty queue {self.label}')
            return self.items.popleft()
        if not block or (timeout is not None and timeout <= 0):
            s.point('poll', self.label)
            if not self.items:
                raise _queue.Empty
            return self.items.popleft()
        deadline = s.now + timeout if timeout is not None else None
        wake = s.point('get', self.label, lambda: bool(self.items), deadline)
        if wake == 'timeout':
            raise _queue.Empty
        return self.items.popleft()

    def get_nowait(self):
        return self.get(block=False)

    def task_done(self):
        pass


class Thread:
    """threading.Thread replacement; subclassable (run())"""
    def __init__(self, group=None, target=None, name=None, args=(), kwargs=None, *, daemon=None):
        self._target, self._args, self._kwargs = target, args, kwargs or {}
        self.name = name or 'Thread'
        self.daemon = bool(daemon)
        self._ct = None
        self.ident = None

    def run(self):
        if self._target is not None:
            self._target(*self._args, **self._kwargs)

    def start(self):
        s = active()
        if s is None:
            raise core.Inconclusive(f'thread {self.name} started outside the scheduler')
        s.point('spawn', self.name)
        self._ct = s.spawn(self.run, self.name, daemon=self.daemon)
        self.ident = 1000 + self._ct.id

    def is_alive(self):
        return self._ct is not None and not self._ct.done

    isAlive = is_alive

    def join(self, timeout=None):
        if self._ct is None:
            raise RuntimeError('cannot join thread before it is started')
        s = active()
        if s is None:
            if self._ct.done:
                return
            raise core.Inconclusive(f'uncontrolled join of {self.name}')
        if s.me() is self._ct:
            raise RuntimeError('cannot join current thread')
        deadline = s.now + timeout if timeout is not None else None
        s.point('join', self.name, lambda: self._ct.done, deadline)


class _MainThreadProxy:
    name = 'MainThread'
    daemon = False
    ident = 1

    def is_alive(self):
        return True


_main_proxy = _MainThreadProxy()


def current_thread():
    s = _sched
    if s is not None:
        t = s.me()
        if t is not None:
            return t          # CThread: has .name; identity comparisons work
    return _main_proxy


def get_ident():
    t = current_thread()
    return 1 if t is _main_proxy else 1000 + t.id


# ---- virtual time
_vnow = [T0]      # virtual clock when no scheduler is active (sequential harnesses)


def vtime():
    s = _sched
    if s is not None:
        if s.tick:
            s.now += s.tick
        return s.now
    return _vnow[0]


def vsleep(t):
    s = active()
    if s is None:
        _vnow[0] += max(t, 0)
        return
    if t <= 0:
        s.point('yield', 'sleep0')
        return
    s.point('sleep', f'{t:g}', lambda: False, s.now + t)


def set_vnow(t):
    _vnow[0] = t


class _Shim(types.ModuleType):
    """module-like object: selected names replaced, everything else from the real module"""
    def __init__(self, real, **repl):
        super().__init__(real.__name__)
        self.__dict__['_real'] = real
        self.__dict__.update(repl)

    def __getattr__(self, name):
        return getattr(self._real, name)


threading_shim = _Shim(_threading, Lock=Lock, RLock=RLock, Event=Event, Condition=Condition, Thread=Thread,
                       current_thread=current_thread, currentThread=current_thread, get_ident=get_ident)
time_shim = _Shim(_time, time=vtime, monotonic=vtime, sleep=vsleep, perf_counter=vtime)
queue_shim = _Shim(_queue, Queue=Queue)

_BY_IDENTITY = {
    id(_threading): threading_shim, id(_time): time_shim, id(_queue): queue_shim,
    id(_threading.Lock): Lock, id(_threading.RLock): RLock, id(_threading.Event): Event,
    id(_threading.Condition): Condition, id(_threading.Thread): Thread,
    id(_threading.current_thread): current_thread, id(_threading.get_ident): get_ident,
    id(_time.time): vtime, id(_time.monotonic): vtime, id(_time.sleep): vsleep, id(_queue.Queue): Queue,
}
_REAL_KEEPALIVE = (_threading.Lock, _threading.RLock, _threading.Event, _threading.Condition, _threading.Thread,
                   _threading.current_thread, _threading.get_ident, _time.time, _time.monotonic, _time.sleep, _queue.Queue)
_installed = set()


def install(prefixes=('frappy',), extra=None):
    """rebinding scan: in every loaded module whose name starts with one of the prefixes, replace by identity every
    reference to threading/time/queue (modules and directly imported primitives) by the cooperative counterpart; re-base
    classes that inherit from a real primitive.  Idempotent; call again after importing further frappy modules."""
    table = dict(_BY_IDENTITY)
    if extra:
        table.update({id(k): v for k, v in extra.items()})
    n = 0
    for modname, mod in list(sys.modules.items()):
        if mod is None or not any(modname == p or modname.startswith(p + '.') for p in prefixes):
            continue
        for attr, val in list(vars(mod).items()):
            repl = table.get(id(val))
            if repl is not None and repl is not val:
                setattr(mod, attr, repl)
                n += 1
            elif isinstance(val, type) and val.__module__ == modname:
                bases = tuple(table.get(id(b), b) for b in val.__bases__)
                if bases != val.__bases__:
                    val.__bases__ = bases
                    n += 1
        _installed.add(modname)
    return n


# ---- line-level scheduling points (sys.monitoring)
_TOOL = 3
_traced = set()


def trace_lines(funcs):
    """make every source line of the given functions a scheduling point (kind 'line') for controlled threads"""
    mon = sys.monitoring
    if mon.get_tool(_TOOL) is None:
        mon.use_tool_id(_TOOL, 'schedx')
        mon.register_callback(_TOOL, mon.events.LINE, _on_line)
    codes = [f if isinstance(f, types.CodeType) else getattr(f, '__code__', None) or f.__func__.__code__ for f in funcs]
    # exactly this set: what an earlier case of the same worker process traced must not add points to this one
    for code in list(_traced):
        if code not in codes:
            mon.set_local_events(_TOOL, code, 0)
            _traced.discard(code)
    for code in codes:
        if code not in _traced:
            _traced.add(code)
            mon.set_local_events(_TOOL, code, mon.events.LINE)


def untrace_all():
    mon = sys.monitoring
    for code in list(_traced):
        mon.set_local_events(_TOOL, code, 0)
    _traced.clear()


def _on_line(code, lineno):
    s = _sched
    if s is not None and s.window and not s.aborting:
        t = s.me()
        if t is not None and (s.kinds is None or 'line' in s.kinds):
            s.point('line', f'{code.co_name}:{lineno}')


# ---------------------------------------------------------------------------------------------
# exploration

class Result:
    """statistics of an exploration (merged over workers)"""
    def __init__(self):
        self.executions = 0
        self.steps = 0
        self.fingerprints = set()
        self.outcomes = collections.Counter()
        self.max_points = 0
        self.deadlocks = 0
        self.livelocks = 0
        self.pre_window_steps = 0


def run_one(make_body, prefix, **kw):
    """one execution: make_body(sched) -> callable body; returns (Execution, observation from body via sched.obs)"""
    s = Scheduler(prefix, **kw)
    body = make_body(s)
    x = s.run(body)
    return s, x


def explore(execute, bound, dev_bound=0, prefix=(), on_execution=None, max_executions=None, total_bound=None, free_bound=None):
    """depth-first exploration with iterative context bounding (all executions with <= bound preemptions and
    <= dev_bound environment deviations; total_bound, if given, additionally limits preemptions + deviations; free_bound, if given, limits the number of
    non-default choices at points where the running thread is blocked - such a switch costs no preemption, and the
    default there is the lowest thread id).

    execute(prefix) -> Execution (must replay `prefix` exactly, then take choice 0 everywhere)
    on_execution(x)   called for every complete execution (oracle)
    returns (number of executions, capped?)
    """
    stack = [list(prefix)]
    n = 0
    while stack:
        pfx = stack.pop()
        x = execute(pfx)
        n += 1
        if x.choices[:len(pfx)] != pfx:
            raise ReplayDivergence(f'prefix {pfx} replayed as {x.choices[:len(pfx)]}')
        if on_execution is not None:
            on_execution(x)
        if max_executions is not None and n >= max_executions:
            return n, True
        pre = dev = free = 0
        for i, p in enumerate(x.points):
            if i >= len(pfx):
                for alt in range(1, p.enabled):
                    if p.kind == 'sched':
                        c = 1 if p.running_enabled else 0
                        if pre + c <= bound and (total_bound is None or pre + c + dev <= total_bound) and \
                                (c or free_bound is None or free + 1 <= free_bound):
                            stack.append(x.choices[:i] + [alt])
                    else:
                        if dev + 1 <= dev_bound and (total_bound is None or pre + dev + 1 <= total_bound):
                            stack.append(x.choices[:i] + [alt])
            if p.chosen:
                if p.kind == 'sched':
                    if p.running_enabled:
                        pre += 1
                    else:
                        free += 1
                else:
                    dev += 1
    return n, False


def first_level(x, bound, dev_bound, free_bound=None):
    """the prefixes branching off the root execution x (for distributing sub-trees over workers)"""
    res = []
    for i, p in enumerate(x.points):
        for alt in range(1, p.enabled):
            if p.kind == 'sched':
                if (1 if p.running_enabled else 0) <= bound and (p.running_enabled or free_bound is None or free_bound >= 1):
                    res.append(x.choices[:i] + [alt])
            elif dev_bound >= 1:
                res.append(x.choices[:i] + [alt])
    return res
