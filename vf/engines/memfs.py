"""memfs - a small in-memory file system with *buffered handles*, an operation log and a fault hook.

What is modelled (and nothing more):

* names -> inodes (byte strings) and a set of directories; `rename` moves the inode (an open handle keeps writing to
  the inode it opened, whatever its name is now); `remove` drops the name.
* a handle opened for writing collects the bytes written through it in a user-space buffer (CPython: TextIOWrapper
  + BufferedWriter) until `flush()` / `close()` / `os.fsync`.  **What is on disk for such a file is the flushed part
  plus ANY prefix of the unflushed bytes** (the runtime may flush whenever its buffer fills, a process crash loses the
  rest).  `MemFS.images()` enumerates these on-disk images; `MemFS(buffered=False)` is the naive model in which every
  `write` reaches the disk at once (used by the engine self-test to show why buffering has to be modelled).
* text mode is UTF-8 (or the given encoding) without newline translation; prefixes are *byte* prefixes, so a
  multi-byte character can be cut.
* crash model: process crash.  Page-cache reordering after power loss is NOT modelled (no fsync semantics beyond
  "flush"): completed operations are on disk in program order.

Every file-system operation is appended to `fs.log` as an `Op` and passed to `fs.hook(op)` *before* it takes effect;
the hook may raise `OSError` (the operation then has no effect) or `Crash` (the file system freezes: every later
operation raises `Crash` again, so `finally:` clauses of the code under test cannot touch the image any more).

Installing: `with installed(fs, module, logdir_holder...)` rebinds the names `open` and `os` (and `Path` if the module
has it) in the namespace of ONE module; nothing else in the process sees the fake.  Anything of `os` / `os.path` that is
not modelled raises `Unsupported` (the harness turns that into INCONCLUSIVE, never into a verdict).
"""
import errno
import itertools
import os as _os
import pathlib
import posixpath


class Crash(BaseException):
    """simulated process crash (BaseException: must not be swallowed by `except Exception`)"""


class Unsupported(Exception):
    """the code under test used a file-system facility memfs does not model"""


MUTATING = ('open-w', 'write', 'flush', 'close-w', 'rename', 'remove', 'mkdir', 'fsync', 'truncate')


class Op:
    __slots__ = ('index', 'kind', 'path', 'path2', 'data', 'label', 'hid')

    def __init__(self, index, kind, path, path2=None, data=None, label=None, hid=None):
        self.index, self.kind, self.path, self.path2, self.data, self.label, self.hid = \
            index, kind, path, path2, data, label, hid

    @property
    def mutating(self):
        return self.kind in MUTATING

    def brief(self):
        s = f'{self.index}:{self.kind} {self.path}'
        if self.path2:
            s += f' -> {self.path2}'
        if self.data is not None:
            s += f' {len(self.data)}B'
        return s

    def __repr__(self):
        return f'<Op {self.brief()}>'


class Inode:
    __slots__ = ('data',)

    def __init__(self, data=b''):
        self.data = bytearray(data)


def _norm(path):
    if isinstance(path, bytes):
        path = path.decode()
    path = _os.fspath(path) if not isinstance(path, str) else path
    if not path.startswith('/'):
        path = '/' + path          # cwd is '/'
    return posixpath.normpath(path)


class MemFS:
    def __init__(self, image=None, buffered=True):
        self.buffered = buffered
        self.names = {}          # path -> Inode
        self.dirs = {'/'}
        self.handles = []        # open write handles (in order of opening)
        self.log = []
        self.hook = None         # callable(op), may raise OSError / Crash
        self.label = None        # current step label, copied into every Op
        self.crashed = False
        self.marks = []          # (op index, text) markers set by the harness
        self._nhandles = 0
        if image is not None:
            files, dirs = image
            for p, data in files:
                self.names[p] = Inode(data)
                self._mkparents(p)
            for d in dirs:
                self.dirs.add(d)
                self._mkparents(d)
        self.Path = _make_path_class(self)

    # ---- bookkeeping
    def _mkparents(self, p):
        d = posixpath.dirname(p)
        while d not in self.dirs:
            self.dirs.add(d)
            d = posixpath.dirname(d)

    def _op(self, kind, path, path2=None, data=None, hid=None):
        if self.crashed:
            raise Crash()
        op = Op(len(self.log), kind, path, path2, data, self.label, hid)
        self.log.append(op)
        if self.hook is not None:
            try:
                self.hook(op)
            except Crash:
                self.crashed = True
                raise
        return op

    def mark(self, text):
        self.marks.append((len(self.log), text))

    def crash(self):
        """freeze the image (used by hooks: `fs.crash()` == raise Crash from the current operation)"""
        self.crashed = True
        raise Crash()

    # ---- images
    def image(self, choice=None):
        """on-disk image as a canonical, hashable value: (sorted ((path, bytes), ...), sorted dirs).
        choice: {handle id: number of unflushed bytes that reached the disk} (default 0 for every handle)"""
        extra = {}
        for h in self.handles:
            if h.buf and not h.closed:
                n = (choice or {}).get(h.hid, 0)
                extra.setdefault(id(h.inode), bytearray()).extend(h.buf[:n])
        files = []
        for p in sorted(self.names):
            ino = self.names[p]
            files.append((p, bytes(ino.data) + bytes(extra.get(id(ino), b''))))
        return tuple(files), tuple(sorted(self.dirs))

    def pending(self):
        """[(handle id, path at open time, number of unflushed bytes)] of the open write handles"""
        return [(h.hid, h.path, len(h.buf)) for h in self.handles if not h.closed and h.buf]

    def images(self):
        """every on-disk image possible right now: the product over open write handles of every prefix of their
        unflushed bytes.  yields (choice, image)"""
        pend = self.pending()
        if not pend:
            yield {}, self.image()
            return
        for combo in itertools.product(*[range(n + 1) for _, _, n in pend]):
            choice = {hid: k for (hid, _, _), k in zip(pend, combo)}
            yield choice, self.image(choice)

    def final_image(self):
        """image when nothing is open any more (open handles count as not flushed)"""
        return self.image()

    # ---- queries (no fault injection on pure queries unless the hook wants it)
    def exists(self, path):
        p = _norm(path)
        self._op('stat', p)
        return p in self.names or p in self.dirs

    def isdir(self, path):
        p = _norm(path)
        self._op('stat', p)
        return p in self.dirs

    def isfile(self, path):
        p = _norm(path)
        self._op('stat', p)
        return p in self.names

    def listdir(self, path):
        p = _norm(path)
        self._op('listdir', p)
        if p not in self.dirs:
            raise FileNotFoundError(errno.ENOENT, 'No such file or directory', p)
        pre = p.rstrip('/') + '/'
        res = set()
        for q in list(self.names) + list(self.dirs):
            if q.startswith(pre) and q != p:
                res.add(q[len(pre):].split('/')[0])
        return sorted(res)

    # ---- mutations
    def mkdir(self, path, parents=False, exist_ok=False):
        p = _norm(path)
        self._op('mkdir', p)
        if p in self.dirs:
            if exist_ok:
                return
            raise FileExistsError(errno.EEXIST, 'File exists', p)
        if p in self.names:
            raise FileExistsError(errno.EEXIST, 'File exists', p)
        parent = posixpath.dirname(p)
        if parent not in self.dirs:
            if not parents:
                raise FileNotFoundError(errno.ENOENT, 'No such file or directory', p)
            if parent in self.names:
                raise NotADirectoryError(errno.ENOTDIR, 'Not a directory', p)
            self._mkparents(p)
        self.dirs.add(p)

    def makedirs(self, path, mode=0o777, exist_ok=False):
        self.mkdir(path, parents=True, exist_ok=exist_ok)

    def rename(self, src, dst):
        s, d = _norm(src), _norm(dst)
        self._op('rename', s, d)
        if s in self.dirs:
            raise Unsupported('rename of a directory')
        if s not in self.names:
            raise FileNotFoundError(errno.ENOENT, 'No such file or directory', s)
        if d in self.dirs:
            raise IsADirectoryError(errno.EISDIR, 'Is a directory', d)
        if posixpath.dirname(d) not in self.dirs:
            raise FileNotFoundError(errno.ENOENT, 'No such file or directory', d)
        self.names[d] = self.names.pop(s)     # atomic replace: the inode moves, open handles follow the inode

    replace = rename

    def remove(self, path):
        p = _norm(path)
        self._op('remove', p)
        if p in self.dirs:
            raise IsADirectoryError(errno.EISDIR, 'Is a directory', p)
        if p not in self.names:
            raise FileNotFoundError(errno.ENOENT, 'No such file or directory', p)
        del self.names[p]

    unlink = remove

    def open(self, file, mode='r', buffering=-1, encoding=None, errors=None, newline=None, closefd=True, opener=None):
        if isinstance(file, int):
            raise Unsupported('open(fd)')
        p = _norm(file)
        binary = 'b' in mode
        m = mode.replace('b', '').replace('t', '')
        if m not in ('r', 'w', 'x', 'a'):
            raise Unsupported(f'open mode {mode!r}')
        if m == 'r':
            self._op('open-r', p)
            if p in self.dirs:
                raise IsADirectoryError(errno.EISDIR, 'Is a directory', p)
            if p not in self.names:
                raise FileNotFoundError(errno.ENOENT, 'No such file or directory', p)
            return ReadHandle(self, p, bytes(self.names[p].data), binary, encoding or 'utf-8', errors or 'strict')
        self._nhandles += 1
        hid = self._nhandles
        self._op('open-w', p, hid=hid)
        if p in self.dirs:
            raise IsADirectoryError(errno.EISDIR, 'Is a directory', p)
        if posixpath.dirname(p) not in self.dirs:
            raise FileNotFoundError(errno.ENOENT, 'No such file or directory', p)
        if m == 'x' and p in self.names:
            raise FileExistsError(errno.EEXIST, 'File exists', p)
        ino = self.names.get(p)
        if ino is None:
            ino = self.names[p] = Inode()
        elif m == 'w':
            del ino.data[:]           # O_TRUNC acts on the inode at once
        h = WriteHandle(self, hid, p, ino, binary, encoding or 'utf-8', errors or 'strict',
                        unbuffered=(buffering == 0) or not self.buffered)
        self.handles.append(h)
        return h


class ReadHandle:
    def __init__(self, fs, path, data, binary, encoding, errors):
        self.fs, self.name, self._data, self._binary, self._enc, self._err = fs, path, data, binary, encoding, errors
        self._pos = 0
        self.closed = False
        self._text = None

    def _all(self):
        self.fs._op('read', self.name)
        if self._binary:
            return self._data
        if self._text is None:
            self._text = self._data.decode(self._enc, self._err)     # UnicodeDecodeError as the real read() would
        return self._text

    def read(self, n=-1):
        data = self._all()
        if n is None or n < 0:
            res, self._pos = data[self._pos:], len(data)
        else:
            res, self._pos = data[self._pos:self._pos + n], min(len(data), self._pos + n)
        return res

    def readline(self):
        data = self._all()
        nl = data.find(b'\n' if self._binary else '\n', self._pos)
        end = len(data) if nl < 0 else nl + 1
        res, self._pos = data[self._pos:end], end
        return res

    def readlines(self):
        res = []
        while True:
            line = self.readline()
            if not line:
                return res
            res.append(line)

    def __iter__(self):
        return iter(self.readlines())

    def close(self):
        if not self.closed:
            self.closed = True
            self.fs._op('close-r', self.name)

    def __enter__(self):
        return self

    def __exit__(self, *exc):
        self.close()
        return False

    def readable(self):
        return True

    def writable(self):
        return False


class WriteHandle:
    def __init__(self, fs, hid, path, inode, binary, encoding, errors, unbuffered):
        self.fs, self.hid, self.path, self.name, self.inode = fs, hid, path, path, inode
        self._binary, self._enc, self._err, self._unbuffered = binary, encoding, errors, unbuffered
        self.buf = bytearray()      # written through the handle, not yet on disk for sure
        self.closed = False

    def write(self, s):
        if self.closed:
            raise ValueError('I/O operation on closed file.')
        if self._binary:
            data = bytes(s)
        else:
            if not isinstance(s, str):
                raise TypeError(f'write() argument must be str, not {type(s).__name__}')
            data = s.encode(self._enc, self._err)
        self.fs._op('write', self.path, data=data, hid=self.hid)
        if self._unbuffered:
            self.inode.data.extend(data)
        else:
            self.buf.extend(data)
        return len(s)

    def writelines(self, lines):
        for line in lines:
            self.write(line)

    def flush(self):
        if self.closed:
            raise ValueError('I/O operation on closed file.')
        self.fs._op('flush', self.path, hid=self.hid)
        self._sync()

    def _sync(self):
        self.inode.data.extend(self.buf)
        del self.buf[:]

    def fileno(self):
        return 1000 + self.hid

    def close(self):
        if self.closed:
            return
        try:
            self.fs._op('close-w', self.path, hid=self.hid)
        except OSError:
            # CPython: a failing flush in close() still closes the descriptor; what was buffered is lost
            self.closed = True
            del self.buf[:]
            raise
        self._sync()
        self.closed = True

    def __enter__(self):
        return self

    def __exit__(self, *exc):
        self.close()
        return False

    def readable(self):
        return False

    def writable(self):
        return True


class _PathShim:
    """os.path as seen by the module under test"""
    def __init__(self, fs):
        self._fs = fs
        self.exists, self.isdir, self.isfile = fs.exists, fs.isdir, fs.isfile
        for n in ('join', 'dirname', 'basename', 'split', 'splitext', 'normpath', 'sep', 'isabs', 'abspath',
                  'expanduser'):
            setattr(self, n, getattr(posixpath, n))

    def __getattr__(self, name):
        raise Unsupported(f'os.path.{name}')


class OsShim:
    """the module `os` as seen by the module under test: file-system functions act on the MemFS, a few pure helpers
    are passed through, everything else is refused loudly"""
    PASS = ('sep', 'linesep', 'fspath', 'environ', 'getpid', 'name', 'PathLike', 'curdir', 'pardir', 'getenv', 'error',
            'strerror', 'fsencode', 'fsdecode')

    def __init__(self, fs):
        self._fs = fs
        self.path = _PathShim(fs)
        self.makedirs, self.mkdir = fs.makedirs, lambda p, mode=0o777: fs.mkdir(p)
        self.rename, self.replace, self.remove, self.unlink = fs.rename, fs.replace, fs.remove, fs.unlink
        self.listdir = fs.listdir
        for n in self.PASS:
            setattr(self, n, getattr(_os, n))

    def fsync(self, fd):
        fd = fd.fileno() if hasattr(fd, 'fileno') else fd
        for h in self._fs.handles:
            if h.fileno() == fd and not h.closed:
                self._fs._op('fsync', h.path, hid=h.hid)
                h._sync()
                return
        raise OSError(errno.EBADF, 'Bad file descriptor')

    fdatasync = fsync

    def __getattr__(self, name):
        raise Unsupported(f'os.{name}')


def _make_path_class(fs):
    """a PurePosixPath subclass bound to this file system: all pure operations of pathlib plus the few
    file-system methods modelled"""
    class MemPath(pathlib.PurePosixPath):
        _fs = fs

        def is_dir(self):
            return fs.isdir(self)

        def is_file(self):
            return fs.isfile(self)

        def exists(self):
            return fs.exists(self)

        def mkdir(self, mode=0o777, parents=False, exist_ok=False):
            fs.mkdir(self, parents=parents, exist_ok=exist_ok)

        def unlink(self, missing_ok=False):
            try:
                fs.remove(self)
            except FileNotFoundError:
                if not missing_ok:
                    raise

        def rename(self, target):
            fs.rename(self, target)
            return self.with_segments(target)

        def replace(self, target):
            fs.replace(self, target)
            return self.with_segments(target)

        def open(self, mode='r', buffering=-1, encoding=None, errors=None, newline=None):
            return fs.open(self, mode, buffering, encoding, errors, newline)

        def read_text(self, encoding=None, errors=None):
            with fs.open(self, 'r', encoding=encoding, errors=errors) as f:
                return f.read()

        def read_bytes(self):
            with fs.open(self, 'rb') as f:
                return f.read()

        def write_text(self, data, encoding=None, errors=None, newline=None):
            with fs.open(self, 'w', encoding=encoding, errors=errors) as f:
                return f.write(data)

        def write_bytes(self, data):
            with fs.open(self, 'wb') as f:
                return f.write(data)

        def iterdir(self):
            for n in fs.listdir(self):
                yield self / n

        def __getattr__(self, name):
            if name.startswith('_'):
                raise AttributeError(name)
            raise Unsupported(f'Path.{name}')

    MemPath.__name__ = MemPath.__qualname__ = 'MemPath'
    return MemPath


_MISSING = object()


class installed:
    """context manager: `open` / `os` (and `Path`, if the module has that name) of ONE module namespace -> fs.
    extra: {(object, attribute): value} further bindings to set and restore (e.g. generalConfig.logdir)"""

    def __init__(self, fs, module, extra=None):
        self.fs, self.module, self.extra = fs, module, dict(extra or {})
        self.saved = []

    def _set(self, obj, name, value, isdict):
        if isdict:
            self.saved.append((obj, name, obj.get(name, _MISSING), True))
            obj[name] = value
        else:
            self.saved.append((obj, name, obj.__dict__.get(name, _MISSING), False))
            setattr(obj, name, value)

    def __enter__(self):
        ns = vars(self.module)
        self._set(ns, 'open', self.fs.open, True)
        self._set(ns, 'os', OsShim(self.fs), True)
        if 'Path' in ns:
            self._set(ns, 'Path', self.fs.Path, True)
        for (obj, name), value in self.extra.items():
            self._set(obj, name, value, False)
        return self.fs

    def __exit__(self, *exc):
        for obj, name, old, isdict in reversed(self.saved):
            if isdict:
                if old is _MISSING:
                    obj.pop(name, None)
                else:
                    obj[name] = old
            elif old is _MISSING:
                try:
                    delattr(obj, name)
                except AttributeError:
                    pass
            else:
                setattr(obj, name, old)
        self.saved = []
        return False


def files_of(image):
    return dict(image[0])
