"""In-memory stream sockets under schedx: the real AsynTcp / TCPRequestHandler code runs, the kernel does not.

A `Net` maps (host, port) to a peer factory.  `socket.create_connection` as seen from frappy.lib.asynconn returns a
FakeStreamSock whose other end is a *scripted peer object*:
    peer.on_connect(sock)            called when the connection is made (may refuse by raising)
    peer.on_data(sock, data)         called synchronously in the sending thread with the bytes sent
    sock.deliver(data, delay=0)      peer -> client bytes, readable at virtual time now + delay
    sock.peer_close(delay=0)         peer closes: client's recv returns b'' once everything before it is read
Every send / recv is a scheduling point; a recv with nothing readable is disabled until data is ready or its time-out
(the socket's timeout) expires in virtual time.
"""
import select as _select
import socket as _socket

from vf.engines import schedx


class Refused(Exception):
    pass


class FakeStreamSock:
    def __init__(self, net, label, peer, timeout=None):
        self.net, self.label, self.peer = net, label, peer
        self.timeout = timeout
        self.inbox = []          # [ready_at, bytes | None(EOF)]
        self.closed = False
        self.shut = False
        self.sent = []
        self.peer_gone_at = None        # virtual time at which the peer's close takes effect
        self.sent_after_peer_close = 0

    # --- peer side
    def deliver(self, data, delay=0.0):
        """the peer sends `data` at virtual time now + delay (data sent later arrives later; equal times keep call order)"""
        self._insert(delay, bytes(data))

    def peer_close(self, delay=0.0):
        s = schedx._sched
        now = s.now if s else schedx.vtime()
        if self.peer_gone_at is None or now + delay < self.peer_gone_at:
            self.peer_gone_at = now + delay
        self._insert(delay, None)

    def _insert(self, delay, item):
        s = schedx._sched
        now = s.now if s else schedx.vtime()
        ready = now + delay
        k = len(self.inbox)
        while k > 0 and self.inbox[k - 1][0] > ready:
            k -= 1
        self.inbox.insert(k, [ready, item])

    # --- client side (socket API)
    def settimeout(self, t):
        self.timeout = t

    def gettimeout(self):
        return self.timeout

    def fileno(self):
        return 1000 + int(''.join(c for c in self.label if c.isdigit()) or 0)

    def _readable(self):
        s = schedx._sched
        now = s.now if s else schedx.vtime()
        return bool(self.inbox) and self.inbox[0][0] <= now

    def readable_now(self):
        return self.closed or self.shut or self._readable()

    def sendall(self, data):
        s = schedx.active()
        if s is not None:
            s.point('send', self.label)
        if self.closed:
            raise OSError(9, 'Bad file descriptor')
        if self.shut:
            raise BrokenPipeError(32, 'Broken pipe')
        data = bytes(data)
        now = s.now if s is not None else schedx.vtime()
        if self.peer_gone_at is not None and now >= self.peer_gone_at:
            # as TCP does: the first send after the peer has closed is accepted (and answered with a reset nobody sees yet),
            # from the second one on the socket reports the broken pipe; the peer gets none of it
            self.sent_after_peer_close += 1
            self.net.log.append(('tx-after-peer-close', self.label, data))
            if self.sent_after_peer_close > 1:
                raise BrokenPipeError(32, 'Broken pipe')
            return
        self.sent.append(data)
        self.net.log.append(('tx', self.label, data))
        self.peer.on_data(self, data)

    send = sendall

    def recv(self, n):
        s = schedx.active()
        if self.closed:
            raise OSError(9, 'Bad file descriptor')
        if s is None:
            if self.shut:
                return b''
            if self._readable():
                return self._take(n)
            raise _socket.timeout('timed out')
        deadline = None if self.timeout is None else s.now + self.timeout
        while True:
            nxt = self.inbox[0][0] if self.inbox else None
            dl = deadline if nxt is None else (nxt if deadline is None else min(nxt, deadline))
            s.point('recv', self.label, lambda: self.closed or self.shut or self._readable(), dl)
            if self.closed:
                raise OSError(9, 'Bad file descriptor')
            if self.shut:
                return b''
            if self._readable():
                return self._take(n)
            if deadline is not None and s.now >= deadline:
                raise _socket.timeout('timed out')

    def _take(self, n):
        ready, data = self.inbox[0]
        if data is None:
            return b''          # EOF stays at the head
        # like TCP: everything that has arrived is handed over at once (up to n bytes)
        s = schedx._sched
        now = s.now if s else schedx.vtime()
        self.inbox.pop(0)
        while self.inbox and self.inbox[0][0] <= now and self.inbox[0][1] is not None:
            data += self.inbox.pop(0)[1]
        if len(data) > n:
            self.inbox.insert(0, [ready, data[n:]])
            data = data[:n]
        self.net.log.append(('rx', self.label, data))
        return data

    def shutdown(self, how):
        if self.closed:
            raise OSError(9, 'Bad file descriptor')
        self.shut = True
        if hasattr(self.peer, 'on_close'):
            self.peer.on_close(self)

    def close(self):
        if not self.closed:
            self.closed = True
            self.net.log.append(('close', self.label))
            if hasattr(self.peer, 'on_close') and not self.shut:
                self.peer.on_close(self)


class Net:
    def __init__(self):
        self.listeners = {}
        self.log = []
        self.nsock = 0
        self.socks = []

    def listen(self, host, port, peer_factory):
        self.listeners[(host, port)] = peer_factory

    def create_connection(self, address, timeout=None, source_address=None):
        s = schedx.active()
        if s is not None:
            s.point('connect', f'{address[0]}:{address[1]}')
        factory = self.listeners.get(tuple(address))
        if factory is None:
            self.log.append(('connect-refused', tuple(address)))
            raise ConnectionRefusedError(111, 'Connection refused')
        self.nsock += 1
        label = f's{self.nsock}'
        peer = factory()
        sock = FakeStreamSock(self, label, peer, timeout)
        try:
            peer.on_connect(sock)
        except Refused:
            self.log.append(('connect-refused', tuple(address)))
            raise ConnectionRefusedError(111, 'Connection refused') from None
        self.log.append(('connect', label, tuple(address)))
        self.socks.append(sock)
        return sock

    def select(self, rlist, wlist, xlist, timeout=None):
        s = schedx.active()
        if s is not None and timeout:
            deadline = s.now + timeout
            s.point('select', '', lambda: any(getattr(r, 'readable_now', lambda: False)() for r in rlist), deadline)
        return [r for r in rlist if getattr(r, 'readable_now', lambda: False)()], list(wlist), []


_current_net = [None]


def net():
    return _current_net[0]


def set_net(n):
    _current_net[0] = n


def _create_connection(address, timeout=None, source_address=None):
    return _current_net[0].create_connection(address, timeout, source_address)


def _select_fn(rlist, wlist, xlist, timeout=None):
    return _current_net[0].select(rlist, wlist, xlist, timeout)


socket_shim = schedx._Shim(_socket, create_connection=_create_connection)
select_shim = schedx._Shim(_select, select=_select_fn)


_scanned = set()


def install(force=False):
    """rebind socket / select (and threading / time / queue) inside the frappy modules; re-scans when frappy modules
    were imported since the last call"""
    import sys
    names = {m for m in sys.modules if m == 'frappy' or m.startswith('frappy.')}
    if not force and names <= _scanned:
        return 0
    _scanned.update(names)
    return schedx.install(extra={_socket: socket_shim, _select: select_shim})


# ---------------------------------------------------------------------------------------------
# a real server on the other end: the accepted side of an in-memory connection, handed to a request handler thread

class ServerSideSock:
    """the server's end of an in-memory stream connection (for the real TCPRequestHandler)"""
    def __init__(self, client_sock, label):
        self.client = client_sock
        self.label = label
        self.inbox = []
        self.timeout = None
        self.closed = False
        self.peer_closed = False

    def settimeout(self, t):
        self.timeout = t

    def recv(self, n):
        s = schedx.active()
        if self.closed:
            raise OSError(9, 'Bad file descriptor')
        if s is None:
            if self.inbox:
                return self.inbox.pop(0)
            if self.peer_closed:
                return b''
            raise _socket.timeout('timed out')
        deadline = None if self.timeout is None else s.now + self.timeout
        s.point('recv', self.label, lambda: bool(self.inbox) or self.peer_closed or self.closed, deadline)
        if self.closed:
            raise OSError(9, 'Bad file descriptor')
        if self.inbox:
            data = self.inbox.pop(0)
            if len(data) > n:
                self.inbox.insert(0, data[n:])
                data = data[:n]
            return data
        if self.peer_closed:
            return b''
        raise _socket.timeout('timed out')

    def sendall(self, data):
        s = schedx.active()
        if s is not None:
            s.point('send', self.label)
        if self.closed or self.peer_closed:
            raise BrokenPipeError(32, 'Broken pipe')
        self.client.deliver(bytes(data))

    def shutdown(self, how):
        pass

    def close(self):
        if not self.closed:
            self.closed = True
            self.client.peer_close()


class ServerPeer:
    """peer object for Net.listen: every accepted connection is served by `serve(server_side_sock)` in a new
    controlled thread (e.g. the real TCPRequestHandler)"""
    def __init__(self, serve, name='server'):
        self.serve = serve
        self.name = name
        self.ssock = None

    def on_connect(self, sock):
        self.ssock = ServerSideSock(sock, 'S' + sock.label[1:])
        t = schedx.Thread(target=lambda: self.serve(self.ssock), name=f'{self.name}-{sock.label}', daemon=True)
        t.start()

    def on_data(self, sock, data):
        self.ssock.inbox.append(bytes(data))

    def on_close(self, sock):
        self.ssock.peer_closed = True
