"""In-process SEC node built from the real frappy classes (SecNode, Dispatcher, Module machinery,
TCPRequestHandler); only the socket, the loggers and get_version are replaced.

    node = Node({'m': {'cls': SomeModuleClass, 'description': 'x', ...}}, start=False)
    conn = node.connect()                    # a fake connection known to the dispatcher (records send_reply)
    reply = node.request(conn, 'change m:target 3')    # through Dispatcher.handle_request + the handler's error mapping
    lines = node.tcp([b'read m:value\\n'])  # through the real TCPRequestHandler on a fake socket -> list of reply lines
"""
import io
import json
import logging
import sys

import mlzlog

import frappy.secnode
import frappy.protocol.discovery
import frappy.protocol.dispatcher  # noqa: F401  (loaded lazily by get_class otherwise: it must exist before any rebinding scan)
from frappy.errors import SECoPError
from frappy.logging import init_remote_logging
from frappy.protocol.interface import decode_msg, encode_msg_frame
from frappy.protocol.interface.tcp import TCPRequestHandler
from frappy.protocol.messages import ERRORPREFIX, HELPREQUEST, HELPREPLY
from frappy.server import Server

VERSION = 'verif-0'
frappy.secnode.get_version = lambda: VERSION
frappy.protocol.discovery.get_version = lambda: VERSION


class ListHandler(logging.Handler):
    def __init__(self):
        super().__init__()
        self.records = []

    def emit(self, record):
        try:
            self.records.append((record.name, record.levelname, record.getMessage()))
        except Exception:
            self.records.append((record.name, record.levelname, str(record.msg)))


_counter = [0]


def make_logger(name='verif'):
    """a real mlzlog logger registered with the logging manager under a unique name, so that getChild /
    parent / propagate behave as in a running server; records are captured, nothing is printed"""
    _counter[0] += 1
    name = f'{name}{_counter[0]}'
    mlzlog.setLoggerClass(mlzlog.MLZLogger)
    log = logging.getLogger(name)
    log.setLevel(logging.DEBUG)
    log.handlers[:] = []
    log.propagate = False
    h = ListHandler()
    log.addHandler(h)
    init_remote_logging(log)
    return log, h


def drop_logger(log):
    """forget a logger tree (the logging manager keeps every logger forever otherwise)"""
    d = logging.Logger.manager.loggerDict
    prefix = log.name + '.'
    for k in [k for k in d if k == log.name or k.startswith(prefix)]:
        del d[k]


class FakeConn:
    """a connection as the dispatcher sees it: hashable by index (stable set iteration), records messages"""
    def __init__(self, idx):
        self.idx = idx
        self.msgs = []

    def send_reply(self, msg):
        # encode exactly as the TCP interface does, so that unserialisable payloads show up
        self.msgs.append(msg)

    def __hash__(self):
        return self.idx

    def __eq__(self, other):
        return self is other

    def __repr__(self):
        return f'conn{self.idx}'

    def lines(self):
        return [encode_msg_frame(*m) for m in self.msgs]

    def take(self):
        res, self.msgs = self.msgs, []
        return res


class FakeSock:
    """socket object for TCPRequestHandler: scripted recv chunks, records sendall"""
    def __init__(self, chunks):
        self.chunks = list(chunks)
        self.out = []
        self.closed = False

    def settimeout(self, t):
        pass

    def recv(self, n):
        if not self.chunks:
            return b''      # EOF -> ConnectionClose
        c = self.chunks.pop(0)
        if c is None:
            import socket
            raise socket.timeout()
        return c

    def sendall(self, data):
        self.out.append(bytes(data))

    def shutdown(self, how):
        pass

    def close(self):
        self.closed = True


class InterfaceStub:
    """what TCPRequestHandler needs from its server object"""
    def __init__(self, node, detailed_errors=False):
        self.dispatcher = node.dispatcher
        self.log = node.log.getChild('tcp')
        self.detailed_errors = detailed_errors


class StartupRefused(Exception):
    """the node refused to start (SystemExit from Server._processCfg)"""
    def __init__(self, errors, stderr):
        super().__init__('\n'.join(errors))
        self.errors = errors
        self.stderr = stderr


class Node(Server):
    def __init__(self, module_cfg, node_cfg=None, start=False, name='vnode'):  # pylint: disable=super-init-not-called
        self.log, self.loghandler = make_logger(name)
        self.name = name
        self.node_cfg = dict({'cls': 'frappy.protocol.dispatcher.Dispatcher', 'description': 'verification node',
                              'equipment_id': 'verif_node'}, **(node_cfg or {}))
        self.module_cfg = {k: dict(v) for k, v in module_cfg.items()}
        for modname, cfg in self.module_cfg.items():
            cfg.setdefault('description', modname)
        self._testonly = not start
        self._cfgfiles = 'verif'
        self.interfaces = {}
        self._restart = False
        self.discovery = None
        self._nconn = 0
        stderr = sys.stderr
        sys.stderr = buf = io.StringIO()
        try:
            self._processCfg()
        except SystemExit:
            err = StartupRefused(list(self.secnode.errors), buf.getvalue())
            err.logged = [r for r in self.loghandler.records if r[1] in ('ERROR', 'CRITICAL')]
            drop_logger(self.log)
            raise err from None
        except BaseException:
            drop_logger(self.log)       # nobody gets the object to close(): the logging manager would keep the tree for ever
            raise
        finally:
            sys.stderr = stderr

    # --- connections on dispatcher level
    def connect(self):
        self._nconn += 1
        conn = FakeConn(self._nconn)
        self.dispatcher.add_connection(conn)
        return conn

    def disconnect(self, conn):
        self.dispatcher.remove_connection(conn)

    def request(self, conn, line):
        """one request line through decode_msg + Dispatcher.handle_request with the handler's error mapping
        (a faithful, socket-free copy of RequestHandler.handle's inner block); returns the reply triple"""
        if isinstance(line, str):
            line = line.encode('utf-8')
        msg = decode_msg(line)
        return self.request_msg(conn, msg)

    def request_msg(self, conn, msg):
        try:
            return self.dispatcher.handle_request(conn, msg)
        except SECoPError as err:
            return (ERRORPREFIX + msg[0], msg[1], [err.name, str(err), {}])
        except Exception as err:   # noqa  what the handler reports as InternalError
            return (ERRORPREFIX + msg[0], msg[1], ['InternalError', repr(err), {}])

    # --- the real TCP handler
    def tcp(self, chunks, detailed_errors=False):
        """feed byte chunks through the real TCPRequestHandler (it runs in its constructor); returns (out bytes, handler)"""
        sock = FakeSock(chunks)
        stdout = sys.stdout
        sys.stdout = io.StringIO()
        try:
            handler = TCPRequestHandler(sock, ('127.0.0.1', 12345), InterfaceStub(self, detailed_errors))
        finally:
            sys.stdout = stdout
        return b''.join(sock.out), handler

    def close(self):
        drop_logger(self.log)

    def describe(self):
        return self.dispatcher.handle_request(None, ('describe', '.', None))[2]

    def errors_logged(self):
        return [r for r in self.loghandler.records if r[1] in ('ERROR', 'CRITICAL')]


def strict_loads(text):
    """json.loads refusing NaN / Infinity tokens"""
    def bad(c):
        raise ValueError(f'non-standard JSON constant {c}')
    return json.loads(text, parse_constant=bad)


def split_line(line):
    """reply line (bytes, without EOL) -> (action, specifier, data) with strict JSON; raises ValueError"""
    text = line.decode('utf-8')
    parts = text.split(' ', 2)
    action = parts[0]
    spec = parts[1] if len(parts) > 1 else ''
    data = strict_loads(parts[2]) if len(parts) > 2 and parts[2] != '' else None
    return action, spec, data
