"""Shared machinery for the concurrent node harnesses (C05 concurrent part, C07 concurrent part, C08):
a real node (SecNode + Dispatcher + modules + TCPRequestHandler) whose threads run under schedx.

Importing this module rebinds threading/time/queue inside the frappy modules of THIS process to the cooperative
primitives (schedx.install) - it is imported by worker processes of the concurrent sub-checks only.
"""
import json

from vf import nodes
from vf.engines import schedx

from frappy.core import Readable, Parameter, Command, FloatRange, IntRange, StringType   # noqa: E402
from frappy.errors import HardwareError, CommunicationFailedError                # noqa: E402
from frappy.protocol.interface.tcp import TCPRequestHandler                      # noqa: E402
import frappy.protocol.dispatcher as _dispatcher                                 # noqa: E402
import frappy.modulebase as _modulebase                                          # noqa: E402
import frappy.protocol.interface.handler as _handler                             # noqa: E402

schedx.install()


class M(Readable):
    """module under test: predefined parameter 'value', custom parameters x (wire name _x) and s"""
    value = Parameter('main value', FloatRange(), default=0.0)
    x = Parameter('custom int', IntRange(0, 1000), default=0, readonly=False)
    s = Parameter('custom string', StringType(), default='')
    hidden = Parameter('unexported', IntRange(), default=0, export=False)

    script = None     # dict pname -> list of values / exceptions returned by read_<pname>
    tickets = 0

    @Command(result=IntRange())
    def take(self):
        """hand out the next ticket: a read-modify-write on driver state with a hardware access in between - atomic only
        because requests are handled one at a time"""
        n = self.tickets
        s = schedx.active()
        if s is not None:
            s.point('yield', 'hardware')
        self.tickets = n + 1
        return n + 1

    def read_value(self):
        return self._next('value')

    def read_x(self):
        return self._next('x')

    def write_x(self, value):
        return value

    def _next(self, pname):
        item = self.script[pname].pop(0)
        if isinstance(item, Exception):
            raise item
        return item


class MP(M):
    """M plus a parameter whose wire name has another one's as a string prefix (_x / _x2)"""
    x2 = Parameter('custom int 2', IntRange(0, 1000), default=0, readonly=False)


class CoopSock:
    """socket object handed to the real TCPRequestHandler: scripted request chunks, every recv / send is a scheduling
    point; the bytes sent are appended to the shared event log in the order they really happen"""
    def __init__(self, sched, label, chunks, split_send=False, eof_when=None):
        self.sched, self.label = sched, label
        self.eof_when = eof_when      # optional predicate: the peer closes only when it holds
        self.chunks = list(chunks)
        self.split_send = split_send
        self.out = []
        self.nreq = 0
        self.closed = False

    def settimeout(self, t):
        pass

    def recv(self, n):
        self.sched.point('recv', self.label)
        if not self.chunks:
            if self.eof_when is not None:
                self.sched.point('recv-eof', self.label, self.eof_when)
            self.sched.log.append(('eof', self.label))
            return b''
        c = self.chunks.pop(0)
        self.sched.log.append(('req', self.label, self.nreq, c))
        self.nreq += 1
        return c

    def sendall(self, data):
        data = bytes(data)
        self.sched.log.append(('intend', self.label, data))      # the whole frame as handed over by the sender
        if self.closed:
            # what a closed socket does; the attempt is logged (the oracle looks at attempts made for changes that
            # happened after the disconnect), nothing is delivered
            self.sched.log.append(('send-closed', self.label, data))
            raise OSError(9, 'Bad file descriptor')
        if self.split_send and len(data) > 1:
            h = len(data) // 2
            self.sched.point('send', self.label)
            self.out.append(data[:h])
            self.sched.log.append(('send', self.label, data[:h]))
            self.sched.point('send2', self.label)
            self.out.append(data[h:])
            self.sched.log.append(('send', self.label, data[h:]))
            return
        self.sched.point('send', self.label)
        if self.closed:
            self.sched.log.append(('send-closed', self.label, data))
            raise OSError(9, 'Bad file descriptor')
        self.out.append(data)
        self.sched.log.append(('send', self.label, data))

    def shutdown(self, how):
        pass

    def close(self):
        self.closed = True
        self.sched.log.append(('closed', self.label))


class ObserverConn:
    def __init__(self, sched, label):
        self.sched, self.label = sched, label
        self.lines = []

    def send_reply(self, msg):
        from frappy.protocol.interface import encode_msg_frame
        self.sched.point('send', self.label)
        line = encode_msg_frame(*msg)
        self.lines.append(line)
        self.sched.log.append(('send', self.label, line))

    def __hash__(self):
        return int(self.label[1:])

    def __eq__(self, other):
        return self is other


def cache_key(value_err, pobj):
    """what an update message for this cache state carries (without qualifiers)"""
    if len(value_err) == 2 and value_err[1] is not None:
        err = value_err[1]
        return ('e', getattr(err, 'name', type(err).__name__), str(err))
    return ('v', json.dumps(pobj.datatype.export_value(value_err[0])))


def msg_key(line):
    """(kind, module:param, key) of an update / error_update line, else None"""
    try:
        action, spec, data = nodes.split_line(line.rstrip(b'\n'))
    except Exception:
        return ('garbled', '', repr(line))
    if action == 'update':
        return ('update', spec, ('v', json.dumps(data[0])))
    if action == 'error_update':
        return ('update', spec, ('e', data[0], data[1]))
    return (action, spec, None)


def build_node(sched, script, modules=('m',), omit=None, classes=None):
    """real node with recording cache-change callbacks; returns node"""
    cfg = {}
    for name in modules:
        cfg[name] = {'cls': (classes or {}).get(name, M)}
        if omit is not None:
            cfg[name]['omit_unchanged_within'] = omit
    node = nodes.Node(cfg)
    for name in modules:
        mod = node.secnode.modules[name]
        mod.script = {k: list(v) for k, v in script.get(name, {}).items()}
        for pname, pobj in mod.parameters.items():
            if pobj.export:
                def cb(*value_err, _m=name, _p=pobj):
                    sched.log.append(('cache', f'{_m}:{_p.export}', cache_key(value_err, _p)))
                mod.addCallback(pname, cb)
        # mark the end of every notification (the broadcast to the listeners has returned)
        orig = mod.updateCallback

        def announce(moduleobj, pobj, _orig=orig):
            try:
                _orig(moduleobj, pobj)
            finally:
                sched.log.append(('bcast-done', f'{moduleobj.name}:{pobj.export}'))
        mod.updateCallback = announce
    return node


class _Handler(TCPRequestHandler):
    """the real handler; only the hash is fixed (connections live in sets whose iteration order - the order in which
    a broadcast reaches the listeners - would otherwise depend on memory addresses and differ between replays)"""
    def __hash__(self):
        return int(self.request.label[1:])

    def __eq__(self, other):
        return self is other


def run_handler(node, sock):
    """body of a connection thread: the real TCPRequestHandler (runs in its constructor)"""
    def body():
        _Handler(sock, ('127.0.0.1', 1000 + int(sock.label[1:])), nodes.InterfaceStub(node))
    return body


def current_cache(node):
    res = {}
    for mname, mod in node.secnode.modules.items():
        for pobj in mod.parameters.values():
            if pobj.export:
                if pobj.readerror:
                    res[f'{mname}:{pobj.export}'] = ('e', pobj.readerror.name, str(pobj.readerror))
                else:
                    res[f'{mname}:{pobj.export}'] = ('v', json.dumps(pobj.export_value()))
    return res


DRIVER_OPS = {
    # name -> function(node) performing one cache-changing driver action
}


def driver_op(node, op):
    """op = [kind, module, pname, arg]"""
    kind, mname, pname, arg = op
    mod = node.secnode.modules[mname]
    if kind == 'assign':
        setattr(mod, pname, arg)
    elif kind == 'read':
        try:
            getattr(mod, 'read_' + pname)()
        except Exception:
            pass
    elif kind == 'write':
        getattr(mod, 'write_' + pname)(arg)
    elif kind == 'error':
        mod.announceUpdate(pname, err=HardwareError(arg))
    else:
        raise ValueError(kind)


LINE_FUNCS = {}


def all_dispatcher_functions():
    """every function defined in frappy.protocol.dispatcher (methods and module level) + the update funnel: helper
    methods that a change introduces are scheduling-point sources too"""
    import inspect
    funcs = [f for _n, f in inspect.getmembers(_dispatcher.Dispatcher, inspect.isfunction)
             if f.__code__.co_filename == _dispatcher.__file__]
    funcs += [f for _n, f in inspect.getmembers(_dispatcher, inspect.isfunction) if f.__code__.co_filename == _dispatcher.__file__]
    return funcs + [_modulebase.Module.announceUpdate]


def line_functions(level):
    """the mechanism functions whose every source line becomes a scheduling point at granularity 'line'"""
    D = _dispatcher.Dispatcher
    funcs = [D.handle_activate, D.handle_deactivate, D.reset_connection, D.remove_connection, D.broadcast_event,
             D.subscribe, D.unsubscribe, _dispatcher.make_update, _modulebase.Module.announceUpdate]
    if level >= 2:
        funcs += [D.handle_request, D.handle__ident, TCPRequestHandler.send_reply, _handler.RequestHandler.handle,
                  _handler.RequestHandler.finish]
    return funcs
