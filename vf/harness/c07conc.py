"""C07 concurrent part - asynchronous messages never split another line.

schedx: the real TCPRequestHandler answers a request script on a fake socket whose `sendall` hands the bytes over in two
steps (so that an unlocked sender would interleave bytes), while a driver thread changes parameters - the updates are
broadcast to the same (activated) connection - and a second connection issues a request of its own.  All schedules
with <= bound preemptions at every lock operation, recv and (half-)send.

Oracle: the byte stream received by the connection, cut at newlines, is exactly the multiset of whole frames that the node
handed to the socket (no frame split by another, nothing lost, nothing duplicated), every line is valid UTF-8 with a
strict-JSON data part, and the replies (non-event lines) are one per request line, in request order.
"""
from vf import core

SCRIPTS = {
    'activate-ping-read': ['activate', 'ping a', 'read m:value', 'ping b'],
    'change-read': ['activate m', 'change m:_x 5', 'read m:_x'],
    'garbage-between': ['activate', 'frob x', '\xff\xfe', 'ping c'],
}
# a second scripted connection: its requests must not change the answers given to the first one's lines
SCRIPTS2 = {
    'tickets': (['do m:_take', 'ping a', 'do m:_take'], ['do m:_take', 'do m:_take']),
    'ticket-vs-change': (['do m:_take', 'read m:_x'], ['change m:_x 5', 'do m:_take']),
}
OPS = [['assign', 'm', 'value', 1.5], ['assign', 'm', 'x', 7], ['assign', 'm', 'value', 2.5]]
READS = {'m': {'x': [11, 12], 'value': [9.5, 8.5]}}


def cases(tier):
    res = []
    for name, script in SCRIPTS.items():
        res.append({'kind': 'conc', 'name': name, 'script': script, 'bound': 2 if tier == 'quick' else 3})
    for name, (s1, s2) in SCRIPTS2.items():
        res.append({'kind': 'conc', 'name': 'two:' + name, 'script': s1, 'script2': s2, 'nodriver': True, 'bound': 2 if tier == 'quick' else 3})
    return res


def execute(case, prefix):
    from vf.engines import schedx
    from vf.harness import nodeconc as N
    kinds = {'acquire', 'tryacquire', 'release', 'recv', 'send', 'send2', 'spawn', 'join', 'set', 'clear', 'wait', 'put', 'get',
             'poll', 'sleep', 'yield'}
    sched = schedx.Scheduler(prefix, point_kinds=kinds, max_steps=6000)
    holder = {}

    def body():
        node = N.build_node(sched, READS)
        holder['node'] = node
        done = []
        sock = N.CoopSock(sched, 'c1', [l.encode('latin-1') + b'\n' for l in case['script']], split_send=True,
                          eof_when=lambda: bool(done))       # the peer stays connected until the driver is through
        holder['sock'] = sock
        sched.begin()
        t1 = schedx.Thread(target=N.run_handler(node, sock), name='handler')
        ops = [] if case.get('nodriver') else OPS
        ts = [t1, schedx.Thread(target=lambda: [N.driver_op(node, op) for op in ops] + [done.append(1)], name='driver')]
        if case.get('script2'):
            sock2 = N.CoopSock(sched, 'c2', [l.encode('latin-1') + b'\n' for l in case['script2']], split_send=True,
                               eof_when=lambda: bool(done))
            holder['sock2'] = sock2
            ts.append(schedx.Thread(target=N.run_handler(node, sock2), name='handler2'))
        for t in ts:
            t.start()
        for t in ts:
            t.join()
    x = sched.run(body)
    viol = judge(case, sched, x, holder)
    if holder.get('node') is not None:
        holder['node'].close()
    return x, viol, sched


def judge(case, sched, x, holder):
    from vf import nodes
    if x.deadlock:
        return [('conc:deadlock', x.deadlock)]
    if x.livelock:
        return [('conc:livelock', x.livelock)]
    for t in x.threads:
        if t.exc is not None:
            return [(f'conc:thread-died:{type(t.exc).__name__}', f'{t.name}: {t.exc!r}')]
    viol = []
    sock = holder['sock']
    stream = b''.join(sock.out)
    intended = [e[2] for e in sched.log if e[0] == 'intend' and e[1] == 'c1']
    got = stream.split(b'\n')
    if got[-1] != b'':
        viol.append(('conc:stream-ends-inside-a-line', f'stream ends with {got[-1][-40:]!r}'))
    got = [g + b'\n' for g in got[:-1]]
    if sorted(got) != sorted(intended):
        broken = [g for g in got if g not in intended][:3]
        viol.append(('conc:frames-interleaved', f'lines received {broken} are not among the frames handed to the socket '
                                                f'({len(got)} lines, {len(intended)} frames)'))
    replies = []
    for g in got:
        try:
            action, _spec, _data = nodes.split_line(g.rstrip(b'\n'))
        except Exception as e:      # noqa
            viol.append(('conc:line-not-wellformed', f'{g[:60]!r}: {e!r}'))
            continue
        if action not in ('update', 'error_update'):
            replies.append(action)
    if len(replies) != len(case['script']):
        viol.append(('conc:reply-count', f'{len(case["script"])} request lines, replies {replies}'))
    if holder.get('sock2') is not None:
        # the tickets handed out over both connections are all different: no request saw the other one's half-done work
        tickets = []
        for sk, script in ((sock, case['script']), (holder['sock2'], case['script2'])):
            lines = [g for g in b''.join(sk.out).split(b'\n') if g]
            done_lines = [nodes.split_line(g) for g in lines]
            tk = [d[2][0] for d in done_lines if d[0] == 'done' and d[1] == 'm:_take']
            want = sum(1 for l in script if l == 'do m:_take')
            if len(tk) != want:
                viol.append(('conc:two-connections:command-replies-missing', f'{sk.label}: {want} take commands, replies {lines}'))
            tickets += tk
        if len(set(tickets)) != len(tickets):
            viol.append(('conc:two-connections:requests-not-handled-one-at-a-time',
                         f'tickets handed out {tickets}: two requests of different connections overlapped inside the command'))
    return viol


def root_fn(case):
    from vf.engines import schedx
    schedx.untrace_all()
    x1, _v, s1 = execute(case, [])
    x2, _v, s2 = execute(case, [])
    if x1.trace != x2.trace or s1.log != s2.log:
        raise core.Inconclusive(f'C07 concurrent case {case["name"]}: the default schedule is not deterministic')
    part = core.Part()
    part.data.append([case['name'], schedx.first_level(x1, case['bound'], 0)])
    part.extra['points_in_default_schedule'] += len(x1.points)
    return part


def sub_fn(shard):
    from vf.engines import schedx
    case, prefix = shard
    part = core.Part()
    schedx.untrace_all()

    def ex(pfx):
        x, viol, sched = execute(case, pfx)
        part.evaluations += 1
        part.traces += 1
        part.transitions += x.steps
        part.fps |= x.fingerprints
        part.outcomes[hash(tuple(e[2] for e in sched.log if e[0] == 'send'))] += 1
        if x.preemptions:
            part.nontrivial += 1
        for sig, detail in viol:
            part.violation(f'C07:{sig}', dict(case, prefix=list(x.choices)), f'case {case["name"]} schedule {x.choices}: {detail}')
        if part.evaluations % 499 == 1:
            part.sample({'case': case['name'], 'schedule': list(x.choices)})
        return x
    if prefix is None:
        ex([])
    else:
        schedx.explore(ex, case['bound'], prefix=prefix)
    part.extra['schedules'] += part.evaluations
    return part


def run_conc(ctx):
    """called by c07.run"""
    cs = cases(ctx.tier)
    roots = ctx.pmap(root_fn, cs, name='conc_determinism')
    byname = {c['name']: c for c in cs}
    shards = []
    for name, prefixes in roots.data:
        shards.append((byname[name], None))
        shards += [(byname[name], p) for p in prefixes]
    ctx.total.data.clear()
    ctx.pmap(sub_fn, shards, name='concurrent_schedules')
    ctx.coverage.update(concurrent_cases={c['name']: c['bound'] for c in cs})
    # a send that accepts half a frame and fails, at every send of every script
    ctx.pmap(fault_fn, [(n, k) for n in FAULT_SCRIPTS for k in FAULT_KINDS], name='send_faults')


def replay_conc(case):
    if 'fault' in case:
        name, kind, _at, _partial = case['fault']
        return fault_fn((name, kind))
    part = core.Part()
    x, viol, sched = execute(case, case['prefix'])
    for sig, detail in viol:
        part.violation(f'C07:{sig}', case, detail)
    part.evaluations = 1
    return part


# ---------------------------------------------------------------------------------------------
# send faults: the socket accepts only part of a frame and then fails (peer not reading: time-out; peer gone: broken pipe)

FAULT_SCRIPTS = {
    'pings': ['ping a', 'ping bb', 'ping ccc', 'ping dddd'],
    'activate-change': ['activate', 'change m:_x 5', 'ping z', 'read m:value'],
    'describe-ping': ['describe', 'ping q', 'ping r'],
}
FAULT_KINDS = ['timeout', 'brokenpipe', 'oserror']


class FaultSock:
    def __init__(self, chunks, fail_at, kind, partial):
        self.chunks = list(chunks)
        self.fail_at, self.kind, self.partial = fail_at, kind, partial
        self.out = []
        self.nsend = 0
        self.torn_at = None
        self.closed = False

    def settimeout(self, t):
        pass

    def recv(self, n):
        if not self.chunks:
            return b''
        return self.chunks.pop(0)

    def sendall(self, data):
        import socket
        data = bytes(data)
        k = self.nsend
        self.nsend += 1
        if k == self.fail_at:
            if self.partial:
                self.out.append(data[:max(1, len(data) // 2)])
                self.torn_at = len(self.out)
            if self.kind == 'timeout':
                raise socket.timeout('timed out')
            if self.kind == 'brokenpipe':
                raise BrokenPipeError(32, 'Broken pipe')
            raise OSError(5, 'Input/output error')
        self.out.append(data)

    def shutdown(self, how):
        pass

    def close(self):
        self.closed = True


def fault_fn(shard):
    import io
    import sys
    from vf import nodes
    from vf.harness import nodeconc as N
    from frappy.protocol.interface.tcp import TCPRequestHandler
    name, kind = shard
    script = FAULT_SCRIPTS[name]
    part = core.Part()
    node = N.build_node(_NoSched(), READS)
    try:
        # number of sends of the fault-free run
        sock = FaultSock([(l + '\n').encode() for l in script], -1, kind, False)
        _run_handler(node, sock)
        nsends = sock.nsend
        for fail_at in range(nsends):
            for partial in (True, False):
                sock = FaultSock([(l + '\n').encode() for l in script], fail_at, kind, partial)
                _run_handler(node, sock)
                part.evaluations += 1
                part.traces += 1
                part.transitions += sock.nsend
                part.states += 1
                part.nontrivial += 1
                stream = b''.join(sock.out)
                lines = stream.split(b'\n')
                tail = lines[-1]
                complete = lines[:-1]
                bad = []
                for l in complete:
                    try:
                        nodes.split_line(l)
                    except Exception as e:      # noqa
                        bad.append((l[:60], repr(e)))
                after_torn = sock.torn_at is not None and len(sock.out) > sock.torn_at
                outcome = 'torn-then-silent' if sock.torn_at is not None and not after_torn else \
                    ('refused-then-continues' if sock.torn_at is None and sock.nsend > fail_at + 1 else 'stopped')
                part.outcomes[f'{kind}:{outcome}'] += 1
                case = {'kind': 'conc', 'fault': [name, kind, fail_at, partial]}
                if after_torn:
                    part.violation(f'C07:send-fault:{kind}:data-sent-after-a-torn-line', case,
                                   f'script {script}: send #{fail_at} accepted half a frame and failed with {kind}; the handler went on sending: '
                                   f'{[o[:40] for o in sock.out[sock.torn_at - 1:sock.torn_at + 2]]}')
                elif bad:
                    part.violation(f'C07:send-fault:{kind}:malformed-line-emitted', case, f'script {script}: {bad[:2]}')
                if part.evaluations % 17 == 1:
                    part.sample({'script': name, 'fault': kind, 'at_send': fail_at, 'partial': partial, 'outcome': outcome})
    finally:
        node.close()
    return part


class _NoSched:
    """build_node only needs a log list"""
    def __init__(self):
        self.log = []


def _run_handler(node, sock):
    import io
    import sys
    from vf import nodes
    from frappy.protocol.interface.tcp import TCPRequestHandler
    stdout = sys.stdout
    sys.stdout = io.StringIO()
    try:
        TCPRequestHandler(sock, ('127.0.0.1', 1), nodes.InterfaceStub(node))
    finally:
        sys.stdout = stdout
