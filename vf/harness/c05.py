"""C05 - the update stream always reconstructs the node's parameter cache.

Two sub-checks on a real node (SecNode + Dispatcher + module update funnel), an activated connection logging messages
and a parameter callback (it runs inside the funnel) logging every cache change:

sequential (enumx, explicit-state BFS): histories over {read ok(v1|v2), read returning an invalid value, read raising
  SECoP error E1 | E2 | a plain exception, write(v1|v2), assignment of v1 | v2 | an invalid value, explicit error
  announcement, clock steps 0.05 / 1 / 20 s} on one parameter at a time (float / int with write method / enum / string),
  under omit_unchanged_within in {default, 0, 10} and update_unchanged in {default, always, never, 5}; de-duplicated on
  the canonical state (cached value - also the one stored underneath an error -, error identity, age of the time stamp capped beyond the omit window, last message).
concurrent (schedx): 2-3 threads x 1-2 operations on the SAME parameter (forced collision) and one on another, all
  schedules with <= bound preemptions; scheduling points at every lock operation and at every send to the observer,
  and (line level) at every source line of Module.announceUpdate and the read / write wrappers.

Oracle (both): per exported parameter the sequence of update / error_update messages equals the sequence of cache
changes (order, nothing extra, nothing lost, no state the cache never held) and the last message equals the value-or-
error now cached; after an operation that successfully delivered value v the cache holds v without error and - if the
cache held an error before - a message carrying v was sent (recovery is always announced, also for an equal value).
Oracle calibration: cache and stream are compared on export_value / (error class, text); equal-valued updates
suppressed inside the omit window leave the cache untouched and are correctly absent; whether a *different* error
replaces a cached error is not demanded by the statement (only stream == cache is).
"""
import json

from vf import core

PROPERTY = 'C05'

E1 = ('HardwareError', 'e1')
E2 = ('HardwareError', 'e2')
E3 = ('CommunicationFailedError', 'e3')
PARAMS = {
    # pname -> (v1, v2, invalid)
    'value': (1.5, 2.5, 'text'),
    'x': (5, 7, 2000),
    'e': (1, 2, 9),
    's': ('ab', 'cd', 17),
}
SETTINGS = [
    {'omit': None, 'uu': None},
    {'omit': 0, 'uu': None},
    {'omit': 10, 'uu': None},
    {'omit': None, 'uu': 'always'},
    {'omit': None, 'uu': 'never'},
    {'omit': None, 'uu': 5},
    {'omit': None, 'uu': None, 'cb': 'raises-on-error-update'},
    {'omit': 0, 'uu': 'always', 'cb': 'raises-always'},
]
TICKS = [0.05, 1.0, 20.0]


def alphabet(pname):
    ops = [['read', 'v1'], ['read', 'v2'], ['read', 'bad'], ['read', 'E1'], ['read', 'E2'], ['read', 'E3'], ['read', 'X'],
           ['assign', 'v1'], ['assign', 'v2'], ['assign', 'bad'], ['announce_err', 'E1']]
    if pname == 'x':
        ops += [['write', 'v1'], ['write', 'v2'], ['change', 'v1'], ['change', 'bad']]
    if pname == 'value':
        # a value differing from v1 in the last bits only: still a different value, the stream has to show it (wave 8, S05k)
        ops += [['read', 'v1n'], ['assign', 'v1n']]
    if pname == 'e':
        ops += [['assign', 'name1']]        # the member name instead of its value: an equal value
    ops += [['tick', t] for t in TICKS]
    return ops


_classes = {}


def module_class(uu):
    """module class with the given update_unchanged setting on all test parameters"""
    if uu in _classes:
        return _classes[uu]
    from frappy.core import Readable, Parameter, FloatRange, IntRange, StringType, EnumType
    kw = {} if uu is None else {'update_unchanged': uu}

    def make_read(pname):
        def read(self):
            item = self.script.pop(0)
            if isinstance(item, Exception):
                raise item
            return item
        read.__name__ = 'read_' + pname
        return read

    ns = {
        'value': Parameter('v', FloatRange(0, 10), default=0.0, **kw),
        'x': Parameter('x', IntRange(0, 1000), default=0, readonly=False, **kw),
        'e': Parameter('e', EnumType('e', a=1, b=2, c=3), default=3, **kw),
        's': Parameter('s', StringType(), default='', **kw),
        'script': None,
        'write_x': lambda self, value: value,
    }
    for pname in PARAMS:
        ns['read_' + pname] = make_read(pname)
    cls = type(f'M_{uu}', (Readable,), ns)
    _classes[uu] = cls
    return cls


def make_error(name):
    from frappy import errors
    if name == 'X':
        return ValueError('plain')
    cls, text = {'E1': E1, 'E2': E2, 'E3': E3}[name]
    return getattr(errors, cls)(text)


def _raising_callback(*args):
    raise RuntimeError('callback failure')


class SeqWorld:
    """fresh node + activated connection + cache-change log, driven by one history"""
    def __init__(self, pname, setting):
        from vf import nodes
        from vf.engines import schedx
        from vf.harness import nodeconc  # noqa: F401  (rebinds time inside frappy to the virtual clock)
        self.pname = pname
        cfg = {'cls': module_class(setting['uu'])}
        if setting['omit'] is not None:
            cfg['omit_unchanged_within'] = setting['omit']
        schedx.set_vnow(schedx.T0)
        self.node = nodes.Node({'m': cfg})
        self.mod = self.node.secnode.modules['m']
        self.mod.script = []
        self.pobj = self.mod.parameters[pname]
        self.spec = f'm:{self.pobj.export}'
        self.changes = []
        cb = setting.get('cb')
        if cb == 'raises-on-error-update':
            # the documented update_<param>(value) style without the err argument: TypeError on every error update
            self.mod.addCallback(pname, lambda value: None)
        elif cb == 'raises-always':
            self.mod.addCallback(pname, _raising_callback)
        self.mod.addCallback(pname, self._cb)
        self.conn = self.node.connect()
        self.node.request(self.conn, 'activate')
        self.msgs = [self._key(m) for m in self.conn.take() if m[1] == self.spec]
        self.changes.append(self.msgs[-1])       # the state announced by the activation snapshot

    def _cb(self, *value_err):
        from vf.harness.nodeconc import cache_key
        self.changes.append(cache_key(value_err, self.pobj))

    @staticmethod
    def _key(msg):
        if msg[0] == 'update':
            return ('v', json.dumps(msg[2][0]))
        return ('e', msg[2][0], msg[2][1])

    def cache(self):
        if self.pobj.readerror:
            return ('e', self.pobj.readerror.name, str(self.pobj.readerror))
        return ('v', json.dumps(self.pobj.export_value()))

    def apply(self, op):
        """returns the value successfully delivered by this operation (or None)"""
        from vf.engines import schedx
        kind, arg = op
        v1, v2, bad = PARAMS[self.pname]
        val = {'v1': v1, 'v2': v2, 'bad': bad, 'name1': 'a', 'v1n': v1 * (1 + 4e-10) if isinstance(v1, float) else None}.get(arg)
        delivered = None
        if kind == 'tick':
            schedx.set_vnow(schedx.vtime() + arg)
            return None
        if kind == 'read':
            self.mod.script[:] = [make_error(arg)] if arg in ('E1', 'E2', 'E3', 'X') else [val]
            try:
                getattr(self.mod, 'read_' + self.pname)()
                delivered = val
            except Exception:
                pass
        elif kind == 'assign':
            try:
                setattr(self.mod, self.pname, val)
                if arg != 'bad':
                    delivered = val
            except Exception:
                pass
        elif kind == 'write':
            getattr(self.mod, 'write_' + self.pname)(val)
            delivered = val
        elif kind == 'change':
            rep = self.node.request(self.conn, f'change {self.spec} {json.dumps(val)}')
            if rep[0] == 'changed':
                delivered = val
        elif kind == 'announce_err':
            self.mod.announceUpdate(self.pname, err=make_error(arg))
        self.msgs += [self._key(m) for m in self.conn.take() if m[0] in ('update', 'error_update') and m[1] == self.spec]
        return delivered

    def canon(self):
        from vf.engines import schedx
        age = schedx.vtime() - (self.pobj.timestamp or 0)
        cap = (self.pobj.omit_unchanged_within or 0) + 1
        try:
            raw = json.dumps(self.pobj.export_value())    # the stored value matters also while an error is cached
        except Exception:
            raw = repr(self.pobj.value)
        return (self.cache(), raw, round(min(age, cap), 3) if cap < 1e6 else round(min(age, 30), 3), self.msgs[-1])

    def close(self):
        self.node.close()


def check_seq_state(world, op, delivered, before_cache):
    """violations (sig, detail) after applying op"""
    viol = []
    cache = world.cache()
    if world.msgs != world.changes:
        viol.append(('seq:stream-differs-from-cache-changes',
                     f'messages {world.msgs[-4:]} but cache changes {world.changes[-4:]}'))
    if world.msgs[-1] != cache:
        viol.append(('seq:last-message-differs-from-cache', f'last message {world.msgs[-1]} but cache holds {cache}'))
    if delivered is not None:
        want = ('v', json.dumps(world.pobj.datatype.export_value(world.pobj.datatype(delivered))))
        if cache != want:
            kind = 'recovery-not-stored' if before_cache[0] == 'e' else 'delivered-value-not-cached'
            viol.append((f'seq:{kind}', f'after {op} delivering {delivered!r} the cache holds {cache} (before: {before_cache})'))
        elif before_cache[0] == 'e' and world.msgs[-1] != want:
            viol.append(('seq:recovery-not-announced', f'after {op} the cache recovered to {cache} but the last message is {world.msgs[-1]}'))
    return viol


def seq_shard(shard):
    pname, si, depth = shard
    setting = SETTINGS[si]
    part = core.Part()
    ops = alphabet(pname)
    seen = set()
    frontier = [[]]
    w = SeqWorld(pname, setting)
    seen.add(w.canon())
    w.close()
    level = 0
    closed = False
    while frontier and level < depth:
        nxt = []
        for hist in frontier:
            for op in ops:
                w = SeqWorld(pname, setting)
                for h in hist:
                    w.apply(h)
                before = w.cache()
                delivered = w.apply(op)
                part.evaluations += 1
                part.transitions += len(hist) + 1
                part.traces += 1
                for sig, detail in check_seq_state(w, op, delivered, before):
                    part.violation(f'C05:{sig}', {'kind': 'seq', 'pname': pname, 'setting': si, 'history': hist + [op]},
                                   f'parameter {pname} setting {setting} history {hist + [op]}: {detail}')
                k = w.canon()
                part.outcomes[f'{k[0][0]}/{k[3][0]}'] += 1
                if k not in seen:
                    seen.add(k)
                    nxt.append(hist + [op])
                    if len(seen) % 37 == 0:
                        part.sample({'parameter': pname, 'setting': setting, 'history': hist + [op], 'state': repr(k)})
                w.close()
        frontier = nxt
        level += 1
    if not frontier:
        closed = True
    part.states = len(seen)
    part.nontrivial = len(seen)
    part.extra['bfs_closed' if closed else 'bfs_open_at_depth_bound'] += 1
    return part


# ---------------------------------------------------------------------------------------------
# concurrent part

CONC_CASES = {
    'two-assign': [[['assign', 'm', 'value', 1.5]], [['assign', 'm', 'value', 2.5]]],
    'assign-vs-read-err': [[['assign', 'm', 'value', 1.5], ['assign', 'm', 'x', 7]], [['read', 'm', 'value', None], ['error', 'm', 'value', 'boom']]],
    'read-write-assign': [[['read', 'm', 'x', None]], [['change', 'm', '_x', 5]], [['assign', 'm', 'value', 1.5]]],
    'recover-equal': [[['error', 'm', 'value', 'boom'], ['assign', 'm', 'value', 3.5]], [['assign', 'm', 'value', 3.5]]],
    'equal-values': [[['assign', 'm', 'value', 1.5]], [['assign', 'm', 'value', 1.5]]],
    'reassign-current-vs-change': [[['assign', 'm', 'value', 0.0]], [['assign', 'm', 'value', 2.5]]],
    'reassign-current-vs-error': [[['assign', 'm', 'x', 0]], [['error', 'm', 'x', 'boom'], ['assign', 'm', 'x', 0]]],
    'three-writers': [[['assign', 'm', 'x', 1]], [['write', 'm', 'x', 2]], [['change', 'm', '_x', 3]]],
    'read-fail-vs-read-ok': [[['read', 'm', 'value', None]], [['read', 'm', 'value', None]]],
    # another (activated) connection leaves and comes back while updates are fanned out: the observer's stream is unaffected
    'assign-vs-leaver': [[['assign', 'm', 'value', 1.5], ['assign', 'm', 'x', 7]], [['req', 'deactivate'], ['req', 'activate']]],
    'assign-vs-joiner': [[['assign', 'm', 'value', 1.5]], [['req', 'deactivate'], ['req', 'activate m'], ['req', '*IDN?']]],
    # a connection activating while updates happen: from its snapshot on, its stream must reconstruct the cache as well
    'fresh-activate-vs-assigns': [[['assign', 'm', 'value', 1.5], ['assign', 'm', 'x', 7], ['assign', 'm', 'value', 2.5]], [['req', 'activate']]],
    'fresh-activate-module-vs-assigns': [[['assign', 'm', 'value', 1.5], ['assign', 'm', 'value', 2.5]], [['req', 'activate m']]],
    'rejoin-vs-assigns': [[['assign', 'm', 'value', 1.5], ['assign', 'm', 'value', 2.5]], [['req', 'deactivate'], ['req', 'activate']]],
    # scopes of one connection whose names are string prefixes of each other: dropping one must not drop the other
    'fresh-prefix-scopes-vs-assigns': [[['assign', 'm', 'x2', 5], ['assign', 'm', 'x', 3], ['assign', 'm', 'x2', 6]],
                                       [['req', 'activate m:_x'], ['req', 'activate m:_x2'], ['req', 'deactivate m:_x']]],
    'fresh-prefix-scopes-reversed': [[['assign', 'm', 'x', 3], ['assign', 'm', 'x2', 5], ['assign', 'm', 'x', 4]],
                                     [['req', 'activate m:_x2'], ['req', 'activate m:_x'], ['req', 'deactivate m:_x2']]],
}
CONC_READS = {
    'default': {'m': {'x': [11, 12], 'value': [9.5, 8.5]}},
    'read-fail-vs-read-ok': {'m': {'x': [11], 'value': ['EXC', 8.5]}},
}


def conc_cases(tier):
    res = []
    for name, threads in CONC_CASES.items():
        res.append({'kind': 'conc', 'name': name, 'threads': threads, 'level': 'sync', 'bound': 2 if tier == 'quick' else 3})
        if tier == 'thorough' or name in ('two-assign', 'recover-equal', 'read-write-assign', 'reassign-current-vs-change',
                                          'fresh-activate-vs-assigns', 'fresh-activate-module-vs-assigns', 'rejoin-vs-assigns',
                                          'fresh-prefix-scopes-vs-assigns'):
            res.append({'kind': 'conc', 'name': name + '/line', 'threads': threads, 'level': 'line',
                        'bound': 2 if tier != 'quick' or name == 'fresh-activate-module-vs-assigns' else 1})
    return res


def conc_execute(case, prefix):
    from vf.engines import schedx
    from vf.harness import nodeconc as N
    from frappy.errors import HardwareError
    kinds = None if case['level'] == 'line' else {'acquire', 'tryacquire', 'release', 'recv', 'send', 'send2', 'spawn', 'join',
                                                  'set', 'clear', 'wait', 'put', 'get', 'poll', 'sleep', 'yield'}
    sched = schedx.Scheduler(prefix, point_kinds=kinds, max_steps=5000)
    holder = {'threads': case['threads']}
    reads = CONC_READS.get(case['name'].split('/')[0], CONC_READS['default'])
    reads = {m: {p: [HardwareError('readfail') if v == 'EXC' else v for v in vs] for p, vs in d.items()} for m, d in reads.items()}

    def body():
        node = N.build_node(sched, reads, classes={'m': N.MP} if 'prefix' in case['name'] else None)
        holder['node'] = node
        obs = N.ObserverConn(sched, 'c3')
        node.dispatcher.add_connection(obs)
        node.request_msg(obs, ('activate', None, None))
        obs.lines.clear()
        holder['obs'] = obs
        reqconn = N.ObserverConn(sched, 'c4')     # the connection issuing change requests (not activated)
        node.dispatcher.add_connection(reqconn)
        other = N.ObserverConn(sched, 'c5')       # a further connection that changes its activation state
        holder['other'] = other
        if any(op[0] == 'req' for ops in case['threads'] for op in ops):
            node.dispatcher.add_connection(other)
            holder['fresh'] = case['name'].startswith('fresh-')
            if not holder['fresh']:
                node.request_msg(other, ('activate', None, None))
                other.lines.clear()
        sched.log.append(('init', N.current_cache(node)))
        sched.begin()

        def runner(ops):
            def run():
                for op in ops:
                    if op[0] == 'change':
                        node.request_msg(reqconn, ('change', f'{op[1]}:{op[2]}', op[3]))
                    elif op[0] == 'req':
                        action, _, spec = op[1].partition(' ')
                        node.request_msg(other, (action, spec or None, None))
                    else:
                        N.driver_op(node, op)
            return run
        ts = [schedx.Thread(target=runner(ops), name=f'w{i}') for i, ops in enumerate(case['threads'])]
        for t in ts:
            t.start()
        for t in ts:
            t.join()
        holder['final'] = N.current_cache(node)
    x = sched.run(body)
    viol = conc_judge(sched, x, holder)
    if holder.get('node') is not None:
        holder['node'].close()
    return x, viol, sched


def conc_judge(sched, x, holder):
    from vf.harness import nodeconc as N
    if x.deadlock:
        return [('conc:deadlock', x.deadlock)]
    if x.livelock:
        return [('conc:livelock', x.livelock)]
    viol = []
    for t in x.threads:
        if t.exc is not None:
            viol.append((f'conc:thread-died:{type(t.exc).__name__}', f'thread {t.name} ended with {t.exc!r}'))
    if viol:
        return viol
    log = sched.log
    init = next(e[1] for e in log if e[0] == 'init')
    final = holder['final']
    for p in init:
        changes = [e[2] for e in log if e[0] == 'cache' and e[1] == p]
        got = [k[2] for k in (N.msg_key(l) for l in holder['obs'].lines) if k[0] == 'update' and k[1] == p]
        if got != changes:
            if sorted(map(repr, got)) == sorted(map(repr, changes)):
                viol.append(('conc:stream-out-of-cache-order', f'{p}: messages {got} but the cache changed in order {changes}'))
            else:
                viol.append(('conc:stream-differs-from-cache-changes', f'{p}: messages {got} but cache changes {changes}'))
        last = got[-1] if got else init[p]
        if last != final[p]:
            viol.append(('conc:last-message-differs-from-cache', f'{p}: last message {last} but the cache holds {final[p]}'))
    # the connection that (re)activated meanwhile: the last message it holds for every parameter equals the cache
    reqs = [op[1] for ops in holder.get('threads', []) for op in ops if op[0] == 'req']
    from vf.harness.c08 import RefTable
    table = RefTable()
    table.glob = bool(reqs) and not holder.get('fresh')       # (it was globally active before the threads started unless 'fresh')
    for r in reqs:
        table.apply(r)
    if reqs and (table.glob or table.scopes):
        other = holder['other']
        for p in init:
            if not table.subscribed(p):
                continue
            got = [k[2] for k in (N.msg_key(l) for l in other.lines) if k[0] == 'update' and k[1] == p]
            if not got:
                viol.append(('conc:activating-connection:no-message-for-a-parameter-in-scope', f'{p}: nothing received; cache {final[p]}'))
            elif got[-1] != final[p]:
                viol.append(('conc:activating-connection:last-message-differs-from-cache',
                             f'{p}: the connection that sent {reqs} holds {got[-1]} (messages {got}) but the cache holds {final[p]}'))
    return viol


def conc_trace(case):
    from vf.engines import schedx
    from vf.harness import nodeconc as N
    import frappy.modulebase as mb
    if case['level'] == 'line':
        # all read wrappers share one code object (new_rfunc), all write wrappers another (new_wfunc)
        funcs = [mb.Module.announceUpdate, N.M.wrappedAttributes['read_x'], N.M.wrappedAttributes['write_x']]
        if any(op[0] == 'req' for ops in case['threads'] for op in ops):
            funcs = N.all_dispatcher_functions()      # activation racing with updates: every function of the dispatcher
        schedx.trace_lines(funcs)
    else:
        schedx.untrace_all()


def conc_root(case):
    from vf.engines import schedx
    conc_trace(case)
    x1, _v, s1 = conc_execute(case, [])
    x2, _v, s2 = conc_execute(case, [])
    if x1.trace != x2.trace or s1.log != s2.log:
        raise core.Inconclusive(f'case {case["name"]}: the default schedule is not deterministic')
    part = core.Part()
    part.data.append([case['name'], schedx.first_level(x1, case['bound'], 0)])
    part.extra['points_in_default_schedule'] += len(x1.points)
    return part


def conc_sub(shard):
    from vf.engines import schedx
    case, prefix = shard
    part = core.Part()
    conc_trace(case)

    def ex(pfx):
        x, viol, sched = conc_execute(case, pfx)
        part.evaluations += 1
        part.traces += 1
        part.transitions += x.steps
        part.fps |= x.fingerprints
        part.outcomes[hash(tuple(holder_lines(sched)))] += 1
        for sig, detail in viol:
            part.violation(f'C05:{sig}', dict(case, prefix=list(x.choices)), f'case {case["name"]} schedule {x.choices}: {detail}')
        if part.evaluations % 499 == 1:
            part.sample({'case': case['name'], 'schedule': list(x.choices), 'stream': [l.decode().strip()[:50] for l in holder_lines(sched)][:8]})
        return x
    if prefix is None:
        ex([])
    else:
        n, _ = schedx.explore(ex, case['bound'], prefix=prefix)
    part.nontrivial = part.evaluations
    part.extra['schedules'] += part.evaluations
    return part


def holder_lines(sched):
    return [e[2] for e in sched.log if e[0] == 'send' and e[1] == 'c3']


def run(ctx):
    depth = 4 if ctx.tier == 'quick' else 6
    only = getattr(ctx, 'only', set())
    if not only or 'seq' in only:
        shards = [(p, si, depth) for p in PARAMS for si in range(len(SETTINGS))]
        ctx.pmap(seq_shard, shards, name='sequential_bfs')
    if not only or 'conc' in only:
        cs = conc_cases(ctx.tier)
        roots = ctx.pmap(conc_root, cs, name='determinism')
        byname = {c['name']: c for c in cs}
        shards = []
        for name, prefixes in roots.data:
            shards.append((byname[name], None))
            shards += [(byname[name], p) for p in prefixes]
        ctx.total.data.clear()
        ctx.pmap(conc_sub, shards, name='concurrent_schedules')
        ctx.coverage.update(concurrent_cases={c['name']: c['bound'] for c in cs})
    ctx.rule = ('sequential: explicit-state BFS over operation histories (alphabet of 14-19 operations incl. clock steps) per '
                f'(parameter, setting), depth <= {depth}, de-duplicated on (cache state, capped time-stamp age, last message); '
                'every explored transition is checked. concurrent: all thread schedules with <= bound preemptions of 2-3 threads x 1-2 '
                'operations colliding on one parameter. evaluations = transitions checked + schedules judged; states = distinct '
                'canonical states (BFS) + distinct scheduling fingerprints')
    ctx.coverage.update(bound_completed=f'BFS depth {depth}; preemptions <= 2 sync / 1 line (quick), 3 / 2 (thorough)')
    ctx.assume('canonical state merges histories whose cached value, error, capped age and last message agree - exactly the fields '
               'announceUpdate reads, so merged states have the same futures',
               'CPython; 2-3 racing threads; virtual time')


def replay(case):
    part = core.Part()
    if case.get('kind') == 'seq':
        w = SeqWorld(case['pname'], SETTINGS[case['setting']])
        hist = case['history']
        for h in hist[:-1]:
            w.apply(h)
        before = w.cache()
        delivered = w.apply(hist[-1])
        for sig, detail in check_seq_state(w, hist[-1], delivered, before):
            part.violation(f'C05:{sig}', case, detail)
        w.close()
    else:
        conc_trace(case)
        x, viol, sched = conc_execute(case, case['prefix'])
        for sig, detail in viol:
            part.violation(f'C05:{sig}', case, detail)
        part.notes.append('\n'.join(repr(e)[:160] for e in sched.log))
    part.evaluations = 1
    return part
