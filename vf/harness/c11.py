"""C11 - client: every caller gets its own reply or an error, under all interleavings.

schedx: the real SecopClient (rx / tx / reconnect threads, request queueing, pending table, disconnect) on the real
AsynTcp over an in-memory socket whose other end is a scripted SEC node.  2-3 caller threads issue one request each
(equal keys, distinct keys, unknown action); optionally a thread calls disconnect() concurrently.  The peer's answers
are environment choices (answer now = default / error reply / update first / delayed answer / silence / hold the
answer until the next request = reversed order / drop the link).  All thread schedules with <= bound preemptions and
<= dev_bound environment deviations; scheduling points at every queue / event / lock / socket operation and (line
level) at every source line of __txthread, get_reply, queue_request and disconnect.

Oracle per complete execution (from the statement):
  own-reply    a caller that returns a reply returns one that answers its own request (peer replies carry the ordinal of
               the request they answer; change replies carry the caller's own value); no reply is handed to two callers
  answered     with no deviation on its own request and the link up, a caller gets its reply - in particular a request
               the peer never received must not end in a TimeoutError
  time-out     no caller waits longer than its time-out (10 s + the 3 s queue time-out + 1 s receive granularity)
  released     when the link is lost or shut down every waiting caller ends with a connection error within 2 virtual
               seconds (1 s receive granularity + 1)
  shutdown     disconnect() returns without raising, afterwards no worker thread of the client is alive and the thread
               handles are cleared; no schedule deadlocks
Oracle calibration: after a peer drop the client reconnects by design (activate=True): the scripted node accepts the new
connection, the final disconnect() of the harness must still end everything.  Which of two identical requests gets
which of the two replies is not judged (both answer the same question) - only that each caller gets exactly one and
none is shared.
"""
import json

from vf import core

PROPERTY = 'C11'

IDENT = b'ISSE,SECoP,V2019-09-16,v1.0\n'
DESCRIPTION = {
    'modules': {'m': {'accessibles': {
        'value': {'description': 'v', 'datainfo': {'type': 'double'}, 'readonly': True},
        'target': {'description': 't', 'datainfo': {'type': 'double'}, 'readonly': False},
    }, 'description': 'mod', 'interface_classes': ['Writable'], 'features': [], 'implementation': 'x'}},
    'equipment_id': 'peer', 'firmware': 'fake', 'description': 'scripted node'}

ANSWERS = ['now', 'error', 'hold', 'silent', 'drop', 'update-first', 'delayed']
# scripted only (a case fixes the fate of the n-th request; no deviation is spent on it):
#   at-timeout   the reply arrives at the very instant the caller's 10 s time-out expires
#   split-slow   the reply line arrives in two TCP segments 1.6 s apart (longer than the 1 s receive granularity)
TIMEOUT = 10.0

CALLERS = {
    'same-read': [['read', 'm:value', None], ['read', 'm:value', None]],
    'same-change': [['change', 'm:target', 1.0], ['change', 'm:target', 2.0]],
    'distinct-read': [['read', 'm:value', None], ['read', 'm:target', None]],
    'ping2': [['ping', 'tok1', None], ['ping', 'tok2', None]],
    'unknown+read': [['frob', 'x1', None], ['read', 'm:value', None]],
    'three': [['read', 'm:value', None], ['read', 'm:value', None], ['ping', 'tok3', None]],
}


class NodePeer:
    """scripted SEC node; one instance per connection"""
    def __init__(self, world):
        self.world = world
        self.buf = b''
        self.held = []
        self.stall_until = 0.0

    def on_connect(self, sock):
        from vf.engines.fakesock import Refused
        if self.world.connections and not self.world.accept_reconnect:
            self.world.refused += 1
            raise Refused()
        self.world.connections.append(sock)

    def on_close(self, sock):
        self.world.events.append(('peer-sees-close', sock.label, self.world.sched.now))

    def on_data(self, sock, data):
        self.buf += data
        while b'\n' in self.buf:
            line, self.buf = self.buf.split(b'\n', 1)
            self.handle(sock, line.decode())

    def reply_for(self, action, spec, data, n):
        now = self.world.sched.now
        if action == 'read':
            return f'reply {spec} [{n}.0, {{"t": {now}}}]'
        if action == 'change':
            return f'changed {spec} [{json.dumps(data)}, {{"t": {now}}}]'
        if action == 'ping':
            return f'pong {spec} [null, {{"t": {now}}}]'
        return f'error_{action} {spec} ["ProtocolError", "unknown action {n}", {{}}]'

    def handle(self, sock, line):
        w = self.world

        def send(data, delay=0.0):
            # a peer stalled in the middle of a line sends everything else behind it
            sock.deliver(data, max(delay, self.stall_until - w.sched.now))
        parts = line.split(' ', 2)
        action = parts[0]
        spec = parts[1] if len(parts) > 1 else ''
        data = json.loads(parts[2]) if len(parts) > 2 else None
        if action == '*IDN?':
            send(IDENT)
            return
        if action in ('describe', 'activate') and w.window and w.handshake_drop == action:
            # the peer goes away in the middle of the client's connect handshake
            w.handshake_drop = None
            w.drops.append(w.sched.now)
            w.events.append(('peer-dropped-during', action, w.sched.now))
            sock.peer_close()
            return
        if action == 'describe':
            send(('describing . ' + json.dumps(DESCRIPTION) + '\n').encode())
            return
        if action == 'activate':
            send(b'update m:value [0.5, {"t": 1.0}]\nupdate m:target [0.5, {"t": 1.0}]\nactive\n')
            # an activated node keeps sending updates (so the client's no-activity heartbeat never fires)
            if w.periodic:
                for k in range(1, 16):
                    send(f'update m:target [{k}.25, {{"t": {k}.0}}]\n'.encode(), delay=float(k))
            return
        w.nreq += 1
        n = w.nreq
        w.events.append(('peer-got', n, action, spec, data, w.sched.now))
        if w.window and n in w.scripted:
            answer = w.scripted[n]
        else:
            answer = ANSWERS[w.sched.choose(len(w.answers), f'peer-answer:{action} {spec}')] if w.window else 'now'
        rep = self.reply_for(action, spec, data, n)
        w.requests[n] = {'action': action, 'spec': spec, 'data': data, 'answer': answer, 'reply': rep}
        release = [(h + '\n').encode() for h in self.held]
        self.held = []
        if answer == 'now':
            send((rep + '\n').encode())
        elif answer == 'error':
            w.requests[n]['reply'] = rep = f'error_{action} {spec} ["HardwareError", "refused {n}", {{}}]'
            send((rep + '\n').encode())
        elif answer == 'update-first':
            send(b'update m:value [7.5, {"t": 2.0}]\n' + (rep + '\n').encode())
        elif answer == 'delayed':
            send((rep + '\n').encode(), delay=2.5)
        elif answer == 'at-timeout':
            send((rep + '\n').encode(), delay=TIMEOUT)
        elif answer.startswith('late:'):        # the reply arrives <d> s after the caller's time-out expired
            send((rep + '\n').encode(), delay=TIMEOUT + float(answer.split(':')[1]))
        elif answer == 'split-slow':
            data = (rep + '\n').encode()
            cut = max(1, len(data) // 2)
            send(data[:cut])
            self.stall_until = w.sched.now + 1.6
            send(data[cut:])
        elif answer == 'hold':
            self.held.append(rep)
            w.requests[n]['held'] = True
        elif answer == 'silent':
            w.requests[n]['reply'] = None
        elif answer == 'drop':
            w.requests[n]['reply'] = None
            w.drops.append(w.sched.now)
            sock.peer_close()
        for r in release:               # replies held back are released by the next request (reversed order)
            send(r)
            for req in w.requests.values():
                if req.get('held'):
                    req['held'] = False


class World:
    def __init__(self, sched, answers):
        self.sched = sched
        self.answers = answers
        self.window = False
        self.connections = []
        self.events = []
        self.requests = {}
        self.nreq = 0
        self.drops = []
        self.refused = 0
        self.accept_reconnect = False
        self.scripted = {}
        self.periodic = True
        self.handshake_drop = None


def execute(case, prefix):
    from vf.engines import schedx, fakesock
    import frappy.client as C
    fakesock.install()
    kinds = None if case['level'] == 'line' else {'acquire', 'tryacquire', 'release', 'recv', 'send', 'connect', 'select', 'spawn', 'join',
                                                  'set', 'clear', 'wait', 'put', 'get', 'poll', 'sleep', 'yield'}
    sched = schedx.Scheduler(prefix, point_kinds=kinds, max_steps=6000, horizon=40.0, grace=15.0)
    net = fakesock.Net()
    fakesock.set_net(net)
    world = World(sched, ANSWERS[:case['nanswers']])
    world.accept_reconnect = bool(case.get('reconnect'))
    world.scripted = {int(k): v for k, v in (case.get('scripted') or {}).items()}
    # a peer that stalls in the middle of a line sends nothing else meanwhile: no pre-scheduled periodic updates in those cases
    world.periodic = 'split-slow' not in world.scripted.values()
    world.handshake_drop = case.get('handshake_drop')
    net.listen('node', 10767, lambda: NodePeer(world))
    out = {'results': {}, 'disconnect': None, 'retry': {}}

    def body():
        client = C.SecopClient('tcp://node:10767', log=None)
        out['client'] = client
        out['clears'] = []
        ev = client._shutdown
        orig_clear = ev.clear

        def clear():
            t = schedx.current_thread()
            out['clears'].append(getattr(t, 'name', '?').split(':')[-1])
            orig_clear()
        ev.clear = clear
        if not case.get('handshake_drop'):
            client.connect()
        world.window = True
        sched.begin()

        def caller(i, req):
            def run():
                if case.get('delays'):
                    schedx.vsleep(case['delays'][i])
                t0 = sched.now
                try:
                    if req[0] == '@connect':        # the caller establishes the connection itself (inside the explored window)
                        client.connect()
                        rep = ('connected', None, None)
                    else:
                        rep = client.request(*req)
                    out['results'][i] = ('reply', list(rep), t0, sched.now)
                except Exception as e:          # noqa
                    out['results'][i] = ('exc', type(e).__name__, str(e)[:80], t0, sched.now)
                    if case.get('retry') and isinstance(e, TimeoutError):
                        # the same caller asks again after its time-out
                        world.answers = ANSWERS[:1]
                        t1 = sched.now
                        again = (case.get('retry_with') or [None] * (i + 1))[i] or req      # (the same thread goes on with another request)
                        try:
                            rep = client.request(*again)
                            out['retry'][i] = ('reply', list(rep), t1, sched.now)
                        except Exception as e2:          # noqa
                            out['retry'][i] = ('exc', type(e2).__name__, str(e2)[:80], t1, sched.now)
            return run
        ts = [schedx.Thread(target=caller(i, req), name=f'caller{i}') for i, req in enumerate(case['callers'])]
        if case['shutdown'] == 'user-race':
            def disc():
                try:
                    client.disconnect()
                    out['disconnect'] = ('ok', sched.now)
                except Exception as e:          # noqa
                    out['disconnect'] = ('exc', f'{type(e).__name__}: {e}', sched.now)
            ts.append(schedx.Thread(target=disc, name='disconnector'))
        for t in ts:
            t.start()
        for t in ts:
            t.join()
        out['t_callers_done'] = sched.now
        world.window = False
        try:
            client.disconnect()
            out['final_disconnect'] = ('ok', sched.now)
        except Exception as e:                  # noqa
            out['final_disconnect'] = ('exc', f'{type(e).__name__}: {e}', sched.now)
        # neutralise the finalizers (they would call disconnect in whichever thread allocates)
        for cbs in client.callbacks.values():       # (the keys stay: a worker thread still alive looks its callback name up)
            cbs.clear()

    x = sched.run(body)
    viol = judge(case, sched, x, world, out)
    if len(world.connections) > 1:
        # history class of its own: the link was lost and a new connection was established while the run went on
        viol = [(sig + ':link-re-established-during-the-run', detail) for sig, detail in viol]
    client = out.get('client')
    if client is not None:
        client.__dict__['disconnect'] = lambda *a, **k: None
    for s in net.socks:
        s.closed = True
    return x, viol, sched, world, out


def judge(case, sched, x, world, out):
    viol = []
    if x.deadlock:
        return [('deadlock', x.deadlock)]
    if x.livelock:
        stuck = [s[:3] for s in x.stuck if s[3]]
        joins = [s for s in stuck if s[1] == 'join' and s[2].endswith('_reconnect')]
        if joins:
            last = (out.get('clears') or ['nobody'])[-1]
            who = 'a-concurrent-request' if last.startswith('caller') else last.strip('_')
            return [(f'disconnect-hangs-joining-reconnect-thread:shutdown-flag-cleared-by-{who}',
                     f'{x.livelock}; blocked: {stuck}; the shutdown flag was cleared by {out.get("clears")}')]
        return [('hang:' + ','.join(sorted({f'{n.split(":")[-1].rstrip("0123456789")}@{k}:{lbl.split(":")[-1]}' for n, k, lbl in stuck})),
                 f'{x.livelock}; blocked: {stuck}')]
    client = out.get('client')
    if client is not None:
        out['handles'] = (client._rxthread, client._txthread, client._connthread)
    main = x.threads[0]
    if main.exc is not None:
        return [(f'harness-main-died:{type(main.exc).__name__}', repr(main.exc))]
    callers = case['callers']
    results = out['results']
    used = []
    peer_got = {}
    for ev in world.events:
        if ev[0] == 'peer-got':
            peer_got.setdefault((ev[2], ev[3], json.dumps(ev[4])), []).append(ev[1])
    user_disc = out['disconnect'][1] if out['disconnect'] else None
    link_lost = min(world.drops + ([user_disc] if out['disconnect'] and out['disconnect'][0] == 'ok' and False else []), default=None)
    for i, req in enumerate(callers):
        res = results.get(i)
        if res is None:
            viol.append(('caller-never-returned', f'caller {i} {req} has no result'))
            continue
        t0, t1 = res[-2], res[-1]
        if t1 - t0 > 14.0 + 1e-6:
            viol.append(('caller-waited-longer-than-timeout', f'caller {i} {req} waited {t1 - t0:g} s'))
        mine = peer_got.get((req[0], req[1], json.dumps(req[2])), [])
        if req[0] == '@connect':
            if res[0] == 'exc' and res[1] == 'TimeoutError' and world.drops and t1 > world.drops[0] + 2.0 + 1e-6:
                viol.append(('connect-not-released-after-link-loss-in-handshake',
                             f'connect() ended with TimeoutError {t1 - world.drops[0]:g} s after the peer dropped the link during the handshake'))
            continue
        if res[0] == 'reply':
            action, ident, data = res[1]
            # the reply must be one the peer produced for an identical request, and not handed out twice
            cands = [n for n in mine if world.requests[n]['reply'] and world.requests[n]['reply'].split(' ', 2)[0] == action
                     and json.dumps(json.loads(world.requests[n]['reply'].split(' ', 2)[2])) == json.dumps(data)]
            if not cands:
                # whose reply is it?  the late reply to a request (same key) whose caller has timed out meanwhile is a class
                # of its own (SECoP replies carry no request id)
                origin = [n for n, r in world.requests.items() if r['reply'] and r['reply'].split(' ', 2)[0] == action and
                          json.dumps(json.loads(r['reply'].split(' ', 2)[2])) == json.dumps(data)]
                owners = [j for j, q in enumerate(callers) for n in origin
                          if (q[0], q[1], json.dumps(q[2])) == (world.requests[n]['action'], world.requests[n]['spec'],
                                                                 json.dumps(world.requests[n]['data']))]
                late = owners and all(results.get(j, ('?',))[0] == 'exc' and results[j][1] == 'TimeoutError' for j in owners)
                viol.append(('foreign-reply' + (':late-reply-to-a-timed-out-request-with-the-same-key' if late else ''),
                             f'caller {i} {req} got {res[1]} which answers none of its requests {mine} '
                                              f'(peer replies: {[world.requests[n]["reply"] for n in sorted(world.requests)]})'))
            else:
                free = [n for n in cands if n not in used]
                if not free:
                    viol.append(('reply-handed-to-two-callers', f'caller {i} {req} got {res[1]}, already returned to another caller'))
                else:
                    used.append(free[0])
        else:
            exc = res[1]
            answers = [world.requests[n]['answer'] for n in mine]
            disturbed = bool(world.drops) or user_disc is not None or case['shutdown'] != 'none'
            all_prompt = all(r['answer'] in ('now', 'error', 'update-first', 'split-slow') for r in world.requests.values())
            if exc == 'TimeoutError' and not mine and not disturbed and all_prompt:
                viol.append(('request-never-sent', f'caller {i} {req} timed out after {t1 - t0:g} s but the peer never received the request '
                                                   f'(peer got {[(e[1], e[2], e[3]) for e in world.events if e[0] == "peer-got"]})'))
            elif exc == 'TimeoutError' and mine and not disturbed and all_prompt:
                viol.append(('answered-request-timed-out', f'caller {i} {req} timed out although the peer answered it ({answers})'))
            elif exc == 'ConnectionError' and mine and not disturbed and all_prompt and not case.get('reconnect'):
                # the link was never lost or shut down and the peer answered: a connection error is not the caller's own reply
                viol.append(('answered-request-failed-with-connection-error-on-a-healthy-link',
                             f'caller {i} {req} got ConnectionError({res[2]!r}) although the link was up and the peer answered it ({answers})'))
            elif exc == 'TimeoutError' and mine and not disturbed and len(mine) == 1 and answers == ['now'] and \
                    [e[5] for e in world.events if e[0] == 'peer-got' and e[1] == mine[0]][0] <= t0 + TIMEOUT - 2.0:
                # the peer answered this very request at once, well before the caller's time-out (whatever happened to
                # other requests)
                viol.append(('answered-request-timed-out:own-request-answered-in-time',
                             f'caller {i} {req} timed out at {t1:g} although the peer answered its request at once at '
                             f'{[e[5] for e in world.events if e[0] == "peer-got" and e[1] == mine[0]][0]:g} (answers to all requests: '
                             f'{[(n, r["answer"]) for n, r in sorted(world.requests.items())]})'))
            elif exc not in ('TimeoutError', 'ConnectionError', 'HardwareError', 'ProtocolError', 'CommunicationFailedError',
                             'Full', 'ConnectionRefusedError'):
                viol.append((f'caller-unexpected-exception:{exc}', f'caller {i} {req} ended with {exc}: {res[2]}'))
            elif exc in ('HardwareError', 'ProtocolError') and not any(a == 'error' for a in answers) and req[0] != 'frob':
                viol.append(('error-reply-for-foreign-request', f'caller {i} {req} got {exc} {res[2]!r} but its answers were {answers}'))
    for i, res in out.get('retry', {}).items():
        again = (case.get('retry_with') or [None] * (i + 1))[i] or callers[i]
        if res[0] == 'exc' and not world.drops:
            viol.append(('retry-after-timeout-failed' if again == callers[i] else 'next-request-of-the-same-thread-failed-after-a-time-out',
                         f'caller {i} asked {again} after the time-out of {callers[i]} and got {res[1]} {res[2]!r}; '
                         f'peer got {[(e[1], e[2], e[3], e[5]) for e in world.events if e[0] == "peer-got"]}'))
        elif res[0] == 'reply' and again != callers[i]:
            # another key: the reply must be the one the peer produced for this very request
            mine2 = peer_got.get((again[0], again[1], json.dumps(again[2])), [])
            action, ident, data = res[1]
            if not any(world.requests[n]['reply'] and world.requests[n]['reply'].split(' ', 2)[0] == action and ident == again[1] and
                       json.dumps(json.loads(world.requests[n]['reply'].split(' ', 2)[2])) == json.dumps(data) for n in mine2):
                viol.append(('foreign-reply:next-request-of-the-same-thread-after-a-time-out',
                             f'caller {i} asked {again} after the time-out of {callers[i]} and got {res[1]} '
                             f'(peer replies: {[world.requests[n]["reply"] for n in sorted(world.requests)]})'))
    # released promptly after a link loss (peer drop): every caller finished within 2 s + its remaining work
    for tdrop in world.drops:
        for i, req in enumerate(callers):
            res = results.get(i)
            if res and res[-2] <= tdrop and res[-1] > tdrop + 2.0 + 1e-6 and res[0] == 'exc' and res[1] == 'TimeoutError':
                viol.append(('waiter-not-released-after-link-loss', f'caller {i} {req} waited until {res[-1] - tdrop:g} s after the drop'))
    for key in ('disconnect', 'final_disconnect'):
        d = out.get(key)
        if d and d[0] == 'exc':
            viol.append((f'disconnect-raised:{d[1].split(":")[0]}', f'{key} raised {d[1]}'))
    if out.get('final_disconnect') is None:
        viol.append(('final-disconnect-did-not-return', ''))
    else:
        handles = out.get('handles')
        if handles and any(h is not None for h in handles):
            viol.append(('thread-handles-left', f'after disconnect: _rxthread/_txthread/_connthread = {handles}'))
        alive = [t.name for t in x.threads if not t.done and t.name in x.aborted_threads]
        alive = [n for n in x.aborted_threads]
        if alive:
            viol.append(('worker-thread-still-running-after-disconnect', f'threads still alive at the end: {alive}'))
    for t in x.threads[1:]:
        if t.exc is not None and not t.name.startswith(('caller', 'disconnector')) and \
                not isinstance(t.exc, (OSError, ConnectionError, TimeoutError)):
            viol.append((f'worker-thread-died:{type(t.exc).__name__}', f'thread {t.name} ended with {t.exc!r}'))
    return viol


def cases(tier):
    res = []
    quick = tier == 'quick'
    names = ['same-read', 'same-change', 'distinct-read', 'ping2', 'unknown+read'] if quick else list(CALLERS)
    nans = 5 if quick else len(ANSWERS)
    free = 2 if quick else 3
    # a reply arriving at the instant of the first caller's time-out while a second request with the same key (issued
    # 5 s later) is parked behind it: the second caller's request is answered at once and must get its reply
    res.append({'name': 'same-change/late-first', 'callers': CALLERS['same-change'], 'delays': [0.0, 5.0], 'scripted': {1: 'at-timeout'},
                'shutdown': 'none', 'level': 'sync', 'bound': 2 if quick else 3, 'dev': 0, 'total': None, 'free': free, 'nanswers': nans})
    # the peer drops the link in the middle of the connect handshake (the caller connects inside the explored window)
    for act in ('describe', 'activate'):
        res.append({'name': f'connect/drop-during-{act}', 'callers': [['@connect', None, None]], 'handshake_drop': act, 'shutdown': 'none',
                    'level': 'sync', 'bound': 1 if quick else 2, 'dev': 0, 'total': None, 'free': free, 'nanswers': nans})
    # a reply arriving in two segments with a pause longer than the receive granularity
    for cname in ('same-read', 'distinct-read'):
        res.append({'name': f'{cname}/split-slow', 'callers': CALLERS[cname], 'scripted': {1: 'split-slow'}, 'shutdown': 'none', 'level': 'sync',
                    'bound': 1 if quick else 2, 'dev': 0, 'total': None, 'free': free, 'nanswers': nans})
    res.append({'name': 'same-change/silent-first', 'callers': CALLERS['same-change'], 'delays': [0.0, 5.0], 'scripted': {1: 'silent'},
                'shutdown': 'none', 'level': 'sync', 'bound': 2 if quick else 3, 'dev': 0, 'total': None, 'free': free, 'nanswers': nans})
    free = 2        # (3 free switches with 2-3 callers and 7 answers: hours per case; the scripted cases above keep 3)
    for name in names:
        three = len(CALLERS[name]) > 2          # (3 callers: one preemption less, or the case alone takes an hour)
        res.append({'name': f'{name}/sync', 'callers': CALLERS[name], 'shutdown': 'none', 'level': 'sync',
                    'bound': 1 if three else 2, 'dev': 1, 'total': 2 if three else 3, 'free': free, 'nanswers': nans})
    if not quick:
        # the peer accepts the client's reconnect after a drop (in all other cases it refuses): the teardown of the old
        # connection runs next to a connect() triggered by the reconnect thread or by a caller
        res.append({'name': 'same-read/reconnect', 'callers': CALLERS['same-read'], 'shutdown': 'none', 'level': 'sync',
                    'bound': 2, 'dev': 1, 'total': 3, 'free': 1, 'nanswers': nans, 'reconnect': True})
    for name in (['same-read', 'ping2'] if quick else [n for n in names if len(CALLERS[n]) == 2]):
        res.append({'name': f'{name}/user-race', 'callers': CALLERS[name], 'shutdown': 'user-race', 'level': 'sync',
                    'bound': 2, 'dev': 1, 'total': 2, 'free': 2, 'nanswers': nans})
    res.append({'name': 'retry-after-timeout', 'callers': [CALLERS['same-read'][0]], 'shutdown': 'none', 'level': 'sync', 'retry': True,
                'bound': 1 if quick else 2, 'dev': 1, 'total': 2 if quick else 3, 'free': 2, 'nanswers': nans})
    # a thread whose request timed out goes on with a request for another key while the late reply to the first one comes in
    # (at the time-out, shortly after it - before the rx thread has cleaned up - and after the clean-up); the second request is
    # answered after 2.5 s, so the thread is waiting when the late reply arrives
    for late in ('0', '0.3', '0.9', '1.7'):
        res.append({'name': f'next-after-timeout/late-{late}', 'callers': [CALLERS['distinct-read'][0]], 'retry': True,
                    'retry_with': [CALLERS['distinct-read'][1]], 'scripted': {1: f'late:{late}', 2: 'delayed'}, 'shutdown': 'none', 'level': 'sync',
                    'bound': 1 if quick else 2, 'dev': 0, 'total': None, 'free': 2, 'nanswers': nans})
    for name in (['same-read'] if quick else ['same-read', 'same-change']):
        deep = not quick and name == 'same-read'
        res.append({'name': f'{name}/line', 'callers': CALLERS[name], 'shutdown': 'none', 'level': 'line',
                    'bound': 2 if deep else 1, 'dev': 0 if deep else 1, 'total': 2, 'free': 2, 'nanswers': nans})
    return res


def set_trace(case):
    from vf.engines import schedx
    import frappy.client as C
    if case['level'] == 'line':
        S = C.SecopClient
        schedx.trace_lines([S._SecopClient__txthread, S._SecopClient__rxthread, S.get_reply, S.queue_request, S.disconnect])
    else:
        schedx.untrace_all()


def root_fn(case):
    from vf.engines import schedx
    set_trace(case)
    x1, _v, s1, w1, o1 = execute(case, [])
    x2, _v, s2, w2, o2 = execute(case, [])
    if x1.trace != x2.trace or w1.events != w2.events:
        raise core.Inconclusive(f'case {case["name"]}: the default schedule is not deterministic')
    part = core.Part()
    part.data.append([case['name'], schedx.first_level(x1, case['bound'], case['dev'], case.get('free'))])
    part.extra['points_in_default_schedule'] += len(x1.points)
    part.extra['pre_window_steps'] += x1.pre_window_steps
    return part


def sub_fn(shard):
    from vf.engines import schedx
    case, prefix = shard
    part = core.Part()
    set_trace(case)

    def ex(pfx):
        x, viol, sched, world, out = execute(case, pfx)
        part.evaluations += 1
        part.traces += 1
        part.transitions += x.steps
        part.fps |= x.fingerprints
        summary = tuple(sorted((i, r[0], r[1] if r[0] == 'exc' else json.dumps(r[1])) for i, r in out['results'].items()))
        part.outcomes[hash(summary)] += 1
        if x.deviations or x.preemptions:
            part.nontrivial += 1
        for sig, detail in viol:
            part.violation(f'C11:{sig}', dict(case, prefix=list(x.choices)), f'case {case["name"]} choices {x.choices}: {detail}')
        if part.evaluations % 499 == 1:
            part.sample({'case': case['name'], 'choices': list(x.choices), 'results': [list(map(str, r[:2])) for r in out['results'].values()],
                         'peer': [world.requests[n]['answer'] for n in sorted(world.requests)]})
        return x
    if prefix is None:
        ex([])
    else:
        schedx.explore(ex, case['bound'], case['dev'], prefix=prefix, total_bound=case.get('total'), free_bound=case.get('free'))
    part.extra['schedules'] += part.evaluations
    return part


def run(ctx):
    cs = cases(ctx.tier)
    import os
    if os.environ.get('VERIF_CASES'):       # debug / sizing: only the cases whose name contains one of the given words
        cs = [c for c in cs if any(w in c['name'] for w in os.environ['VERIF_CASES'].split(','))]
    roots = ctx.pmap(root_fn, cs, name='determinism')
    byname = {c['name']: c for c in cs}
    shards = []
    for name, prefixes in roots.data:
        shards.append((byname[name], None))
        shards += [(byname[name], p) for p in prefixes]
    ctx.total.data.clear()
    ctx.pmap(sub_fn, shards, name='schedules')
    ctx.rule = ('for every case (caller requests x shutdown variant) all executions with <= bound preemptions and <= dev environment '
                'deviations (peer answers: now / error / update first / delayed / held = reversed order / silence / link drop); '
                'evaluations = complete executions judged; distinct_nontrivial = executions with at least one preemption or deviation; '
                'states = distinct thread-position fingerprints; transitions = scheduling steps')
    ctx.coverage.update(cases={c['name']: {'preemptions': c['bound'], 'deviations': c['dev']} for c in cs})
    ctx.assume('CPython; granularity = queue / event / lock / socket operations (+ source lines of __txthread, get_reply, queue_request, '
               'disconnect at line level); virtual time, computation instantaneous; 2-3 callers',
               'the connect / describe / activate handshake runs under forced default choices (not explored)')


def replay(case):
    set_trace(case)
    part = core.Part()
    x, viol, sched, world, out = execute(case, case['prefix'])
    for sig, detail in viol:
        part.violation(f'C11:{sig}', case, detail)
    part.notes.append(json.dumps({'results': {k: [str(a) for a in v] for k, v in out['results'].items()},
                                  'peer': world.events, 'trace_tail': x.trace[-40:]}, default=str))
    part.evaluations = 1
    return part
