"""C04 - no invalid, forbidden or out-of-limit request ever reaches the driver.

enumx: explicit-state BFS over request sequences against a real in-process node (real SecNode, Dispatcher, module
wrappers, Command.do, error mapping of the handler; for all requests issued from the initial state also through the
real TCPRequestHandler) whose modules are the generated classes G (vf/genmods_node.py) with a recording fake driver.

  state     = history of requests; build(history) makes a fresh node and replays the history
  canon     = exported cache + read error of every parameter of every module (limit parameters are parameters);
              two histories with the same canon have the same futures for change/do requests, because the dispatcher,
              the wrappers, checkLimits and the generated hooks read nothing but these parameter values (the virtual
              clock advances by 1 s per request, so the 'omit unchanged' window never matters)
  bound     = quick (3 classes): every single request, and all sequences of 2 requests whose first is a history step or
              the first accepted change of each other parameter (one representative value; the value of such a parameter
              can not influence a later answer) and whose second ranges over the full alphabet; thorough (6 classes): all
              sequences of <= 2 requests over the full alphabet in both positions, plus
              all sequences of 3 requests whose first two are *history steps* (accepted changes of a dynamic limit, of a
              parameter carrying limits, or of a parameter with struct members - the only values the answer to a later
              request depends on) and whose last ranges over the full alphabet.  States are deduplicated on canon; after an
              accepted change the explorer returns to the state by a real `change` back to the previous value (same
              canonical state, still a real request sequence); a problem found on a node that has answered other requests
              is confirmed on a fresh node with exactly (history, request) before it is recorded with that minimal case.
  alphabet  = computed per state from the *reference* view of the shape (never from the implementation):
              every accessible x {valid payloads, bad/boundary payloads, partial structs, payloads around the current
              <p>_min/_max/_limits} for writable parameters; readonly / constant targets; commands with valid / bad /
              missing / superfluous argument; internal attribute names instead of wire names, unexported accessibles,
              parameters addressed as commands and vice versa, unknown module / accessible, unexported module
  oracle    = gate() written from the statement:
                name unknown / not exported         -> NoSuchModule | NoSuchParameter | NoSuchCommand, nothing happens
                parameter readonly or constant      -> ReadOnly, nothing happens
                payload can not denote a value      -> WrongType | RangeError, nothing happens
                payload violates the current limits or a check hook raises -> RangeError, nothing happens
                otherwise the driver function is called exactly once with the reference conversion of the payload
              'nothing happens' = driver log unchanged, cache snapshot (value, readerror, timestamp) of every
              parameter unchanged, no message on the activated second connection, no extra message on the first.

Oracle calibration
  * compared on exported values (the wrapper legitimately re-validates what the dispatcher validated); in addition
    refmodel.judge must accept (payload -> value the driver received, previous = cached value).
  * 'a partial struct merged into the current value': the statement does not say how deep; the outermost struct must be
    merged, for a struct nested inside it both readings are admitted (merged with the current member, or replacing it).
  * MUST accept only *canonical* payloads (ref_export): int for int/scaled/enum, int|float for double, true/false for
    bool, text for string/blob, complete or partial structs whose merge with the current value is complete.  The other
    members of values.valid (true for an int, 5.0 for an int, 0/1 for a bool ...) and every boundary payload MAY be
    accepted or refused; when accepted the value received must still pass judge, the limits and the hooks.
  * error class: name errors and ReadOnly exactly; for bad payloads WrongType or RangeError, sharpened only where
    the statement's word 'fitting' is unambiguous: JSON kind that can never match the type -> WrongType, number of
    the right kind beyond the static limits by more than one unit -> RangeError.  Limits / hooks -> RangeError.
    Missing / superfluous command argument -> WrongType or RangeError.  When several reasons apply (readonly target
    and ill-typed payload) any of their classes is accepted.  An unexported module may answer NoSuchModule or
    NoSuchParameter / NoSuchCommand.
  * a writable parameter without write_ method has no driver function: 'reaches the driver' is then 'changes the
    cache'; on acceptance the new cache value is what is judged.
  * class GI enumerates where along the class hierarchy a parameter, its dynamic limit (subclass, plain mixin, same class)
    and its check hooks (ancestor, intermediate class, subclass) are defined; the limit and every hook must be enforced.
  * generated check hooks return None (a hook returning True is frappy's documented 'stop checking' and is not
    generated); a parameter never has both <p>_limits and <p>_min/_max; a class defining both a limit and a hook
    for the same parameter is not generated (frappy documents that the hook then replaces the automatic check).
  * every world holds three more modules of one small class (not exported with per-accessible export entries; plain;
    single accessibles hidden / renamed by the cfg), declared before or after each other depending on the class under test.
  * `do <module>` without ':' is counted as a request for a non-existing command.
"""
import base64
import json
import math
import re

from vf import core
from vf import genmods_node as G
from vf.catalog import types as T, values as V, refmodel as R

PROPERTY = 'C04'
NOVALUE = object()
PAYLOAD_CLASSES = {'WrongType', 'RangeError'}


# ---------------------------------------------------------------------------------------------
# reference conversion of a payload (canonical payloads only)

def ref_export(spec, x, prev=NOVALUE, deep=True):
    """the exported value a canonical valid payload denotes (prev = exported current value, for structs), else NOVALUE.
    deep=False: only the outermost struct is merged with the current value (a struct nested in it replaces the
    current member as a whole)"""
    k = spec[0]
    if k == 'double':
        if isinstance(x, bool) or not isinstance(x, (int, float)):
            return NOVALUE
        try:
            xf = float(x)
        except OverflowError:
            return NOVALUE
        lo, hi, _, _ = T.double_limits(spec)
        return xf if math.isfinite(xf) and lo <= xf <= hi else NOVALUE
    if k == 'int':
        if isinstance(x, bool) or not isinstance(x, int):
            return NOVALUE
        lo, hi = T.int_limits(spec)
        return x if lo <= x <= hi else NOVALUE
    if k == 'scaled':
        if isinstance(x, bool) or not isinstance(x, int):
            return NOVALUE
        scale, lo, hi = T.scaled_limits(spec)
        return x if round(lo / scale) <= x <= round(hi / scale) else NOVALUE
    if k == 'bool':
        return x if isinstance(x, bool) else NOVALUE
    if k == 'enum':
        members = dict(spec[1])
        if isinstance(x, str):
            return members.get(x, NOVALUE)
        if isinstance(x, int) and not isinstance(x, bool) and x in members.values():
            return x
        return NOVALUE
    if k == 'string':
        if not isinstance(x, str) or len(x) < spec[1] or (spec[2] is not None and len(x) > spec[2]):
            return NOVALUE
        if '\0' in x or (not spec[3] and not x.isascii()):
            return NOVALUE
        return x
    if k == 'blob':
        if not isinstance(x, str):
            return NOVALUE
        b = R.strict_b64(x)
        if b is None or base64.b64encode(b).decode('ascii') != x or not spec[1] <= len(b) <= spec[2]:
            return NOVALUE
        return x
    if k == 'array':
        if not isinstance(x, list) or not spec[2] <= len(x) <= spec[3]:
            return NOVALUE
        res = [ref_export(spec[1], e, NOVALUE, deep) for e in x]
        return NOVALUE if any(r is NOVALUE for r in res) else res
    if k == 'tuple':
        if not isinstance(x, list) or len(x) != len(spec[1]):
            return NOVALUE
        res = [ref_export(m, e, NOVALUE, deep) for m, e in zip(spec[1], x)]
        return NOVALUE if any(r is NOVALUE for r in res) else res
    if k == 'struct':
        if not isinstance(x, dict):
            return NOVALUE
        members = dict(spec[1])
        optional = set(members) if spec[2] is None else set(spec[2])
        if set(x) - set(members):
            return NOVALUE
        if set(members) - optional - set(x):
            return NOVALUE      # only optional members may be omitted in a change
        res = dict(prev) if isinstance(prev, dict) else {}
        for name, e in x.items():
            r = ref_export(members[name], e, res.get(name, NOVALUE) if deep else NOVALUE, deep)
            if r is NOVALUE:
                return NOVALUE
            res[name] = r
        return res
    raise ValueError(spec)


def json_kind_mismatch(spec, x):
    """True if the JSON kind of x can never denote a value of the type (top level only)"""
    k = spec[0]
    if k in ('double', 'int', 'scaled'):
        return x is None or isinstance(x, (str, list, dict))
    if k == 'bool':
        return x is None or isinstance(x, (str, list, dict))
    if k == 'enum':
        return x is None or isinstance(x, (list, dict))
    if k in ('string', 'blob'):
        return not isinstance(x, str)
    if k in ('array', 'tuple'):
        return not isinstance(x, list)
    if k == 'struct':
        return not isinstance(x, dict)
    return False


def clearly_out_of_range(spec, x):
    k = spec[0]
    if isinstance(x, bool) or not isinstance(x, (int, float)):
        return False
    if isinstance(x, float) and not math.isfinite(x):
        return False
    if k == 'double':
        lo, hi, _, _ = T.double_limits(spec)
        return abs(x) < 1e300 and (x < lo - 1 or x > hi + 1)
    if k == 'int' and isinstance(x, int):
        lo, hi = T.int_limits(spec)
        return abs(x) < 1e300 and (x < lo - 1 or x > hi + 1)
    if k == 'scaled' and isinstance(x, int):
        scale, lo, hi = T.scaled_limits(spec)
        return abs(x) < 1e300 and (x < round(lo / scale) - 1 or x > round(hi / scale) + 1)
    return False


def payload_classes(spec, x):
    if json_kind_mismatch(spec, x):
        return {'WrongType'}
    if clearly_out_of_range(spec, x):
        return {'RangeError'}
    return set(PAYLOAD_CLASSES)


def kind_of(x):
    return R.kindname(x)


# ---------------------------------------------------------------------------------------------
# alphabet (from the reference view of the shape and the exported state)

MOD, HIDDEN_MOD = 'm', 'hm'
PLAIN_MOD, PARTIAL_MOD = 'vm', 'pm'     # further instances of the hidden module's class: plain / single accessibles hidden


def L(action, mod, name, x=NOVALUE, why='', hist=False):
    rec = {'a': action, 'mod': mod, 'name': name, 'why': why}
    if hist:
        rec['hist'] = True      # a history step: its acceptance changes how later requests must be answered
    if x is not NOVALUE:
        rec['x'] = V.enc(x)
    return rec


def letter_payload(letter):
    return V.dec(letter['x']) if 'x' in letter else None


def line_of(letter):
    spec = letter['mod'] if letter['name'] is None else f"{letter['mod']}:{letter['name']}"
    text = f"{letter['a']} {spec}"
    if 'x' in letter:
        text += ' ' + json.dumps(letter_payload(letter))
    return text.encode('utf-8')


def step_of(spec):
    return {'double': 0.5, 'int': 1, 'scaled': 1}.get(spec[0])


def partial_structs(spec):
    res = []
    if spec[0] == 'struct' and len(spec[1]) > 1:
        for name, m in spec[1]:
            vals = V.valid(m, 'wire')
            for v in (vals[0], vals[-1]):
                res.append({name: v})
    return res


def writable(rec):
    return rec['mode'] in ('rw_write', 'rw_nowrite')


def matters(rec):
    """the current value of this parameter influences the answer to later requests: dynamic limits, parameters
    carrying limits (their own undo / limit interplay) and parameters with struct members (merge with the current value)"""
    return bool(rec.get('limit_of') or rec.get('limits') or R.has_struct(rec['spec']))


def alphabet(ref, state, tier='quick'):
    """list of letters for module MOD given the exported state {attr: exported value}"""
    out = []
    seen = set()

    def add(letter):
        key = json.dumps(letter, sort_keys=True)
        if key not in seen:
            seen.add(key)
            out.append(letter)

    params, commands = ref['params'], ref['commands']
    wires = {r['wire'] for r in list(params.values()) + list(commands.values()) if r['wire']}
    for attr, rec in params.items():
        spec = rec['spec']
        good = V.valid(spec, 'wire')
        wire = rec['wire']
        if wire and writable(rec):
            h = matters(rec)
            for x in good:
                add(L('change', MOD, wire, x, 'valid', h))
            for x in V.bad(spec, 'wire'):
                add(L('change', MOD, wire, x, 'bad'))
            for x in partial_structs(spec):
                add(L('change', MOD, wire, x, 'partial', h))
            if spec[0] == 'struct':
                for x, nbad in V.cands(spec, 'wire', 1):
                    if nbad:
                        add(L('change', MOD, wire, x, 'bad-member'))
            st = step_of(spec)
            for lname in rec.get('limits', []):
                cur = state.get(lname)
                lims = cur if isinstance(cur, list) else [cur]
                for lim in lims:
                    if isinstance(lim, (int, float)) and not isinstance(lim, bool):
                        for x in (lim - st, lim, lim + st):
                            add(L('change', MOD, wire, x, 'around-limit', True))
                        if spec[0] == 'double':
                            # at every decade of distance from the CURRENT limit, inside and outside (a tolerance of the
                            # datatype must not soften a dynamic limit), and at fractions of the absolute resolution
                            deltas = [abs(lim) * 10.0 ** -k if lim else 10.0 ** -k for k in range(3, 13)]
                            if spec[3]:
                                deltas += [spec[3] * f for f in (0.25, 0.5, 1.0, 1.5)]
                            for dlt in deltas:
                                for x in (lim - dlt, lim + dlt):
                                    if x != lim:
                                        add(L('change', MOD, wire, x, 'near-limit'))
        elif wire:
            for x in (good[0], good[-1], None, 'abc', [1]):
                add(L('change', MOD, wire, x, 'not-writable'))
        # wrong names for this parameter
        wrong = {attr, '_' + attr} - wires
        for name in sorted(wrong):
            for x in (good[0], 'abc'):
                add(L('change', MOD, name, x, 'wrong-name'))
        if wire:
            add(L('do', MOD, wire, NOVALUE, 'param-as-command'))
            add(L('do', MOD, wire, good[0], 'param-as-command'))
    for attr, rec in commands.items():
        wire = rec['wire']
        arg = rec['arg']
        args = [NOVALUE, None]
        if arg:
            args += V.valid(arg, 'wire') + V.bad(arg, 'wire') + partial_structs(arg)
        else:
            args += [0, 1, '', 'x', [], {}, False, [1, 2], {'a': 1}]
        if wire and not rec.get('foreign'):
            for x in args:
                add(L('do', MOD, wire, x, 'command'))
        elif wire:
            # inherited command of the base class (not a recording one): only the refusals are decidable
            for x in args:
                if x is not NOVALUE and x is not None and not arg:
                    add(L('do', MOD, wire, x, 'command'))
        for name in sorted({attr, '_' + attr} - wires):
            add(L('do', MOD, name, NOVALUE, 'wrong-name'))
            if arg:
                add(L('do', MOD, name, V.valid(arg, 'wire')[0], 'wrong-name'))
        if wire:
            add(L('change', MOD, wire, 1, 'command-as-param'))
    # unknown names, missing accessible, unexported module
    for x in (1, 'abc'):
        add(L('change', 'nomod', 'target', x, 'unknown-module'))
        add(L('change', MOD, 'nope', x, 'unknown-name'))
        add(L('change', MOD, '_nope', x, 'unknown-name'))
        add(L('change', MOD, '', x, 'unknown-name'))
        add(L('change', MOD, ':', x, 'unknown-name'))
    add(L('change', 'nomod', None, 1, 'unknown-module'))
    add(L('do', 'nomod', 'stop', NOVALUE, 'unknown-module'))
    add(L('do', MOD, 'nope', NOVALUE, 'unknown-name'))
    add(L('do', MOD, '', NOVALUE, 'unknown-name'))
    add(L('do', MOD, None, NOVALUE, 'no-accessible'))
    if 'target' not in params:
        add(L('change', MOD, None, 1, 'no-accessible'))
    # the unexported neighbour (its cfg carries per-accessible export entries): every candidate name, both request kinds
    hnames = G.hidden_names()
    for name in sorted(hnames['param'] | hnames['command']):
        for x in (0, 1):
            add(L('change', HIDDEN_MOD, name, x, 'unexported-module'))
        add(L('do', HIDDEN_MOD, name, NOVALUE, 'unexported-module'))
        add(L('do', HIDDEN_MOD, name, 1, 'unexported-module'))
    add(L('change', HIDDEN_MOD, None, 1, 'unexported-module'))
    # the instance of the same class in which the cfg hides / renames single accessibles: the names the plain instance of
    # the class has must not work here
    gone = G.partial_gone_names()
    for name in sorted(gone['param']):
        for x in (0, 1):
            add(L('change', PARTIAL_MOD, name, x, 'accessible-hidden-by-cfg'))
        add(L('do', PARTIAL_MOD, name, NOVALUE, 'accessible-hidden-by-cfg'))
    for name in sorted(gone['command']):
        add(L('do', PARTIAL_MOD, name, NOVALUE, 'accessible-hidden-by-cfg'))
        add(L('do', PARTIAL_MOD, name, 1, 'accessible-hidden-by-cfg'))
        add(L('change', PARTIAL_MOD, name, 1, 'accessible-hidden-by-cfg'))
    add(L('change', PARTIAL_MOD, None, 1, 'accessible-hidden-by-cfg'))
    return out


# ---------------------------------------------------------------------------------------------
# the gate: what the statement demands for one request in one state

class Exp:
    def __init__(self, verdict, classes=(), reason='', rec=None, kind=None, value=NOVALUE):
        self.verdict = verdict      # 'refuse' | 'accept' | 'either'
        self.classes = set(classes)  # admissible error classes when refused
        self.reason = reason
        self.rec = rec              # reference record of the addressed accessible (None for name errors)
        self.kind = kind            # 'param' | 'command'
        self.value = value          # reference conversion (exported) when known
        self.alt = value            # admissible alternative: nested structs not merged with the current value


def by_wire(table, name):
    for attr, rec in table.items():
        if rec['wire'] is not None and rec['wire'] == name:
            return attr, rec
    return None, None


def limits_ok(rec, ev, state):
    """ev satisfies the current <p>_min / _max / _limits (all given as exported values)"""
    for lname in rec.get('limits', []):
        cur = state[lname]
        if lname.endswith('_min') and not ev >= cur:
            return False
        if lname.endswith('_max') and not ev <= cur:
            return False
        if lname.endswith('_limits') and not cur[0] <= ev <= cur[1]:
            return False
    names = rec.get('limits', [])
    mn = [n for n in names if n.endswith('_min')]
    mx = [n for n in names if n.endswith('_max')]
    if mn and mx and state[mn[0]] > state[mx[0]]:
        return False
    return True


def hooks_ok(rec, ev):
    for chk in rec.get('checks', []):
        op, thr = chk['op'], chk['thr']
        if (op == 'gt' and ev > thr) or (op == 'lt' and ev < thr) or (op == 'eq' and ev == thr):
            return False
    return True


def gate(ref, letter, state):
    action, mod, name = letter['a'], letter['mod'], letter['name']
    x = letter_payload(letter)
    nosuch = 'NoSuchParameter' if action == 'change' else 'NoSuchCommand'
    if mod == PARTIAL_MOD:
        return Exp('refuse', {nosuch}, 'accessible-hidden-by-cfg')
    if mod not in (MOD, HIDDEN_MOD):
        return Exp('refuse', {'NoSuchModule'}, 'unknown-module')
    if mod == HIDDEN_MOD:
        return Exp('refuse', {'NoSuchModule', nosuch}, 'unexported-module')
    if name is None:
        if action == 'change':
            name = 'target'     # SECoP: a bare module name addresses its main parameter for change
        else:
            return Exp('refuse', {'NoSuchCommand', 'ProtocolError'}, 'do-without-accessible')
    if action == 'change':
        attr, rec = by_wire(ref['params'], name)
        if rec is None:
            return Exp('refuse', {'NoSuchParameter'}, 'no-such-parameter')
        spec = rec['spec']
        if not writable(rec):
            classes = {'ReadOnly'}
            if ref_export(spec, x, state.get(attr)) is NOVALUE:
                classes |= payload_classes(spec, x)
            return Exp('refuse', classes, 'constant' if rec['mode'] == 'const' else 'readonly', rec, 'param')
        ev = ref_export(spec, x, state.get(attr))
        if ev is NOVALUE:
            # not a canonical valid payload: if it can not denote a value it must be refused - that is decided after the
            # fact by judge(); here: either
            return Exp('either', payload_classes(spec, x), 'payload', rec, 'param')
        if not limits_ok(rec, ev, state):
            return Exp('refuse', {'RangeError'}, 'limit', rec, 'param', ev)
        if not hooks_ok(rec, ev):
            return Exp('refuse', {'RangeError'}, 'check-hook', rec, 'param', ev)
        exp = Exp('accept', (), 'valid', rec, 'param', ev)
        exp.alt = ref_export(spec, x, state.get(attr), deep=False)
        return exp
    # do
    attr, rec = by_wire(ref['commands'], name)
    if rec is None:
        return Exp('refuse', {'NoSuchCommand'}, 'no-such-command')
    arg = rec['arg']
    if arg is None:
        if x is None:
            return Exp('accept', (), 'valid', rec, 'command', None)
        return Exp('refuse', PAYLOAD_CLASSES, 'superfluous-argument', rec, 'command')
    if x is None:
        return Exp('refuse', PAYLOAD_CLASSES, 'missing-argument', rec, 'command')
    ev = ref_export(arg, x)
    if ev is NOVALUE:
        return Exp('either', payload_classes(arg, x), 'payload', rec, 'command')
    return Exp('accept', (), 'valid', rec, 'command', ev)


# ---------------------------------------------------------------------------------------------
# the world: one real node

class World:
    def __init__(self, shape, mode='request'):
        from vf import nodes
        G.install_clock()
        self.shape = shape
        self.mode = mode
        self.ref = G.reference(shape)
        cls = G.make_class(shape)
        # next to the module under test: three instances of ONE small class with different export settings (module not
        # exported; plain; single accessibles hidden / renamed by the cfg), declared in an order that alternates with the
        # class under test - what one instance registers must not leak into another
        hcls = G.make_class(G.HIDDEN_SHAPE)
        others = [(PLAIN_MOD, {'cls': hcls}),
                  (HIDDEN_MOD, dict(json.loads(json.dumps(G.HIDDEN_CFG)), cls=hcls)),
                  (PARTIAL_MOD, dict(json.loads(json.dumps(G.PARTIAL_CFG)), cls=hcls))]
        if sum(map(ord, shape['name'])) % 2:
            others.reverse()
        self.node = nodes.Node(dict([(MOD, {'cls': cls})] + others))
        # debug records are not consulted by this check; formatting several of them per request dominates the run time
        import logging
        for name, lg in list(logging.Logger.manager.loggerDict.items()):
            if name.startswith(self.node.log.name) and hasattr(lg, 'setLevel'):
                lg.setLevel(logging.WARNING)
        self.c1 = self.node.connect()
        self.c2 = self.node.connect()
        self.node.request(self.c2, 'activate')
        self.c2.take()
        self.executed = []     # letters executed since build
        self.snap = self.snapshot()
        self._canon = None

    def close(self):
        self.node.close()

    def mods(self):
        return self.node.secnode.modules

    def snapshot(self):
        snap = {}
        memo = self.__dict__.setdefault('_memo', {})
        for mname, mod in self.mods().items():
            for pname, pobj in mod.parameters.items():
                key = f'{mname}:{pname}'
                value, err, ts = pobj.value, pobj.readerror, pobj.timestamp
                old = memo.get(key)
                # cached values are immutable objects replaced on every update: the same objects mean the same entry
                if old is not None and old[0] is value and old[1] is err and old[2] == ts and old[3] is pobj.datatype:
                    snap[key] = old[4]
                    continue
                try:
                    ev = pobj.datatype.export_value(value)
                except Exception as e:
                    ev = f'unexportable:{type(e).__name__}'
                entry = (ev, None if err is None else f'{type(err).__name__}:{err}', ts)
                memo[key] = (value, err, ts, pobj.datatype, entry)
                snap[key] = entry
        return snap

    def state(self):
        """exported cache of module MOD: attr -> exported value"""
        return {k.split(':', 1)[1]: v[0] for k, v in self.snap.items() if k.startswith(MOD + ':')}

    def canon(self):
        if self._canon is None:
            self._canon = json.dumps(sorted((k, repr(v[0]), v[1]) for k, v in self.snap.items()))
        return self._canon

    def logs(self):
        return {mname: list(G.module_driver(mod).log) for mname, mod in self.mods().items()}

    def step(self, letter):
        """execute one request; returns the observation"""
        from vf import nodes
        G.CLOCK.advance(1.0)
        before = self.snap
        internal = {a: p.value for a, p in self.mods()[MOD].parameters.items()}
        nlog = {m: len(G.module_driver(mod).log) for m, mod in self.mods().items()}
        line = line_of(letter)
        extra = []
        if self.mode == 'tcp':
            out, _ = self.node.tcp([line + b'\n'])
            lines = out.split(b'\n')
            if lines and lines[-1] == b'':
                lines.pop()
            replies = []
            for ln in lines:
                parts = ln.decode('utf-8').split(' ', 2) + ['', '']
                replies.append((parts[0], parts[1] or None, json.loads(parts[2]) if parts[2] else None))
            reply = replies[0] if replies else ('', None, None)
            extra = replies[1:]
        else:
            reply = self.node.request(self.c1, line)
            extra = self.c1.take()
        self.executed.append(letter)
        delta = {m: G.module_driver(mod).log[nlog[m]:] for m, mod in self.mods().items()}
        self.snap = self.snapshot()
        self._canon = None
        return {'reply': reply, 'extra': extra, 'delta': delta, 'before': before, 'after': self.snap,
                'updates': self.c2.take(), 'internal': internal,
                'new_internal': {a: p.value for a, p in self.mods()[MOD].parameters.items()}}


def build(shape, history, mode='request'):
    w = World(shape, mode)
    for letter in history:
        w.step(letter)
    w.executed = []
    return w


# ---------------------------------------------------------------------------------------------
# judging one step

def norm(text):
    text = re.sub(r"'[^']*'|\"[^\"]*\"", 'Q', str(text))
    text = re.sub(r'-?\d+(\.\d+)?(e[-+]?\d+)?', 'N', text)
    return re.sub(r'[^A-Za-z0-9<>\[\].:=]+', '-', text).strip('-')[:80]


def target_class(exp, letter):
    if exp.rec is None:
        return exp.reason
    if exp.kind == 'param':
        rec = exp.rec
        return f"{rec['mode']}:{rec['spec'][0]}" + (':limit-param' if rec.get('limit_of') else '')
    return 'cmd:' + (exp.rec['arg'][0] if exp.rec['arg'] else 'noarg')


export_of = G.export_of


def jsonable(x):
    try:
        return json.loads(json.dumps(x, default=repr))
    except Exception:
        return repr(x)


def judge_step(ref, letter, state, obs):
    """-> (outcome label, [(signature, detail), ...])"""
    exp = gate(ref, letter, state)
    action = letter['a']
    x = letter_payload(letter)
    reply = obs['reply']
    problems = []
    tcls = target_class(exp, letter)
    head = f'C04:{action}:{tcls}:{exp.reason}'
    class Desc:     # built only when something is reported
        def __str__(self):
            return (f'request {line_of(letter).decode()!r} in state {json.dumps(state, default=repr)[:300]}: '
                    f'reply {json.dumps(jsonable(reply))[:200]}')
    desc = Desc()

    def bad(what, more=''):
        problems.append((f'{head}:{what}', f'{desc}; {more}'))

    delta = obs['delta']
    calls = [(m,) + tuple(e) for m, lst in delta.items() for e in lst]
    changed = sorted(k for k in obs['after'] if obs['after'][k] != obs['before'].get(k))
    refused = isinstance(reply[0], str) and reply[0].startswith('error_')
    okname = {'change': 'changed', 'do': 'done'}[action]
    if not refused and reply[0] != okname:
        bad(f'unexpected-reply-action', f'expected {okname} or error_{action}')
    wantspec = letter['mod'] if letter['name'] is None else f"{letter['mod']}:{letter['name']}"
    if (reply[1] or '') != wantspec:
        bad('reply-specifier-differs', f'expected specifier {wantspec!r}')
    if obs['extra']:
        bad('extra-messages-to-requester', f"also sent: {jsonable(obs['extra'])!r:.200}")

    if refused:
        outcome = f'refused:{exp.reason}'
        errclass = reply[2][0] if isinstance(reply[2], list) and reply[2] else None
        # nothing may have happened (reported first: an error report after the hardware was touched is one defect, not
        # three)
        short = f'C04:{action}:{tcls}'
        if calls:
            problems.append((f'{short}:error-reply-but-driver-called:{errclass}',
                             f'{desc}; driver calls: {calls!r:.300}; cache changes: {changed}'))
            return outcome, problems
        if changed:
            problems.append((f'{short}:error-reply-but-cache-changed:{errclass}', f'{desc}; changed: '
                             f'{[(k, obs["before"].get(k), obs["after"][k]) for k in changed]!r:.300}'))
            return outcome, problems
        if obs['updates']:
            bad('refused-but-update-emitted', f"activated connection received {jsonable(obs['updates'])!r:.300}")
        if exp.verdict == 'accept':
            bad(f'valid-request-refused:{errclass}', f'the reference conversion of the payload is {exp.value!r}')
        elif errclass not in exp.classes:
            # the signature names the request class and the classes involved, not the parameter kind
            why = ''
            if exp.verdict != 'refuse' and errclass in PAYLOAD_CLASSES:
                why = f':{kind_of(x)}-payload-for-{tcls.split(":")[-1]}'    # e.g. RangeError for a string offered as number
            sig = f'C04:{action}:{exp.reason}:error-class:{errclass}{why}'
            if errclass == 'InternalError':
                sig += ':' + norm(reply[2][1])
            problems.append((sig, f'{desc}; expected one of {sorted(exp.classes)}'))
        return outcome, problems

    # accepted
    outcome = f'accepted:{exp.reason}'
    if exp.verdict == 'refuse':
        bad('accepted' + (':driver-called' if calls else ':cache-changed' if changed else ''),
            f'must be refused with {sorted(exp.classes)}; driver calls {calls!r:.200}; cache changes {changed}')
        return outcome, problems
    rec = exp.rec
    if exp.kind == 'param':
        attr = rec['name']
        spec = rec['spec']
        key = f'{MOD}:{attr}'
        if rec['mode'] == 'rw_write':
            mine = [c for c in calls if c[:3] == (MOD, 'write', attr)]
            if len(calls) != 1 or len(mine) != 1:
                bad(f'driver-calls-{min(len(calls), 2)}', f'expected exactly one write_{attr}; driver calls {calls!r:.300}')
                return outcome, problems
            r = mine[0][3]
        else:
            if calls:
                bad('unexpected-driver-call', f'{calls!r:.300}')
            # no driver function: the new cache value is the 'hardware'
            r = obs['new_internal'][attr]
        prev = obs['internal'][attr]
        res = R.judge(spec, x, r, prev, 'wire')
        if res:
            bad(f'value-received:{res[2]}:{res[0]}:{norm(res[1])}',
                f'received {r!r} (previous {prev!r}): {res[1]}')
            return outcome, problems
        try:
            ev = export_of(spec, r)
        except Exception as e:
            bad(f'value-received-unexportable:{type(e).__name__}', f'received {r!r}')
            return outcome, problems
        if exp.value is not NOVALUE and ev != exp.value and ev != exp.alt:
            bad('value-received-differs-from-reference-conversion', f'received {ev!r}, reference {exp.value!r}')
        # whatever was accepted must satisfy the dynamic limits and the hooks
        if rec.get('limits') and isinstance(ev, (int, float)) and not limits_ok(rec, ev, state):
            bad('accepted-beyond-current-limit', f'received {ev!r}, limits ' +
                repr({n: state[n] for n in rec['limits']}))
        if rec.get('checks') and not hooks_ok(rec, ev):
            bad('accepted-against-check-hook', f'received {ev!r}, hooks {rec["checks"]}')
        # reply and cache
        newev = obs['after'][key][0]
        if json.loads(json.dumps(newev)) != ev:
            bad('cache-differs-from-value-written', f'cache now {newev!r}, written {ev!r}')
        data = reply[2]
        if not isinstance(data, list) or not data or json.loads(json.dumps(data[0])) != ev:
            bad('reply-differs-from-value-written', f'reply {jsonable(data)!r:.200}, written {ev!r}')
        others = [k for k in changed if k != key]
        if others:
            bad('other-parameters-changed', f'{others}')
        wire = f"{MOD}:{rec['wire']}"
        foreign = [u for u in obs['updates'] if u[1] != wire]
        if foreign:
            bad('updates-for-other-parameters', f'{jsonable(foreign)!r:.200}')
    else:
        cname = rec['name']
        mine = [c for c in calls if c[:3] == (MOD, 'do', cname)]
        if rec.get('foreign'):
            return outcome, problems
        if len(calls) != 1 or len(mine) != 1:
            bad(f'driver-calls-{min(len(calls), 2)}', f'expected exactly one call of {cname}; driver calls {calls!r:.300}')
            return outcome, problems
        args, kwargs = mine[0][3], mine[0][4]
        arg = rec['arg']
        if arg is None:
            if args or kwargs:
                bad('argument-passed-to-argumentless-command', f'{args!r} {kwargs!r}')
        else:
            from frappy.datatypes import ImmutableDict
            if arg[0] == 'tuple':
                r = tuple(args)
            elif arg[0] == 'struct':
                r = ImmutableDict(kwargs)
                if args:
                    bad('positional-arguments-for-struct', f'{args!r}')
            else:
                r = args[0] if len(args) == 1 else tuple(args)
                if len(args) != 1:
                    bad('argument-count', f'{args!r}')
                    return outcome, problems
            res = R.judge(arg, x, r, None, 'wire')
            if res:
                bad(f'argument-received:{res[2]}:{res[0]}:{norm(res[1])}', f'received {r!r}: {res[1]}')
                return outcome, problems
            try:
                ev = export_of(arg, r)
            except Exception as e:
                bad(f'argument-received-unexportable:{type(e).__name__}', f'received {r!r}')
                return outcome, problems
            if exp.value is not NOVALUE and ev != exp.value:
                bad('argument-received-differs-from-reference-conversion', f'received {ev!r}, reference {exp.value!r}')
        if changed:
            bad('command-changed-cache', f'{changed}')
    return outcome, problems


# ---------------------------------------------------------------------------------------------
# exploration

def bounds(tier):
    return dict(depth=2 if tier == 'quick' else 3)


def case_of(shape, history, letter, mode, pre=None):
    case = {'shape': shape, 'history': list(history), 'letter': letter, 'mode': mode}
    if pre:
        case['pre'] = list(pre)
    return case


def run_case(part, case, record=True):
    """fresh node, history, (refused requests executed before), the request -> outcome, problems"""
    w = build(case['shape'], case['history'] + case.get('pre', []), case['mode'])
    try:
        state = w.state()
        obs = w.step(case['letter'])
        part.transitions += len(case['history']) + len(case.get('pre', [])) + 1
        outcome, problems = judge_step(w.ref, case['letter'], state, obs)
    finally:
        w.close()
    if record:
        for sig, detail in problems:
            part.violation(sig, case, detail)
    return outcome, problems


def expand(shard):
    """all letters from the state reached by one history; returns Part with .succ = [(canon, history + [letter])]"""
    shape, history, mode, want_succ = shard
    part = core.Part()
    part.succ = []
    w = build(shape, history, mode)
    part.transitions += len(history)
    ref = w.ref
    state0 = w.state()
    canon0 = w.canon()
    letters = alphabet(ref, state0, core.TIER)
    depth = len(history) + 1
    represented = set()
    for letter in letters:
        state = w.state()
        pre = list(w.executed)
        obs = w.step(letter)
        part.evaluations += 1
        part.transitions += 1
        part.traces += 1
        outcome, problems = judge_step(ref, letter, state, obs)
        exp_reason = outcome
        part.outcomes[f"{letter['a']}:{exp_reason}"] += 1
        if letter['why'] not in ('valid',):
            part.nontrivial += 1
        if part.evaluations % 997 == 1:
            part.sample({'class': shape['name'], 'history': [line_of(h).decode() for h in history],
                         'request': line_of(letter).decode(), 'via': mode, 'outcome': outcome,
                         'reply': jsonable(obs['reply'])})
        if problems:
            case = case_of(shape, history, letter, mode)
            if pre:
                # found on a node that had already answered (refused) requests: confirm on a fresh node
                _, again = run_case(core.Part(), case, record=False)
                sigs = {s for s, _ in again}
                for sig, detail in problems:
                    if sig in sigs:
                        part.violation(sig, case, detail)
                    else:
                        part.violation(sig + ':only-after-refused-requests', case_of(shape, history, letter, mode, pre),
                                       detail + f'; not reproduced without the {len(pre)} refused requests before it')
            else:
                for sig, detail in problems:
                    part.violation(sig, case, detail)
        moved = w.canon() != canon0
        if moved and not problems:
            repkey = (letter['a'], letter['name'])
            if want_succ == 'all' or (want_succ in ('hist', 'rep') and letter.get('hist')) or \
                    (want_succ == 'rep' and repkey not in represented):
                represented.add(repkey)
                part.succ.append((shape['name'], w.canon(), list(history) + [letter]))
            # return to the state by a real request (change back to the previous exported value); the state reached is
            # the same canonical state, all histories stay real request sequences
            gexp = gate(ref, letter, state)
            if gexp.kind == 'param':
                w.step(L('change', MOD, gexp.rec['wire'], state[gexp.rec['name']], 'undo'))
                part.transitions += 1
                part.extra['undo_requests'] += 1
        if problems or w.canon() != canon0:
            w.close()
            w = build(shape, history, mode)
            part.transitions += len(history)
            part.extra['node_rebuilds'] += 1
    w.close()
    part.extra[f'requests_at_depth_{depth}'] += len(letters)
    part.extra[f'via_{mode}'] += len(letters)
    return part


def level(ctx, shards, name):
    """run expand over the shards in the pool, return (merged successors)"""
    import random
    shards = list(shards)
    random.Random(ctx.seed).shuffle(shards)
    calls = [(expand, s) for s in shards]
    if ctx.workers <= 1:
        results = map(core._worker_call, calls)
    else:
        results = ctx.pool().imap_unordered(core._worker_call, calls, chunksize=1)
    sub = core.Part()
    succ = []
    for res in results:
        if isinstance(res, tuple):
            raise core.Inconclusive(f'{res[0]}: {res[1]}')
        succ.extend(res.succ)
        sub.merge(res)
    ctx.add(sub, name)
    return succ


def run(ctx):
    _run_sequential(ctx)
    from vf.harness import c04conc
    c04conc.run_conc(ctx)       # two connections changing the same parameter at once (schedx)


def _run_sequential(ctx):
    b = bounds(ctx.tier)
    shapes = G.shapes(ctx.tier)
    byname = {s['name']: s for s in shapes}
    seen = set()
    frontier = []
    for shape in shapes:
        w = build(shape, [])
        seen.add((shape['name'], w.canon()))
        w.close()
        frontier.append((shape['name'], []))
    nstates = {0: len(frontier)}
    for d in range(1, b['depth'] + 1):
        last = d == b['depth']
        # sequences of length <= 2 range over the full alphabet in both positions; in longer sequences all but the last
        # request are history steps (accepted changes of a dynamic limit, of a parameter carrying limits, or of a parameter
        # with struct members - the only values later answers depend on)
        def want(hist):
            if last:
                return False
            if d == 1:
                # quick: every history step, and one representative accepted change of each other accessible
                return 'rep' if ctx.tier == 'quick' else 'all'
            return 'hist' if all(l.get('hist') for l in hist) else False
        shards = [(byname[n], hist, 'request', want(hist)) for n, hist in frontier]
        if d == 1:
            shards += [(byname[n], hist, 'tcp', False) for n, hist in frontier]
        succ = level(ctx, shards, f'depth{d}')
        if last:
            break
        # one representative history per new canonical state, chosen independently of shard order
        best = {}
        for cname, canon, hist in succ:
            key = (cname, canon)
            if key in seen:
                continue
            rank = json.dumps(hist, sort_keys=True)
            if key not in best or rank < best[key][0]:
                best[key] = (rank, hist)
        seen.update(best)
        frontier = [(key[0], best[key][1]) for key in sorted(best)]
        nstates[d] = len(frontier)
    ctx.total.states = len(seen)
    ctx.rule = ('explicit-state BFS over request sequences on a real in-process node built from the generated module '
                f'classes {[s["name"] for s in shapes]} (plus the same class as an unexported module): from every distinct '
                'canonical state (exported cache + read error of every parameter, which includes the dynamic limits) every '
                'letter of the alphabet computed for that state is executed (change of every accessible with all valid, '
                'bad/boundary, partial-struct, around-current-limit payloads; readonly / constant targets; do with valid / bad / '
                'missing / superfluous argument; internal, unexported, unknown and cross-kind names; unexported and unknown '
                f'module), to depth {b["depth"]} (quick: the first of 2 requests is a history step or one representative accepted '
                'change per other parameter, thorough: full alphabet in both positions; sequences of 3 requests: the first two restricted to history steps = accepted '
                'changes of a dynamic limit, of a parameter carrying limits or of a parameter with struct members); all depth-1 '
                'requests also through the real TCPRequestHandler. '
                'evaluations = requests judged; distinct_nontrivial = requests that are not plain valid payloads; '
                'states = distinct canonical states expanded or reached up to depth-1 of the bound; transitions = requests '
                'executed including history replays')
    ctx.coverage.update(bound_completed=('request sequences of length <= 2, first request = history step or one representative '
                                         'accepted change per other parameter' if ctx.tier == 'quick' else
                                         'request sequences of length <= 2 over the full alphabet + length 3 with history-step '
                                         'prefixes'), classes=len(shapes),
                        states_per_depth={str(k): v for k, v in nstates.items()})
    ctx.assume('module shapes, payloads and limits outside the generated family / catalogues are not covered',
               'poll threads are not running (requests are the only actors); time is virtual, +1 s per request',
               'generated check hooks return None and raise RangeError; write_ methods return None or the value given',
               'canonical-state merging assumes change/do handling reads no module state other than parameter values')


def replay(case):
    if case.get('kind') == 'conc':
        from vf.harness import c04conc
        return c04conc.replay_conc(case)
    part = core.Part()
    run_case(part, case)
    part.evaluations = part.traces = 1
    return part
