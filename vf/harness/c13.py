"""C13 - poller: bounded staleness, no starvation, survives failing reads.

Technique (enumx, virtual time): the real `Module._Module__pollThread` body (with the real PollInfo, callPollFunc,
writeInitParams, read/write wrappers, ReadHandler/CommonReadHandler/nopoll flags, announceUpdate and the real Dispatcher
behind it) is executed *in the exploring thread* - no OS thread, no real time:

  * `frappy.modulebase.time` is rebound to a shim whose time() returns the virtual clock and advances it by 1 us per call
    (so a zero interval makes progress; a body that keeps reading the clock without calling a driver or sleeping - a busy
    spin, seen only with mutants - is accelerated: after 64 such readings the step doubles per reading up to 10 ms);
    the clock starts at an epoch-like value (1e6 s + phase) because the poll code treats last_main == 0 as "due now";
  * the trigger event of the thread (`<owner>.triggerPoll`) is a FakeEvent: wait(t) returns at once if set, else advances
    the clock by t and ends the run by raising the private BaseException `Horizon` when the horizon is reached;
  * the drivers' doPoll / read_* / read handlers / initialReads / write_* are fakes that ask the explorer.

Choice points and their answers (answer 0 = default):
  * every fake driver call: (duration, outcome) in {0, 0.3 x I, 2.5 x I} x {ok, SECoPError (HardwareError), silent
    SECoPError, CommunicationFailedError, ValueError}; I = the module's configured pollinterval for doPoll (0.1 if that
    is 0), its slowinterval for everything else; default (0, ok) - or (0.3 x I, ok) in configurations with the 'busy' base
    profile (every call takes time; needed for a zero poll interval, where virtual time would not advance otherwise);
  * every wake-up (a wait on the trigger event that really sleeps): an external event, issued by "another thread" after
    a quarter of the sleep, in {none} + per polled module {pollinterval changed to each other value of {0.1, 1, 5} (through
    the real write_pollinterval wrapper -> announceUpdate -> PollInfo.update_interval), setFastPoll(True),
    setFastPoll(False), pollInfo.trigger(immediate=True)}; default none.  Configurations with the extended event
    alphabet ('events': 'ext') add setFastPoll(True, 0) per module - an effective interval of exactly 0 at run time.
All executions with <= 2 non-default answers are enumerated by vf.engines.enumx.explore_deviations (stateless DFS: replay
forced prefix, then defaults), per configuration = (module layout, (pollinterval, slowinterval) per polled module, clock
phase, base profile); the thorough tier has more and larger configurations (3 and 4 modules, all interval ratios) and
<= 3 deviations on the small ones (the 3rd within WINDOW = 3 choice points after the 2nd).  Layouts: a module with its own
thread; 2-4 modules served by the thread of a shared io module (plain, or polled itself with pollinterval 0 / 5);
parameters polled through read_*, ReadHandler (per key), CommonReadHandler (group), @nopoll (plain and handler), a
configured writable parameter (writeInitParams).  The horizon of an execution is 3 x the largest interval of the
Configurations with 'delivery': 'ops' add two more *delivery points* for an external event, at the poll thread's own
operations on its trigger event: right before wait() looks at the flag (between the computation of the wait time and the
sleep) and right before clear() - the places where a wake-up can be lost; events only, <= 2 deviations.
'Failure classes' configurations ('devs': 'classes') make the failure CLASS a dimension: a driver call may raise every SECoP
error class registered in the tree under test (SECoPError.name2class / clsname2class enumerated at run time, each also as
a silent instance) and 13 builtin exception classes, at every site (doPoll, read_* through the generated wrapper,
ReadHandler, CommonReadHandler, initialReads, write_* in writeInitParams); the class only matters where the exception is
handled, so <= 1 deviation, duration 0, wake-ups are no deviation points.
'pollcfg': 'default' configurations (about half) take the poll interval from the *class default* instead of a configured
value: a configured pollinterval goes through writeInitParams -> update_interval -> trigger() and sets the trigger event
before the main loop, a class default does not.  'hfactor' lengthens the horizon (default 3 x largest interval) for the
saturated multi-parameter configuration io+B+S, where a parameter must be able to be overdue for several sweeps.
'Events only' configurations ('devs': 'events') explore *sequences of external events* (fast on -> interval change -> fast
off ...): <= 3 deviations, placed at wake-ups only (driver calls keep their default answer and are not deviation points),
extended event alphabet, horizon EVENT_CAP = 36 choice points.  The horizon of an execution is 3 x the largest interval of the
configuration in virtual time, and at most CAP (42 quick / 64 thorough) choice points (a saturated thread or fast
polling would otherwise make one execution arbitrarily long).

The node is built once per shard through vf.nodes.Node (real Server._processCfg, start=False so that no thread is
started) and *reset* between executions (parameter value/timestamp/readerror, writeDict, callbacks, pollInfo); the
explorer's prefix-determinism check and a final comparison of the default execution with that on a freshly built node
guard the reset; replay() always uses a fresh node.

Oracle = monitors on the virtual-time trace, phrased from the statement (nothing is read from PollInfo):
  M1 main poll ("each module's main poll is started again no later than its poll interval plus one sweep of that
     thread's work"; "changing the poll interval or switching fast polling takes effect from the next wake-up"):
     for consecutive doPoll starts s, s' of a module (the end of the run counts as s') let D = s + I where I is the
     interval in effect; an interval-affecting external event at tc moves D to tc + I_new.  Between D and s'
       (a) the thread must not be idle: time not spent inside a driver call <= EPS = 1 ms, and
       (b) no poll function (same module, same function, same handler key) may be *started* twice, and at most ONE
           slow read (of any parameter of any module) may be started
     - i.e. the poll comes at the latest one sweep (every other function once) after it became due.
  M2 slow poll ("every polled parameter is refreshed no later than a bounded multiple of the slow interval"): for
     consecutive reads r, r' of a polled parameter (end of run counts as r') the time the thread was idle (not inside a
     driver call) between r and r' is <= 2 x slowinterval (+EPS); and (b, no starvation under load) once the parameter is
     overdue by 2 x slowinterval (counted from the completion of its previous read), no other polled parameter is read
     more than twice before it is read.
  M3 a read function marked @nopoll (plain or handler) is never called during the run.
  M4 the thread body ends only by the horizon: an exception leaving the body, or a return, is "the thread stopped".
     Delays of other modules by failing/slow functions are judged by M1/M2 on every module.
  M5 the started-callback fires at most once, and exactly once as soon as the body has reached its main loop.  The
     statement does not name the callback; it is the observable of "a failure at start-up does not stop the thread from
     coming up" (requested by the design, section C13) and is reported under its own signature.

Oracle calibration (weaker readings taken, derived by reading __pollThread of the unchanged tree):
  * "one sweep of work" is not turned into a number of seconds: M1(b) counts starts instead (weaker than any bound in
    seconds that sums one duration per function, and independent of how long the explorer makes a call).  The loop does
    all due main polls and then ONE slow read per turn, so between "due" and "started" there is at most the rest of a
    turn and the main polls of modules earlier in the list: every doPoll at most once and - because a turn makes ONE slow
    read, failed or not - at most one slow read (the one of the turn in which the poll became due).
  * the first main poll: the anchor is the started-callback with D = t_started + max(I, 0.1): after a communication
    failure at start-up the code deliberately waits 0.1 s "for reconnection" before polling; tolerated.
  * after an interval-affecting event D := tc + I_new also when that is *later* than the old D (slowing down is allowed
    to take effect at once) and also when it is later than s + I_new (the code polls at last_main + I_new; demanding only
    "within the new interval after the change" is the statement's wording).
  * pollinterval changed while fast polling: the code keeps the fast interval (update_interval ignores the change); the
    statement does not decide this, so I_new = max(fast interval, new value) is allowed. fast interval = 0.25 (default
    argument of setFastPoll; 0 after setFastPoll(True, 0)). After fast poll is switched off the interval in effect is the
    *latest* pollinterval, also when it was changed during fast polling (signature ...after=fast-off-after-interval-change).
    trigger(immediate=True) only may make polls earlier; nothing is demanded for it.
    Only upper bounds are checked: polling *more often* than the interval (e.g. fast poll never switched off) is not a
    violation of the statement.
  * M2: the multiple is 2 and only *idle* time counts ("refreshed within 2 x slowinterval plus whatever work the
    thread did in between"), because one slow read is made per loop turn and main polls go first: under load the time
    between two reads of a parameter grows with (#parameters x main-poll work) and the statement only says "bounded
    multiple".  On the unchanged tree the idle time between two reads never exceeds 1.5 x slowinterval (a parameter read
    in the second half of a slow period is skipped once by the `timestamp + slowinterval/2` rule).
    M2(b) is the count reading of the same sentence for a saturated thread (idle time 0): the code puts all polled
    parameters of all due modules into ONE list and makes one read per turn, so an overdue parameter waits at most for the
    rest of the running sweep plus the part of the next sweep before it - every other parameter at most twice (a
    parameter overdue by 2 x slowinterval is never skipped by the freshness rule and its module is due at every refill).
    The reads made at start-up count as reads; if they were cut short by a communication failure the started-callback
    time is the anchor.
  * a CommonReadHandler group is one polled item (any call of the common function refreshes all its parameters);
    parameters without read function or with a @nopoll function are not "polled parameters".
  * exceptions "of any kind" = Exception subclasses (ValueError as the representative non-SECoP error);
    KeyboardInterrupt/SystemExit are not injected.
Not covered: CPU time of the loop itself, real thread interleavings of setFastPoll/update_interval with the loop
(the set/clear race on the trigger event), reconnect callbacks of real IO modules (C16).
"""
import bisect

from vf import core
from vf.engines import enumx

PROPERTY = 'C13'

T0 = 1_000_000.0
TICK = 1e-6
EPS = 1e-3
FAST = 0.25
IVALS = (0.1, 1, 5)
DURS = (0, 0.3, 2.5)
OUTS = ('ok', 'err', 'silent', 'comfail', 'valueerror')
CALL_ANSWERS = [(d, o) for d in DURS for o in OUTS]       # index 0 = (0, 'ok')


def call_answers(base):
    """answers of a driver call; the default (index 0) is (0, ok), or (0.3 x I, ok) for the 'busy' base profile in which
    every call takes time (needed for a zero poll interval: virtual time would not advance otherwise)"""
    first = (0.3, 'ok') if base == 'busy' else (0, 'ok')
    return [first] + [x for x in CALL_ANSWERS if x != first]
EVENT_FRACTION = 0.25
EVENT_CAP = 36           # horizon in choice points of the 'events only' configurations


class Horizon(BaseException):
    """ends one execution (never caught by frappy code: not an Exception)"""


# ---------------------------------------------------------------------------------------------
# the environment of one execution

class Run:
    def __init__(self, cfg, forced, horizon, cap):
        self.cfg = cfg
        self.forced = forced
        self.t = T0 + cfg.get('phase', 0)
        self.t_begin = self.t
        self.horizon = self.t + horizon
        self.cap = cap
        self.pos = 0
        self.arity = []
        self.trace = []          # ('call', mod, fn, t0, t1, out) | ('wait', t0, t1) | ('event', t, kind, mod, val)
        #                          | ('started', t)
        self.taken = []          # (pos, description) of non-default answers
        self.end = None
        self.ncalls = 0
        self.capped = False
        self.event_alphabet = None
        self.modules = {}
        self.spin = 0
        self.tick = TICK
        self.spun = False
        self.escaped_injected = False
        self.ops_delivery = cfg.get('delivery') == 'ops'
        self.answers = class_answers() if cfg.get('devs') == 'classes' else call_answers(cfg.get('base', 'idle'))

    # --- clock
    def time(self):
        # 1 us per clock reading; a body that keeps reading the clock without calling a driver or sleeping (a busy
        # spin) is accelerated: after 64 such readings the step doubles per reading (at most 10 ms)
        self.spin += 1
        if self.spin > 64:
            self.tick = min(self.tick * 2, 0.01)
            self.spun = True
        self.t += self.tick
        return self.t

    def worked(self):
        self.spin = 0
        self.tick = TICK

    def choice(self, n):
        if self.t >= self.horizon:
            raise Horizon
        if self.pos >= self.cap:
            self.capped = True
            raise Horizon
        i = self.pos
        self.pos += 1
        self.arity.append(n)
        a = self.forced.get(i, 0)
        if a >= n:
            raise core.Inconclusive(f'forced answer {a} at choice point {i} but arity {n}')
        return i, a

    # --- driver calls
    def call(self, mod, fn, interval):
        self.worked()
        # in an 'events only' configuration driver calls take their default answer and are no deviation points (arity 1)
        i, a = self.choice(1 if self.cfg.get('devs') == 'events' else len(self.answers))
        dur, out = self.answers[a]
        dur *= interval
        if a:
            self.taken.append((i, f'{mod.name}.{fn}: {dur:g}s {out}'))
        t0 = self.t
        self.t += dur
        self.ncalls += 1
        self.trace.append(('call', mod.name, fn, t0, self.t, out))
        if out == 'ok':
            return
        raise make_error(out)

    # --- wake-ups and the other operations on the trigger event
    def deliver(self, i, ev, where):
        kind, mname, val = ev
        self.taken.append((i, f'{where}: {kind} {mname} {val if val is not None else ""}'.strip()))
        self.trace.append(('event', self.t, kind, mname, val))
        self.apply_event(kind, self.modules[mname], val)

    def wait(self, event, timeout):
        if event.flag:
            return True
        self.worked()
        t0 = self.t
        timeout = 999 if timeout is None else timeout
        nev = len(self.event_alphabet)
        if self.cfg.get('devs') == 'classes':        # failure-class configurations: wake-ups are no deviation points
            nev = 1
        # delivery points of an external event: while the thread sleeps (after a quarter of the sleep), or - in
        # configurations with 'delivery': 'ops' - right before the wait looks at the flag, i.e. between the computation of
        # the wait time and the sleep (answers nev .. 2 nev - 2)
        i, a = self.choice(2 * nev - 1 if self.ops_delivery else nev)
        if a >= nev:
            self.deliver(i, self.event_alphabet[a - nev + 1], 'before-wait')
            if event.flag:
                self.trace.append(('wait', t0, self.t))
                return True
            a = 0
        ev = self.event_alphabet[a]
        rest = timeout
        if ev is not None:
            self.t += timeout * EVENT_FRACTION
            rest = timeout * (1 - EVENT_FRACTION)
            if self.t < self.horizon:
                self.deliver(i, ev, 'wake-up')
                if event.flag:
                    self.trace.append(('wait', t0, self.t))
                    return True
        self.t += rest
        if self.t >= self.horizon:
            self.t = self.horizon
            self.trace.append(('wait', t0, self.t))
            raise Horizon
        self.trace.append(('wait', t0, self.t))
        return event.flag

    def before_clear(self, event):
        """'delivery': 'ops' configurations: an external event may land right before the thread clears its trigger"""
        if not self.ops_delivery:
            return
        self.worked()
        i, a = self.choice(len(self.event_alphabet))
        if a:
            self.deliver(i, self.event_alphabet[a], 'before-clear')

    @staticmethod
    def apply_event(kind, mod, val):
        if kind == 'ival':
            mod.write_pollinterval(val)      # what `change <mod>:pollinterval <val>` does
        elif kind == 'fast':
            mod.setFastPoll(val)
        elif kind == 'fast0':
            mod.setFastPoll(True, 0)         # fast polling "as fast as possible": an interval of exactly 0
        elif kind == 'trig':
            mod.pollInfo.trigger(True)

    def started(self):
        self.trace.append(('started', self.t))


CUR = None     # the Run in progress (one per process at a time)


class TimeShim:
    """what frappy.modulebase sees as the `time` module"""
    @staticmethod
    def time():
        if CUR is None:          # module construction (configured values get a timestamp): one second before the run
            return T0 - 1.0
        return CUR.time()


class FakeEvent:
    """the trigger event of the poll thread"""
    def __init__(self):
        self.flag = False

    def set(self):
        self.flag = True

    def clear(self):
        CUR.before_clear(self)
        self.flag = False

    def is_set(self):
        return self.flag

    def wait(self, timeout=None):
        return CUR.wait(self, timeout)


_errors = {}


def make_error(out):
    if not _errors:
        from frappy.errors import HardwareError, CommunicationFailedError

        class SilentHardwareError(HardwareError):
            silent = True
        _errors.update(err=HardwareError, silent=SilentHardwareError, comfail=CommunicationFailedError,
                       valueerror=ValueError)
    if out in _errors:
        return _errors[out]('fake failure')
    name, _, flag = out.partition('/')         # failure-class catalogue: '<class name>[/silent]'
    exc = failure_classes()[name]('fake failure')
    if flag == 'silent':
        exc.silent = True
    return exc


BUILTIN_FAILURES = (ValueError, TypeError, KeyError, IndexError, AttributeError, ZeroDivisionError, OSError, TimeoutError,
                    NotImplementedError, RuntimeError, AssertionError, StopIteration, Exception)
_failure_classes = {}


def failure_classes():
    """name -> class of every exception class a driver can raise: every SECoP error class registered in the tree under
    test (SECoPError.name2class and clsname2class, enumerated at run time - classes a change adds are covered, too),
    SECoPError itself, and a list of builtin exceptions"""
    if not _failure_classes:
        make_error('err')            # registers the harness' own silent class first (deterministic catalogue)
        from frappy.errors import SECoPError
        for c in [SECoPError] + list(SECoPError.name2class.values()) + list(SECoPError.clsname2class.values()):
            _failure_classes[c.__name__] = c
        for c in BUILTIN_FAILURES:
            _failure_classes.setdefault(c.__name__, c)
    return _failure_classes


def class_answers():
    """answers of a driver call in a 'failure classes' configuration: ok, then every class (duration 0), SECoP classes
    that are not silent by themselves also as a silent instance"""
    if not _class_answers:
        from frappy.errors import SECoPError
        _class_answers.append((0, 'ok'))
        for name, c in sorted(failure_classes().items()):
            _class_answers.append((0, name))
            if issubclass(c, SECoPError) and not c.silent:
                _class_answers.append((0, name + '/silent'))
    return _class_answers


_class_answers = []


# ---------------------------------------------------------------------------------------------
# fake drivers (module classes), built lazily because frappy is imported from the tree under test

_classes = {}


def classes():
    if _classes:
        return _classes
    import frappy.modulebase
    from frappy.core import Readable, Module, Parameter, FloatRange, Attached, nopoll
    from frappy.rwhandler import ReadHandler, CommonReadHandler
    frappy.modulebase.time = TimeShim

    def env(mod, fn, slow=True):
        mod.ncall += 1
        iv = mod.cfg_slow if slow else (mod.cfg_poll or 0.1)
        CUR.call(mod, fn, iv)
        return float(mod.ncall)

    class Fake:
        ncall = 0
        cfg_poll = cfg_slow = None

    class PlainIO(Fake, Module):
        """a communicator-like module owning the poll thread, not polled itself"""
        enablePoll = False

    class PolledIO(Fake, Module):
        """an io module that is polled itself; its pollinterval may be 0 (as for frappy.io.IOBase)"""
        pollinterval = Parameter('reconnect interval', FloatRange(0, 120), default=10, readonly=False)

        def doPoll(self):
            env(self, 'doPoll', slow=False)

    class ModA0(Fake, Readable):
        """value and p1 polled, p2 @nopoll, w1 written at start-up (writeInitParams); own poll thread"""
        p1 = Parameter('polled', FloatRange(), default=0)
        p2 = Parameter('not polled', FloatRange(), default=0)
        w1 = Parameter('written at startup when configured', FloatRange(), default=0, readonly=False)

        def doPoll(self):
            env(self, 'doPoll', slow=False)

        def initialReads(self):
            env(self, 'initialReads')

        def read_value(self):
            return env(self, 'read_value')

        def read_p1(self):
            return env(self, 'read_p1')

        @nopoll
        def read_p2(self):
            return env(self, 'read_p2')

        def write_w1(self, value):
            env(self, 'write_w1')
            return value

    class ModB(Fake, Readable):
        """h1, h2 read through a ReadHandler, c1+c2 through a CommonReadHandler, n1 through a @nopoll ReadHandler;
        value has no read function"""
        io = Attached(mandatory=False)
        h1 = Parameter('', FloatRange(), default=0)
        h2 = Parameter('', FloatRange(), default=0)
        c1 = Parameter('', FloatRange(), default=0)
        c2 = Parameter('', FloatRange(), default=0)
        n1 = Parameter('', FloatRange(), default=0)

        def doPoll(self):
            env(self, 'doPoll', slow=False)

        @ReadHandler(('h1', 'h2'))
        def read_h(self, pname):
            return env(self, 'read_h:' + pname)

        @CommonReadHandler(('c1', 'c2'))
        def read_c(self):
            v = env(self, 'read_c')
            self.c1 = v
            self.c2 = v

        @ReadHandler(('n1',))
        @nopoll
        def read_n(self, pname):
            return env(self, 'read_n:' + pname)

    class ModA(ModA0):
        """the same, served by the poll thread of its io module"""
        io = Attached(mandatory=False)

    class ModQ(Fake, Module):
        """not polled (enablePoll False) but with a start value to be written: it rides on the poll thread of its io
        module for that write only (wave 8, S13k / S15k)"""
        enablePoll = False
        cfg_poll = cfg_slow = 1
        io = Attached(mandatory=False)
        w1 = Parameter('written at startup when configured', FloatRange(), default=0, readonly=False)

        def write_w1(self, value):
            env(self, 'write_w1')
            return value

    class ModS0(Fake, Readable):
        """small module: one polled parameter (value); own poll thread"""

        def doPoll(self):
            env(self, 'doPoll', slow=False)

        def read_value(self):
            return env(self, 'read_value')

    class ModS(ModS0):
        """the same, served by the poll thread of its io module"""
        io = Attached(mandatory=False)

    _classes.update(PlainIO=PlainIO, PolledIO=PolledIO, ModA0=ModA0, ModA=ModA, ModB=ModB, ModS0=ModS0, ModS=ModS, ModQ=ModQ)
    return _classes


def with_default_interval(cls, pi):
    """subclass of a fake module class whose pollinterval parameter has the class default pi"""
    key = ('default-interval', cls.__name__, pi)
    if key not in _classes:
        from frappy.core import Parameter
        _classes[key] = type(cls.__name__, (cls,), {'pollinterval': Parameter(default=pi), '__doc__': cls.__doc__})
    return _classes[key]


# reference description of the fake classes, written by hand from the class bodies above (not derived from the poll
# flags frappy computes): refresh groups = polled items -> fake functions that refresh them; nopoll functions
REFRESH = {
    'PolledIO': {},
    'ModA': {'value': ('read_value',), 'p1': ('read_p1',)},
    'ModB': {'h1': ('read_h:h1',), 'h2': ('read_h:h2',), 'c1+c2': ('read_c',)},
    'ModS': {'value': ('read_value',)},
}
REFRESH.update(ModA0=REFRESH['ModA'], ModS0=REFRESH['ModS'])
NOPOLL = {'ModA': ('read_p2',), 'ModA0': ('read_p2',), 'ModB': ('read_n:n1',), 'ModS': (), 'ModS0': (), 'PolledIO': ()}
FNKIND = {'doPoll': 'doPoll', 'initialReads': 'initialReads', 'write_w1': 'write', 'read_value': 'read',
          'read_p1': 'read', 'read_p2': 'nopoll-read', 'read_h:h1': 'handler-read', 'read_h:h2': 'handler-read',
          'read_c': 'common-handler-read', 'read_n:n1': 'nopoll-handler-read'}

# layouts: (io class or None, [(module name, class name)]); polled modules in the order of the list
LAYOUTS = {
    'A': (None, [('a', 'ModA0')]),
    'S': (None, [('s', 'ModS0')]),
    'io+A+B': ('PlainIO', [('a', 'ModA'), ('b', 'ModB')]),
    'io+A+S': ('PlainIO', [('a', 'ModA'), ('s', 'ModS')]),
    'io+B+S': ('PlainIO', [('b', 'ModB'), ('s', 'ModS')]),
    'io+S+T': ('PlainIO', [('s', 'ModS'), ('t', 'ModS')]),
    'IO+S': ('PolledIO', [('io', 'PolledIO'), ('s', 'ModS')]),
    'IO+A': ('PolledIO', [('io', 'PolledIO'), ('a', 'ModA')]),
    'io+S+T+U': ('PlainIO', [('s', 'ModS'), ('t', 'ModS'), ('u', 'ModS')]),
    'io+A+S+T': ('PlainIO', [('a', 'ModA'), ('s', 'ModS'), ('t', 'ModS')]),
    'io+S+T+U+V': ('PlainIO', [('s', 'ModS'), ('t', 'ModS'), ('u', 'ModS'), ('v', 'ModS')]),
    'IO+B+S+T': ('PolledIO', [('io', 'PolledIO'), ('b', 'ModB'), ('s', 'ModS'), ('t', 'ModS')]),
    # third element: modules that are not polled and sit on the thread only for their start-up write
    'io+S+Q': ('PlainIO', [('s', 'ModS')], [('q', 'ModQ')]),
    'io+Q+S+T': ('PlainIO', [('s', 'ModS'), ('t', 'ModS')], [('q', 'ModQ')], 'first'),
    'IO+A+Q': ('PolledIO', [('io', 'PolledIO'), ('a', 'ModA')], [('q', 'ModQ')]),
}


class World:
    """one real node for one configuration, re-used (reset) for many executions"""

    def __init__(self, cfg):
        from vf import nodes
        cls = classes()
        self.cfg = cfg
        ioclass, mods = LAYOUTS[cfg['layout']][:2]
        riders = LAYOUTS[cfg['layout']][2] if len(LAYOUTS[cfg['layout']]) > 2 else []
        riders_first = len(LAYOUTS[cfg['layout']]) > 3
        modcfg = {}
        if ioclass:
            modcfg['io'] = {'cls': cls[ioclass]}
        if riders_first:
            for name, cname in riders:
                modcfg[name] = {'cls': cls[cname], 'io': 'io', 'w1': {'value': 1.5}}
        self.polled = []         # (name, class name, pollinterval, slowinterval)
        for (name, cname), (pi, si) in zip(mods, cfg['ivals']):
            c = modcfg.setdefault(name, {'cls': cls[cname]})
            if cfg.get('pollcfg') == 'default':
                # the poll interval is the *class default* (nothing configured): writeInitParams then has no pollinterval
                # to write, so nothing sets the trigger event before the main loop
                c['cls'] = with_default_interval(cls[cname], pi)
            else:
                c['pollinterval'] = {'value': pi}
            c['slowinterval'] = si
            if name != 'io' and ioclass:
                c['io'] = 'io'
            if cname in ('ModA', 'ModA0'):
                c['w1'] = {'value': 1.5}
            self.polled.append((name, cname, pi, si))
        for name, cname in riders:
            modcfg.setdefault(name, {'cls': cls[cname], 'io': 'io', 'w1': {'value': 1.5}})
        self.riders = [name for name, _ in riders]
        self.node = nodes.Node(modcfg)
        import logging
        self.mods = self.node.secnode.modules
        for lg in [self.node.log] + [m.log for m in self.mods.values()]:
            lg.setLevel(logging.WARNING)      # debug/info records are not needed (speed); errors are still formatted
        for name, _, pi, si in self.polled:
            self.mods[name].cfg_poll, self.mods[name].cfg_slow = pi, si
        self.owner = self.mods['io'] if ioclass else self.mods[mods[0][0]]
        if [m.name for m in self.owner.polledModules if m.enablePoll] != [p[0] for p in self.polled]:
            raise core.Inconclusive(f'unexpected polledModules {[m.name for m in self.owner.polledModules]}')
        self.saved = {}
        for name, m in self.mods.items():
            self.saved[name] = ({pn: (po.value, po.timestamp, po.readerror) for pn, po in m.parameters.items()},
                                dict(m.writeDict), {k: list(v) for k, v in m.paramCallbacks.items()})
        big = max(x for p in self.polled for x in p[2:])
        self.horizon = cfg.get('hfactor', 3) * big
        self.event_alphabet = [None]
        for name, _, pi, _ in self.polled:
            for v in IVALS:
                if v != pi:
                    self.event_alphabet.append(('ival', name, v))
            self.event_alphabet += [('fast', name, True), ('fast', name, False), ('trig', name, None)]
            if cfg.get('events') == 'ext':
                self.event_alphabet.append(('fast0', name, None))

    def reset(self):
        for name, m in self.mods.items():
            params, wd, cbs = self.saved[name]
            for pn, po in m.parameters.items():
                po.value, po.timestamp, po.readerror = params[pn]
            m.writeDict = dict(wd)
            m.paramCallbacks = {k: list(v) for k, v in cbs.items()}
            m.pollInfo = None
            m.ncall = 0
        self.node.loghandler.records.clear()

    def execute(self, forced, cap):
        """one execution of the real poll thread body; returns the finished Run"""
        global CUR
        self.reset()
        run = Run(self.cfg, forced, self.horizon, cap)
        run.event_alphabet = self.event_alphabet
        run.modules = self.mods
        self.owner.triggerPoll = FakeEvent()
        CUR = run
        try:
            self.owner._Module__pollThread(self.owner.polledModules, run.started)
            run.end = ('returned', None, None)
        except Horizon:
            run.end = ('horizon', None, None)
        except core.Inconclusive:
            raise
        except Exception as e:      # the thread would have died
            last = next((r for r in reversed(run.trace) if r[0] == 'call'), None)
            run.end = ('exception', type(e).__name__, last[2] if last else None)
            run.escaped_injected = e.args == ('fake failure',)
        finally:
            CUR = None
        run.t_end = run.t
        for p in forced:
            if p >= run.pos:
                raise core.Inconclusive(f'forced choice point {p} not reached ({run.pos} choice points)')
        return run

    def close(self):
        self.node.close()


# ---------------------------------------------------------------------------------------------
# monitors

class Busy:
    """index over the driver calls of one execution (chronological, never overlapping: one thread)"""

    def __init__(self, calls):
        self.calls = calls
        self.starts = [c[3] for c in calls]
        self.ends = [c[4] for c in calls]
        self.cum = [0.0]
        for c in calls:
            self.cum.append(self.cum[-1] + (c[4] - c[3]))

    def upto(self, x):
        """time spent inside driver calls before x"""
        i = bisect.bisect_right(self.starts, x)
        if i == 0:
            return 0.0
        return self.cum[i - 1] + min(self.ends[i - 1], x) - self.starts[i - 1]

    def idle(self, a, b):
        """time within (a, b) the thread did not spend inside a driver call (sleeping - or spinning)"""
        return (b - a) - (self.upto(b) - self.upto(a))

    def started_between(self, a, b):
        """calls with a < start < b"""
        return self.calls[bisect.bisect_right(self.starts, a):bisect.bisect_left(self.starts, b)]


def rel(run, t):
    return round(t - run.t_begin, 6)


def judge(world, run):
    """-> list of (signature, detail).  Reads only the trace, the configuration and the hand-written REFRESH/NOPOLL."""
    res = []
    trace = run.trace
    waits = [(r[1], r[2]) for r in trace if r[0] == 'wait']
    calls = [r for r in trace if r[0] == 'call']
    busy = Busy(calls)
    t_end = run.t_end
    kind, exc, where = run.end

    # M4 thread survives
    died = False
    if kind == 'exception':
        died = True
        last_out = calls[-1][5] if calls else 'ok'
        classes_mode = run.cfg.get('devs') == 'classes'
        if run.escaped_injected and last_out != 'ok':
            if classes_mode:      # one category per kind of class, not per class: the same defect, few signatures
                from frappy.errors import SECoPError, CommunicationFailedError
                c = failure_classes()[last_out.partition('/')[0]]
                cat = 'CommunicationFailedError' if issubclass(c, CommunicationFailedError) else \
                    'SECoPError' if issubclass(c, SECoPError) else 'non-SECoPError'
            else:
                cat = {'valueerror': 'non-SECoPError', 'comfail': 'CommunicationFailedError'}.get(last_out, 'SECoPError')
        else:
            cat = f'not-injected-{exc}'          # the poll code itself raised
            if classes_mode and last_out != 'ok':
                cat += f'-while-handling-{last_out}'
        res.append((f'C13:thread:killed-by-exception:in={FNKIND.get(where, where)}:{cat}',
                    f'{exc} left the poll thread body after the call of {where} at t={rel(run, t_end)}'))
    elif kind == 'returned':
        died = True
        res.append(('C13:thread:body-returned', f'the poll thread body returned at t={rel(run, t_end)} although '
                    f'modules are to be polled'))

    # M5 started callback
    started = [r[1] for r in trace if r[0] == 'started']
    in_main_loop = bool(waits) or any(r[2] == 'doPoll' for r in calls)
    if len(started) > 1:
        res.append(('C13:started-callback:fired-more-than-once', f'started callback fired {len(started)} times'))
    elif not started and in_main_loop and not died:
        res.append(('C13:started-callback:not-fired', 'poll loop running but the started callback never fired'))

    # start-up write of the modules that are not polled: handed to the driver exactly once, nothing else ever called
    for name in getattr(world, 'riders', ()):
        mine = [r for r in calls if r[1] == name]
        if [r[2] for r in mine if r[2] != 'write_w1']:
            res.append(('C13:not-polled-module:called-by-poller', f'{name}: {[r[2] for r in mine]}'))
        nwr = len([r for r in mine if r[2] == 'write_w1'])
        # after a failing call during start-up the tree gives the remaining start-up work up by design ("we do not continue
        # trying"): an absent write is demanded only of a start-up in which every driver call succeeded
        if nwr > 1 or (nwr == 0 and kind != 'exception' and all(r[5] == 'ok' for r in calls)):
            res.append((f'C13:not-polled-module:start-value-written-{nwr}-times', f'{name}.write_w1 called {nwr} times'))

    # M3 nopoll
    for name, cname, _, _ in world.polled:
        for r in calls:
            if r[1] == name and r[2] in NOPOLL[cname]:
                res.append((f'C13:nopoll:read-by-poller:{FNKIND[r[2]]}',
                            f'{name}.{r[2]} (marked nopoll) called by the poll thread at t={rel(run, r[3])}'))
                break

    if died:
        return res      # the bounds below are meaningless for a dead thread; the death is the violation

    events = [r for r in trace if r[0] == 'event']
    # M1 main polls
    for name, cname, pi, _ in world.polled:
        pollint, fast, ival, fast_ival, changed_in_fast = pi, False, pi, FAST, False
        due = None
        after = 'startup'
        items = sorted([(r[1], 0, r) for r in events if r[3] == name and r[2] in ('ival', 'fast', 'fast0')]
                       + [(r[3], 1, r) for r in calls if r[1] == name and r[2] == 'doPoll']
                       + [(t, 1, ('started', t)) for t in started[:1]] + [(t_end, 2, ('end', t_end))],
                       key=lambda x: x[:2])
        for t, _, r in items:
            if r[0] == 'event':
                if r[2] == 'ival':
                    pollint = r[4]
                    ival = max(fast_ival, pollint) if fast else pollint
                    changed_in_fast = fast
                    after = 'interval-change'
                elif r[2] == 'fast0':
                    fast, fast_ival, ival = True, 0, 0
                    after = 'fast-on-with-zero-interval'
                else:
                    fast = r[4]
                    if fast:
                        fast_ival = FAST
                    ival = fast_ival if fast else pollint
                    after = 'fast-on' if fast else 'fast-off-after-interval-change' if changed_in_fast else 'fast-off'
                    changed_in_fast = False
                if due is not None:
                    due = t + ival
                continue
            if r[0] == 'started':
                if due is None:
                    due = t + max(ival, 0.1)
                continue
            # a doPoll start or the end of the run
            if due is not None and t > due:
                idle = busy.idle(due, t)
                what = f'{name}.doPoll' + (' never started again' if r[0] == 'end' else f' started at t={rel(run, t)}')
                if idle > EPS:
                    res.append((f'C13:main-poll:thread-idle-past-due-time:after={after}',
                                f'{what}, was due at t={rel(run, due)} (interval {ival:g}); the thread was idle (not in any driver call) for '
                                f'{idle:.4g}s in between'))
                else:
                    cnt = {}
                    window = busy.started_between(due, t)
                    for c in window:
                        cnt[(c[1], c[2])] = cnt.get((c[1], c[2]), 0) + 1
                    twice = sorted(k for k, v in cnt.items() if v > 1)
                    slow = [c for c in window if FNKIND.get(c[2]) not in ('doPoll', 'initialReads', 'write')]
                    if len(slow) > 1 and not twice:
                        res.append((f'C13:main-poll:more-than-one-slow-read-while-due:after={after}',
                                    f'{what}, was due at t={rel(run, due)} (interval {ival:g}); meanwhile the slow reads '
                                    f'{", ".join(f"{c[1]}.{c[2]} ({c[5]}, {c[4] - c[3]:g}s)" for c in slow)} were started'))
                    if twice:
                        res.append((f'C13:main-poll:more-than-one-sweep-while-due:after={after}',
                                    f'{what}, was due at t={rel(run, due)} (interval {ival:g}); meanwhile '
                                    f'{", ".join(f"{m}.{f} x{cnt[(m, f)]}" for m, f in twice)} were started'))
            if r[0] == 'call':
                due = t + ival
                after = 'steady'

    # M2 slow polls: (a) idle time between two reads, (b) no starvation while overdue
    slow_fns = {(name, fn): (name, label) for name, cname, _, _ in world.polled for label, fns in REFRESH[cname].items()
                for fn in fns}

    def starved(name, label, since, until):
        """other polled items started more than twice within (since, until)"""
        cnt = {}
        for c in busy.started_between(since, until):
            item = slow_fns.get((c[1], c[2]))
            if item and item != (name, label):
                cnt[item] = cnt.get(item, 0) + 1
        return sorted((m, lb, n) for (m, lb), n in cnt.items() if n > 2)

    for name, cname, _, si in world.polled:
        for label, fns in REFRESH[cname].items():
            last = last_end = None
            reads = [r for r in trace if r[0] == 'started' or (r[0] == 'call' and r[1] == name and r[2] in fns)]
            for r in reads + [('end', t_end)]:
                t = r[1] if r[0] in ('started', 'end') else r[3]
                if r[0] == 'started':
                    if last is None:
                        last = last_end = t
                    continue
                if last is not None and t - last > 2 * si:
                    what = (f'{name}.{label}: read at t={rel(run, last)} and '
                            + (f'not again until the end of the run t={rel(run, t)}' if r[0] == 'end' else f'next at t={rel(run, t)}'))
                    idle = busy.idle(last, t)
                    if idle > 2 * si + EPS:
                        res.append((f'C13:slow-poll:not-refreshed-within-2-slowintervals:{FNKIND[fns[0]]}',
                                    f'{what}; the thread was idle for {idle:.4g}s in between (slowinterval {si:g})'))
                        break
                    # (b) counts from the *completion* of the previous read (that is when the value was refreshed)
                    more = starved(name, label, last_end + 2 * si, t)
                    if more:
                        res.append((f'C13:slow-poll:starved-while-overdue:{FNKIND[fns[0]]}',
                                    f'{what} (slowinterval {si:g}); after it was overdue by 2 x slowinterval '
                                    + ', '.join(f'{m}.{lb} was read {n} times' for m, lb, n in more)))
                        break
                if r[0] == 'call':
                    last, last_end = t, r[4]
    return res


def outcome_key(run, verdicts):
    devs = sorted({d.split(': ')[0].split('.')[-1].split(':')[0] + '/' + d.rsplit(' ', 1)[-1]
                   if d.split(':')[0] not in ('wake-up', 'before-wait', 'before-clear')
                   else (d.split()[1] if d.startswith('wake') else d.split(':')[0] + '/' + d.split()[1]) for _, d in run.taken})
    return f'{run.end[0]}|{"+".join(devs) or "default"}|{"VIOLATION" if verdicts else "ok"}'


# ---------------------------------------------------------------------------------------------
# configurations and shards

def configs(tier):
    """list of {'layout', 'ivals': [(pollinterval, slowinterval) per polled module], 'phase', 'base', 'bound'}"""
    res = []

    def add(layout, ivals, phase=0.37, base='idle', **extra):
        n = len(LAYOUTS[layout][1])
        if len(ivals) == 1:
            ivals = ivals * n
        cfg = dict({'layout': layout, 'ivals': [list(x) for x in ivals], 'phase': phase, 'base': base, 'bound': 2}, **extra)
        if cfg not in res:
            res.append(cfg)

    matched = [(0.1, 0.1), (1, 2), (5, 15), (5, 2)]
    # 'pollcfg': 'default' = the poll interval is the class default instead of a configured value (then writeInitParams has
    # nothing to write for it and nothing sets the trigger event before the main loop); about half of the configurations
    for pair in matched:
        if pair in ((1, 2), (5, 15)):
            add('A', [pair], pollcfg='default')
        else:
            add('A', [pair])
    add('A', [(1, 2)], phase=0, events='ext')
    add('S', [(1, 0.1)], pollcfg='default')
    add('io+S+T', [(1, 2)], pollcfg='default')
    add('io+S+T', [(5, 15), (1, 2)])
    add('io+S+T', [(0.1, 0.1), (1, 2)])
    add('io+A+S', [(5, 15)], pollcfg='default')
    add('io+A+B', [(1, 2)])
    add('IO+S', [(0, 2), (1, 2)], base='busy')
    add('io+S+T', [(1, 2)], base='busy', pollcfg='default')
    # a module that is not polled riding on the thread for its start-up write (declared after / before the polled ones)
    add('io+S+Q', [(1, 2)])
    add('io+Q+S+T', [(1, 2)], pollcfg='default')
    add('IO+A+Q', [(5, 2), (1, 2)])
    # the failure CLASS as a dimension: every exception class a driver can raise (all SECoP error classes of the tree under
    # test, silent and not, + builtins) x every site (doPoll, read_* through the wrapper, ReadHandler, CommonReadHandler,
    # initialReads, write_* in writeInitParams); the class only matters where the exception is handled: <= 1 deviation
    add('io+A+B', [(1, 2)], devs='classes', bound=1)
    # saturated thread whose first module has several slow parameters: its slow sweep (3 reads of 0.3 x slowinterval plus
    # the main polls of every turn) takes longer than its slowinterval, so it is due again whenever a sweep ends; the
    # horizon is 8 x the largest interval so that a parameter of the second module can be overdue for several sweeps
    add('io+B+S', [(1, 2)], base='busy', hfactor=8, pollcfg='default', bound=1 if tier == 'quick' else 2)
    # sequences of external events (fast on, interval change, fast off ...): <= 3 deviations, wake-ups only, with the
    # extended event alphabet (setFastPoll(True, 0))
    for layout, ivals in (('S', [(5, 15)]), ('S', [(1, 2)])):
        add(layout, ivals, devs='events', events='ext', bound=3, cap=EVENT_CAP)
    # external events landing at the thread's own operations on the trigger event (right before wait() looks at the flag,
    # right before clear()), i.e. between the computation of the wait time and the sleep: <= 2 deviations, events only
    for layout, ivals in (('S', [(5, 15)]), ('S', [(1, 2)]), ('io+S+T', [(5, 2), (1, 2)])):
        add(layout, ivals, devs='events', events='ext', delivery='ops', bound=2, cap=EVENT_CAP)
    if tier != 'quick':
        add('io+S+T', [(5, 2), (1, 2)], devs='events', events='ext', bound=3, cap=EVENT_CAP)
        add('IO+S', [(5, 15), (1, 2)], devs='events', events='ext', delivery='ops', bound=2, cap=EVENT_CAP)
        add('IO+S', [(5, 15), (1, 2)], phase=0)
        add('S', [(0.1, 2)])
        for pair in matched:
            add('io+A+B', [pair])
            add('IO+A', [pair])
        add('S', [(5, 0.1)])
        add('S', [(0.1, 15)])
        add('S', [(1, 15)])
        add('io+A+B', [(0.1, 2), (5, 2)])
        add('io+S+T+U', [(1, 2)], pollcfg='default')
        add('io+B+S', [(1, 0.1), (1, 2)], base='busy', hfactor=8)
        add('IO+A', [(5, 2)], devs='classes', bound=1, pollcfg='default')
        add('io+S+T+U', [(0.1, 0.1), (1, 2), (5, 15)])
        add('io+A+S+T', [(5, 2), (1, 2), (0.1, 2)])
        add('io+S+T+U+V', [(1, 2)])
        add('io+S+T+U+V', [(5, 15), (1, 2), (0.1, 0.1), (5, 2)])
        add('IO+B+S+T', [(0, 2), (1, 2), (5, 2), (1, 0.1)], base='busy')
        add('io+A+B', [(0.1, 0.1), (1, 2)], base='busy')
        # three deviations (the third within WINDOW choice points after the second) on the small configurations
        deep = []
        for pair in matched:
            deep.append(('A', [pair]))
            deep.append(('S', [pair]))
        deep += [('io+S+T', [(1, 2)]), ('IO+S', [(1, 2)])]
        for layout, ivals in deep:
            n = len(LAYOUTS[layout][1])
            new = {'layout': layout, 'ivals': [list(x) for x in (ivals * n if len(ivals) == 1 else ivals)], 'phase': 0.37,
                   'base': 'idle', 'bound': 2}
            res = [c for c in res if c != new]       # the deeper exploration includes the shallower one
            res.append(dict(new, bound=3))
    return res


def bounds(tier):
    """cap = horizon in choice points; window = how far behind the 2nd deviation the 3rd may lie (configurations with
    bound 3, thorough only)"""
    return dict(cap=42, window=3, nshards=16) if tier == 'quick' else dict(cap=64, window=3, nshards=32)


def explore(cfg, shard, b, part, only_forced=None):
    world = World(cfg)
    first = {}

    def run_one(forced, count):
        run = world.execute(forced, cfg.get('cap', b['cap']))
        if not forced:
            first['trace'] = list(run.trace)
        if count:
            verdicts = judge(world, run)
            record(part, cfg, forced, run, verdicts)
        return run.arity

    try:
        if only_forced is not None:
            run_one(only_forced, True)
        else:
            allow = None
            bound = cfg.get('bound', 2)
            if bound > 2 and cfg.get('devs') != 'events':
                def allow(forced, p, w=b['window']):
                    return len(forced) < 2 or p - max(forced) <= w
            enumx.explore_deviations(run_one, bound, shard=shard, allow=allow)
            # the reset between executions must be as good as a fresh node
            fresh = World(cfg)
            try:
                again = fresh.execute({}, cfg.get('cap', b['cap']))
            finally:
                fresh.close()
            if again.trace != first['trace']:
                raise core.Inconclusive(f'{cfg}: default execution on a re-used node differs from a fresh node')
    finally:
        world.close()


def record(part, cfg, forced, run, verdicts):
    part.evaluations += 1
    part.traces += 1
    part.states += 1
    part.nontrivial += 1 if forced else 0
    part.transitions += len(run.trace)
    part.extra['driver_calls'] += run.ncalls
    part.extra['wakeups'] += sum(1 for r in run.trace if r[0] == 'wait')
    part.extra['runs_ended_by_choice_point_horizon'] += 1 if run.capped else 0
    part.extra['runs_with_spinning_thread'] += 1 if run.spun else 0
    part.extra['failing_calls_survived'] += sum(1 for r in run.trace if r[0] == 'call' and r[5] != 'ok') \
        if run.end[0] == 'horizon' else 0
    part.outcomes[outcome_key(run, verdicts)] += 1
    if len(forced) == 2 and part.evaluations % 4999 == 0 or not forced:
        part.sample({'cfg': cfg, 'deviations': [d for _, d in run.taken], 'end': run.end[0],
                     'driver_calls': run.ncalls, 'virtual_seconds': rel(run, run.t_end)})
    for sig, detail in verdicts:
        case = {'cfg': cfg, 'forced': sorted([p, a] for p, a in forced.items()), 'cap': run.cap}
        text = (f'{cfg["layout"]} (pollinterval, slowinterval)={cfg["ivals"]} phase={cfg["phase"]} base={cfg.get("base", "idle")}; '
                f'deviations: {[d for _, d in run.taken] or "none"}; {detail}')
        old = part.violations.get(sig)
        part.violation(sig, case, text)
        if old is not None and len(case['forced']) < len(old[1]['forced']):
            old[1], old[2] = case, text[:2000]       # prefer the witness with fewer deviations


def shard_fn(shard):
    cfg, sh = shard
    part = core.Part()
    explore(cfg, sh, bounds(core.TIER), part)
    return part


def run(ctx):
    b = bounds(ctx.tier)
    cfgs = configs(ctx.tier)
    only = getattr(ctx, 'only', None)
    if only:                       # debugging aid (--only <layout>[,<layout>]): never used for a verdict that is reported
        cfgs = [c for c in cfgs if c['layout'] in only]
        ctx.exhaustive = False
    shards = [(cfg, (i, b['nshards'])) for cfg in cfgs for i in range(b['nshards'])]
    ctx.pmap(shard_fn, shards, name='poll_thread')
    deep = [c for c in cfgs if c['bound'] > 2]
    ctx.rule = (
        'enumeration: per configuration (module layout x (pollinterval, slowinterval) per polled module x clock phase x base '
        'duration profile) every execution of the real Module.__pollThread body in virtual time with <= 2 non-default '
        'environment answers' + (f' (<= 3 on {len(deep)} small configurations: the 3rd within {b["window"]} choice points after '
                                 'the 2nd, or - events-only configurations - all three at wake-ups)' if deep else '') +
        '; choice points = every fake doPoll/read_*/handler read/initialReads/write_* call (3 durations x 5 outcomes) and every '
        'real sleep on the trigger event (external event: none / pollinterval change / fast poll on / off / immediate trigger, '
        f'per polled module); horizon = 3 x largest interval and at most {b["cap"]} choice points. '
        'evaluations = executions; distinct_nontrivial = executions with at least one deviation (all distinct); '
        'states = distinct answer sequences; transitions = driver calls + sleeps + events executed')
    ctx.coverage.update(configurations=len(cfgs),
                        bound_completed='<= 2 deviations per execution'
                        + (f'; <= 3 on {len(deep)} configurations (3rd within {b["window"]} choice points of the 2nd, or external '
                           'events only)' if deep else ''),
                        layouts=sorted({c['layout'] for c in cfgs}))
    ctx.assume('durations, outcomes, intervals and events outside the stated alphabets are not covered',
               'external events happen while the thread sleeps (after a quarter of the sleep) or - delivery=ops configurations - '
               'right before the wait()/clear() operations of the thread on its trigger event; never during a driver call',
               'loop overhead is 1 us per clock reading',
               'KeyboardInterrupt / SystemExit are not injected')


def replay(case):
    part = core.Part()
    forced = {int(p): int(a) for p, a in case['forced']}
    b = dict(bounds('quick'), cap=case.get('cap', bounds('quick')['cap']))     # same horizon as the run that found it
    explore(case['cfg'], None, b, part, only_forced=forced)
    return part
