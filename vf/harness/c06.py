"""C06 - the node's self-description is true of its behaviour.

enumx: exhaustive enumeration of  nodes x described parameters x payload catalogue built from the *described*
datainfo x request kinds aimed at undescribed names, against a real in-process node (real SecNode, Dispatcher,
module machinery, get_descriptive_data; poll threads not started).

  nodes    = generated module classes G (vf/genmods_node.py) x valid configurations (plain; datatype properties, unit,
             start values, constants, module properties given in the cfg; a module with export=False next to it)
             + shipped configuration files that load without hardware (through frappy.config.load_config);
             G includes the convenience kinds of frappy.extparams (StructParam, FloatEnumParam; declared readonly and
             writable, with and without access methods) - their reference readonly flag is the class declaration
  per node : D1 describe twice (and once more after all probing): strict JSON (allow_nan=False), identical
             D2 listed modules / accessibles == reference (G: computed from the shape and the cfg by the SECoP wire-name
                rule; shipped: every described name is addressable, every attribute name that is not described is not)
             D3 cdt = frappy.datatypes.get_datatype(described datainfo): for every x in valid+bad catalogue built from the
                described datainfo, the node's answer to `change` (accept / refuse, changed value) agrees with
                cdt.validate(cdt.import_value(x), previous) - parameters without extra checks only
                and, independently of any frappy datatype, with the SECoP meaning of the described datainfo:
                node accepts => the payload is not outside the described value set (int / scaled / enum payloads and all
                lengths exact, double tolerant by the described resolution); canonical payload inside => node accepts and
                reports the value the payload denotes
             D4 every value the node emits for a parameter (initial updates on activate, read replies, changed replies,
                updates to an activated connection; fake driver fed with valid readings and with readings beyond the
                limits) is accepted by cdt.import_value and exports back to the same JSON
             D5 readonly / constant flags predict the refusal of change; read of a constant is exactly the described one -
                also when the class has its own read_<p> returning something else (constant given in the class or in the
                cfg), and every other message carrying the value of a described constant carries that constant
             D6 interface_classes / features == reference from the class hierarchy
             D7 no '$' placeholder left in any described unit
             D8 read / change / do / activate aimed at unexported modules, unexported accessibles, internal attribute
                names: refused, nothing delivered (no driver call, no message, no later update)

             D4b the module code assigns (mod.<p> = v) values of every kind the described datainfo excludes to parameters
                with and without read method, then the parameter is read: everything emitted goes through D4
             D9 commands from the description's side: for every described command every payload of valid + bad built from the
                described argument datainfo, resp. null and the falsy / truthy JSON values of every kind for a command
                described without argument: what the description does not allow is refused and runs nothing, canonical
                arguments run the command, the node agrees with get_datatype(argument datainfo), the result is importable
                with the described result datainfo (none described: null).  Inherited and shipped command functions are
                never run on purpose: there only the payloads that must be refused are sent.
             started nodes: nodes brought up through the real start path (Server._processCfg with startModule, modules with
                enablePoll off) whose module finalises datatypes (min/max, unit, maxchars) in startModule and changes them
                again at run time (min/max, unit, maxchars, maxlen, enum members): D1-D9 run on the description a client gets
                after the start, and once more on the description it gets after the run-time change

Oracle calibration
  * 'importable' is import_value + exact re-export, deliberately not validate(): frappy lets a reading exceed the
    declared limits and the statement only asks for importability.
  * D3 hands the client datatype the current value (last value the node reported) as `previous`: a struct lacking optional
    members is merged by the node with the current value, a client knows that value.  Any exception of the client
    datatype counts as 'rejects'.  Accept/accept additionally compares the changed value with the client's result.
  * D3 skips parameters with dynamic limits or check hooks (G: known from the shape) and, on shipped nodes,
    every parameter whose class defines write_<p> or check_<p> (driver code of shipped modules is never entered; on
    shipped nodes read is only issued for parameters without read_<p>).
  * D3 reference: 'outside' is only claimed where SECoP leaves no room (a wire integer beyond the described integer
    min/max, a non-member, a length out of bounds, the wrong JSON kind); true/false and 5.0 offered for an integer are
    judged by the integer they denote; +-Infinity for a double and null for an optional struct member are not judged;
    'must accept' only for canonical payloads (the C04 reference conversion), nested structs may or may not be merged.
  * D4 also judges the shape of an emitted value independently of frappy (kind, lengths, enum membership, struct members;
    import_value of a container ignores its length) - never the numeric min/max.
  * D4 readings: a reading the described datainfo can not import (too long a string / blob / array, a non-member) must
    come out as error_read / error_update; this is probed with readings valid for the class-level datatype where the
    configuration narrowed it.  Numbers beyond the described min/max are importable by design and may be emitted.
  * D5: readonly=false predicts 'not refused as ReadOnly' (a change may still be refused for its value).
  * D2 does not compare the order of names.  D6 reference: first of Drivable/Writable/Readable/Communicator in the MRO (by
    class identity), names of MRO classes that have frappy.modulebase.Feature as a direct base.
  * D7: a '$' that stays because the main value has no unit at all is reported under its own signature; modules whose
    class overrides applyMainUnit (substitution deferred to start-up, e.g. frappy_mlz.entangle asks the hardware for the
    unit) are skipped, because modules are not started here.
  * setting the internal `export` property of a parameter from the configuration is counted as a valid configuration
    (it is a settable property); its findings carry ':cfg-export' in the signature.
"""
import json
import math
import os
import re

from vf import core
from vf import genmods_node as G
from vf.harness import c04      # ref_export: the reference conversion of canonical payloads
from vf.catalog import types as T, values as V, refmodel as R

PROPERTY = 'C06'
MOD = 'm'


# ---------------------------------------------------------------------------------------------
# described datainfo -> catalogue spec (only for generating payloads)

def spec_from_datainfo(di):
    if not isinstance(di, dict):
        return None
    t = di.get('type')
    if t == 'double':
        return ('double', di.get('min'), di.get('max'), di.get('absolute_resolution'), di.get('relative_resolution'))
    if t == 'int':
        return ('int', di.get('min'), di.get('max'))
    if t == 'scaled':
        scale = di['scale']
        return ('scaled', scale, None if di.get('min') is None else di['min'] * scale,
                None if di.get('max') is None else di['max'] * scale)
    if t == 'bool':
        return ('bool',)
    if t == 'enum':
        return ('enum', tuple(sorted(di['members'].items(), key=lambda kv: kv[1])))
    if t == 'string':
        return ('string', di.get('minchars', 0), di.get('maxchars'), bool(di.get('isUTF8', False)))
    if t == 'blob':
        return ('blob', di.get('minbytes', 0), di['maxbytes'])
    if t == 'array':
        m = spec_from_datainfo(di['members'])
        return None if m is None else ('array', m, di.get('minlen', 0), di['maxlen'])
    if t == 'tuple':
        ms = [spec_from_datainfo(m) for m in di['members']]
        return None if any(m is None for m in ms) else ('tuple', tuple(ms))
    if t == 'struct':
        ms = [(n, spec_from_datainfo(m)) for n, m in di['members'].items()]
        if any(m is None for _, m in ms):
            return None
        opt = di.get('optional')
        return ('struct', tuple(ms), None if opt is None else tuple(opt))
    return None


def wire_of_native(spec, v):
    """wire form of a value as a programmer / configuration file writes it (enum member by name allowed)"""
    if spec[0] == 'enum' and isinstance(v, str):
        return dict(spec[1])[v]
    return G.export_of(spec, v)


def _integer_of(x):
    """the integer a JSON number denotes exactly, else None"""
    if isinstance(x, bool):
        return int(x)
    if isinstance(x, int):
        return x
    if isinstance(x, float) and math.isfinite(x) and x == math.floor(x):
        return int(x)
    return None


def outside_described(spec, x, numeric_bounds=True):
    """reason (text) why the payload x is certainly NOT a value of the described datainfo, else None.
    Written from the SECoP meaning of a datainfo, independent of frappy: integers (int, scaled, enum) and lengths are
    exact; doubles are tolerant by the described resolution (frappy documents clamping within it)"""
    k = spec[0]
    if k == 'double':
        if not R.is_num(x):
            return f'{R.kindname(x)} for a double'
        if isinstance(x, float) and math.isnan(x):
            return 'NaN'
        if isinstance(x, float) and math.isinf(x):
            return None
        try:
            xf = float(x)
        except OverflowError:
            return 'integer beyond the float range'
        lo, hi, absres, relres = T.double_limits(spec)
        slack = max(abs(xf * relres), absres) * (1 + 1e-9) + abs(xf) * 1e-15
        if numeric_bounds and not lo - slack <= xf <= hi + slack:
            return f'beyond the described min/max by more than the resolution'
        return None
    if k in ('int', 'scaled'):
        if not R.is_num(x):
            return f'{R.kindname(x)} for an integer'
        n = _integer_of(x)
        if n is None:
            return 'not an integral number'
        if k == 'int':
            lo, hi = T.int_limits(spec)
        else:
            scale, flo, fhi = T.scaled_limits(spec)
            lo, hi = round(flo / scale), round(fhi / scale)
        if numeric_bounds and not lo <= n <= hi:
            return 'integer outside the described min/max'
        return None
    if k == 'bool':
        if not R.is_num(x) or x not in (0, 1):
            return f'{R.kindname(x)} {x!r} for a bool'
        return None
    if k == 'enum':
        members = dict(spec[1])
        if isinstance(x, str):
            return None if x in members else 'name that is not a described member'
        if R.is_num(x):
            n = _integer_of(x)
            return None if n is not None and n in members.values() else 'number that is not a described member'
        return f'{R.kindname(x)} for an enum'
    if k == 'string':
        if not isinstance(x, str):
            return f'{R.kindname(x)} for a string'
        if len(x) < spec[1] or (spec[2] is not None and len(x) > spec[2]):
            return 'length outside the described minchars/maxchars'
        if not spec[3] and not x.isascii():
            return 'non-ASCII text for a string without isUTF8'
        return None
    if k == 'blob':
        if not isinstance(x, str):
            return f'{R.kindname(x)} for a blob'
        b = R.strict_b64(x)
        if b is None:
            return 'text that is not base64'
        if not spec[1] <= len(b) <= spec[2]:
            return 'length outside the described minbytes/maxbytes'
        return None
    if k == 'array':
        if not isinstance(x, list):
            return f'{R.kindname(x)} for an array'
        if not spec[2] <= len(x) <= spec[3]:
            return 'length outside the described minlen/maxlen'
        for e in x:
            why = outside_described(spec[1], e, numeric_bounds)
            if why:
                return 'element: ' + why
        return None
    if k == 'tuple':
        if not isinstance(x, list):
            return f'{R.kindname(x)} for a tuple'
        if len(x) != len(spec[1]):
            return 'wrong number of elements'
        for m, e in zip(spec[1], x):
            why = outside_described(m, e, numeric_bounds)
            if why:
                return 'element: ' + why
        return None
    if k == 'struct':
        if not isinstance(x, dict):
            return f'{R.kindname(x)} for a struct'
        members = dict(spec[1])
        optional = set(members) if spec[2] is None else set(spec[2])
        if set(x) - set(members):
            return 'member that is not described'
        if set(members) - optional - {n for n, e in x.items() if e is not None}:
            return 'mandatory member lacking'
        for n, e in x.items():
            if e is None:
                continue     # null for an optional member: frappy's documented goodie, not judged
            why = outside_described(members[n], e, numeric_bounds)
            if why:
                return f'member: ' + why
        return None
    return None


def jn(x):
    """JSON normal form for comparison (tuples -> lists); NaN-free input assumed"""
    return json.loads(json.dumps(x))


def jsonable(x):
    try:
        return json.loads(json.dumps(x, default=repr))
    except Exception:
        return repr(x)


def norm(text):
    text = re.sub(r"'[^']*'|\"[^\"]*\"", 'Q', str(text))
    text = re.sub(r'-?\d+(\.\d+)?(e[-+]?\d+)?', 'N', text)
    return re.sub(r'[^A-Za-z0-9<>\[\].:=]+', '-', text).strip('-')[:70]


def units_in(di, path=''):
    """all (path, unit) pairs of a datainfo"""
    res = []
    if isinstance(di, dict):
        if isinstance(di.get('unit'), str):
            res.append((path, di['unit']))
        for k in ('members', 'argument', 'result'):
            sub = di.get(k)
            if isinstance(sub, dict) and 'type' in sub:
                res += units_in(sub, f'{path}/{k}')
            elif isinstance(sub, dict):
                for n, m in sub.items():
                    res += units_in(m, f'{path}/{n}')
            elif isinstance(sub, list):
                for i, m in enumerate(sub):
                    res += units_in(m, f'{path}/{i}')
    return res


# ---------------------------------------------------------------------------------------------
# node specs

def gen_configs(shape):
    """valid configurations for a generated shape: (label, module cfg for MOD, expected effects)"""
    name = shape['name']
    cfgs = [('plain', {})]
    if name == 'GA':
        cfgs.append(('dtprops', {'value': {'unit': 'K', 'min': -50.0, 'max': 50.0}, 'target': {'min': 1.0, 'max': 9.0},
                                 'foo': {'value': 3, 'max': 6},
                                 'visibility': 'expert', 'group': 'grp', 'pollinterval': {'value': 7.0},
                                 'bar': {'min': -2}, 'lvl': {'fmtstr': '%.2f'}}))
        cfgs.append(('cfgconst', {'foo': {'constant': 7}, 'value': {'unit': 'mm'}}))
        cfgs.append(('cfgexport', {'foo': {'export': False}, 'bar': {'export': 'barx'}}))
    if name == 'GB':
        cfgs.append(('dtprops', {'s': {'maxchars': 2, 'value': 'ab'}, 'arr': {'maxlen': 2}, 'ro': {'default': 7},
                                 'bl': {'maxbytes': 2},
                                 'meaning': ['temperature', 10], 'e': {'value': 'b'}, 'c': {'visibility': 'expert'}}))
        cfgs.append(('cfgconst', {'s': {'constant': 'xy'}, 'ro': {'constant': 5}, 'st': {'constant': {'a': 1, 'b': 'q'}}}))
        cfgs.append(('cfgexport', {'hid': {'export': True}, 'cus': {'export': False}, 'cmd0': {'export': False}}))
    # the automatic module properties named in the configuration (values of OTHER classes of the catalogue): the
    # description must still state what the class really implements
    foreign = {'GA': (['Drivable'], ['HasGenA', 'HasGenB'], 'vf.genmods_node.GC'),
               'GB': (['Drivable'], ['HasGenB'], 'vf.genmods_node.GC'),
               'GC': (['Readable'], [], 'vf.genmods_node.GB'),
               'GD': (['Communicator'], ['HasGenA'], 'frappy.modules.Drivable')}.get(name)
    if foreign:
        cfgs.append(('autoprops', {'interface_classes': foreign[0], 'features': foreign[1], 'implementation': foreign[2]}))
    if name == 'GC':
        cfgs.append(('dtprops', {'value': {'unit': 'T'}, 'k': {'max': 9.0, 'unit': '$/s'}, 'target': {'value': 2.5},
                                 'sta': {'default': {'a': 3, 'b': False}}}))
    if name in ('GD', 'GF'):
        cfgs.append(('dtprops', {'value': {'unit': 'K', 'min': -10.0, 'max': 500.0}}))
    if name == 'GM':
        # MEMBER properties of container-typed parameters narrowed by the configuration (frappy forwards datatype properties
        # an array does not have itself to its members, through nested arrays too)
        cfgs.append(('members-narrowed', {'ad': {'min': 1.0, 'max': 10.0}, 'ai': {'min': 2, 'max': 5},
                                          'asc': {'min': -2.0, 'max': 2.0}, 'ast': {'maxchars': 2},
                                          'aad': {'min': 1.0, 'max': 10.0}, 'aai': {'max': 4}}))
    if name == 'GK':
        # datatype properties of parameters with read methods narrowed by the configuration
        cfgs.append(('narrowed', {'kr': {'max': 4}, 'krq': {'max': 2.5}}))
        # parameters with their own read_<p> (returning something else) made constant by the configuration
        cfgs.append(('cfgconst', {'kr': {'constant': 2}, 'krq': {'constant': 0.75}, 'kre': {'constant': 'a'}}))
    return cfgs


def node_specs(tier):
    specs = []
    for shape in G.shapes(tier) + G.shapes_c06(tier):
        for label, cfg in gen_configs(shape):
            specs.append({'kind': 'gen', 'shape': shape, 'cfg': cfg, 'label': f"{shape['name']}/{label}"})
    # nodes brought up through the real start path (Server._processCfg with startModule; no module polls), whose module
    # finalises datatypes in startModule and changes them again at run time
    for shape in G.shapes_c06(tier):
        if shape.get('deferred'):
            specs.append({'kind': 'gen', 'shape': shape, 'cfg': {}, 'start': True, 'label': f"{shape['name']}/started"})
    # a node whose module under test is itself unexported (and a visible neighbour)
    specs.append({'kind': 'gen', 'shape': G.shapes(tier)[1], 'cfg': {'export': False}, 'label': 'GB/unexported'})
    # ... and one whose cfg carries per-accessible export entries (True, custom name, False) for parameters and commands:
    # nothing of a module that is not exported may become reachable through them
    specs.append({'kind': 'gen', 'shape': G.shapes(tier)[1], 'label': 'GB/unexported-with-export-entries',
                  'cfg': {'export': False, 'hid': {'export': True}, 's': {'export': 'sx'}, 'e': {'export': True},
                          'cus': {'export': False}, 'cmd0': {'export': 'cx'}, 'cmdhid': {'export': True},
                          'cmdleaf': {'export': True}}})
    shipped = ['demo_cfg.py', 'sim_cfg.py', 'test_cfg.py']
    if tier == 'thorough':
        shipped = sorted(f for f in os.listdir(os.path.join(core.REPO, 'cfg')) if f.endswith('_cfg.py'))
    for f in shipped:
        specs.append({'kind': 'shipped', 'file': f, 'label': f'cfg/{f}'})
    return specs


class FakeThread:
    def __init__(self, *args, **kwds):
        self.daemon = True

    def start(self):
        pass

    def join(self, timeout=None):
        pass

    def is_alive(self):
        return False


class ThreadingShim:
    """`threading` as seen from shipped module code: everything real except that threads never start"""
    Thread = FakeThread

    def __getattr__(self, name):
        import threading
        return getattr(threading, name)


def neutralise_threads():
    import sys
    import threading
    shim = ThreadingShim()

    def mkthread(func, *args, **kwds):
        return FakeThread()
    for name, mod in list(sys.modules.items()):
        if mod is None or not name.startswith('frappy'):
            continue
        if name == 'frappy.lib':
            mod.mkthread = mkthread
            continue
        d = getattr(mod, '__dict__', {})
        if callable(d.get('mkthread')):
            mod.mkthread = mkthread
        if d.get('threading') is threading and name.startswith(('frappy_', 'frappy.simulation')):
            mod.threading = shim


class NodeUnderTest:
    """builds the node of a spec and the reference view of it"""
    def __init__(self, spec):
        from vf import nodes
        G.install_clock()
        self.spec = spec
        self.loaderror = None
        self.ref = None
        if spec['kind'] == 'gen':
            shape = spec['shape']
            cls = G.make_class(shape)
            hidden = G.HIDDEN_SHAPE if not spec.get('start') else dict(G.HIDDEN_SHAPE, name='GHN', nopoll=True)
            # three instances of one small class with different export settings (module hidden / plain / single accessibles
            # hidden or renamed by the cfg), in both declaration orders (alternating with the node)
            neighbours = [('vis', {'cls': G.make_class(hidden)}),
                          ('hm', dict(json.loads(json.dumps(G.HIDDEN_CFG)), cls=G.make_class(hidden))),
                          ('pv', dict(json.loads(json.dumps(G.PARTIAL_CFG)), cls=G.make_class(hidden)))]
            if sum(map(ord, spec['label'])) % 2:
                neighbours.reverse()
            modcfg = dict([(MOD, dict({'cls': cls}, **json.loads(json.dumps(spec['cfg']))))] + neighbours)
            self.ref = G.reference(shape)
            try:
                self.node = nodes.Node(modcfg, start=bool(spec.get('start')))
            except nodes.StartupRefused:
                raise
            except Exception as e:
                import traceback
                if 'get_descriptive_data' in traceback.format_exc():
                    self.loaderror = e      # the structure report of a valid configuration can not be produced
                    self.node = None
                else:
                    raise
        else:
            import frappy.config
            import frappy.lib
            log, _ = nodes.make_logger('cfgload')
            cfg = frappy.config.load_config([os.path.join(core.REPO, 'cfg', spec['file'])], log)
            nodes.drop_logger(log)
            node_cfg = dict(cfg.pop('node'))
            modcfg = {k: dict(v) for k, v in cfg.items()}
            # import the classes first, so that thread creation can be switched off before any module is built
            for mc in modcfg.values():
                try:
                    if isinstance(mc.get('cls'), str):
                        frappy.lib.get_class(mc['cls'])
                except Exception:
                    pass
            neutralise_threads()
            self.node = nodes.Node(modcfg, node_cfg={k: v for k, v in node_cfg.items()
                                                     if k in ('description', 'equipment_id')})
        self.modcfg = modcfg

    def close(self):
        if self.node is not None:
            self.node.close()


# ---------------------------------------------------------------------------------------------
# reference for generated nodes

def gen_reference(spec):
    """what a correct description of the generated node must contain: module -> {wire: info}"""
    out = {}
    for modname, shape, cfg in ((MOD, spec['shape'], spec['cfg']), ('vis', G.HIDDEN_SHAPE, {}),
                                ('hm', G.HIDDEN_SHAPE, G.HIDDEN_CFG), ('pv', G.HIDDEN_SHAPE, G.PARTIAL_CFG)):
        ref = G.reference(shape)
        exported = cfg.get('export', True) is not False
        accs = {}
        for kind, table in (('param', ref['params']), ('command', ref['commands'])):
            for attr, rec in table.items():
                exp = rec.get('export', True)
                pcfg = cfg.get(attr, {}) if isinstance(cfg.get(attr), dict) else {}
                if 'export' in pcfg:
                    exp = pcfg['export']
                wire = G.wire_name(attr, exp) if exported else None
                info = {'attr': attr, 'kind': kind, 'wire': wire, 'rec': rec, 'cfgexport': 'export' in pcfg}
                if kind == 'param':
                    const = rec['mode'] == 'const' or 'constant' in pcfg
                    info['readonly'] = const or rec['mode'] in ('ro', 'ro_write')
                    info['constant'] = const
                    # D3 compares plain parameters only: limits / hooks refuse valid payloads, the convenience kinds of
                    # frappy.extparams round (FloatEnumParam) or fan a write out to member parameters (StructParam)
                    info['extra_checks'] = bool(rec.get('limits') or rec.get('checks') or rec.get('xkind'))
                accs[attr] = info
        base = shape['base']
        out[modname] = {'exported': exported, 'accessibles': accs,
                        'interface_classes': [] if base == 'Module' else [base],
                        'features': list(shape.get('features', []))}
    return out


def mro_reference(mod):
    """interface class and features of a live module from its class hierarchy (by identity, not by name)"""
    import frappy.modules as M
    from frappy.modulebase import Feature
    mycls = type(mod).__mro__[1]     # below the generated wrapper class
    iface = [c.__name__ for c in mycls.__mro__ if c in (M.Drivable, M.Writable, M.Readable, M.Communicator)][:1]
    feats = [c.__name__ for c in mycls.__mro__ if Feature in c.__bases__]
    return iface, feats


# ---------------------------------------------------------------------------------------------
# the checks on one node

class Checker:
    def __init__(self, part, nut):
        self.part = part
        self.nut = nut
        self.node = nut.node
        self.spec = nut.spec
        self.label = nut.spec['label']
        self.kind = nut.spec['kind']
        self.c1 = self.node.connect()
        self.c2 = self.node.connect()     # the activated observer
        self.emitted = []                 # (source, module, wire, value)
        self.only = None
        self.phase = ''                   # prefix of the sub-case names ('' | 'after-runtime-change|')
        self.applied = {}                 # attr -> datatype properties the module has set itself (deferred finalisation)

    def viol(self, sig, sub, detail):
        sub = self.phase + sub
        if self.only is not None and sub != self.only:
            return      # replay of one recorded case: the whole node is re-executed identically, one sub-case is reported
        case = {'node': self.spec, 'sub': sub}
        self.part.violation(sig, case, f'node {self.label}: {detail}')

    def req(self, line, conn=None):
        G.CLOCK.advance(1.0)
        self.part.transitions += 1
        return self.node.request(conn or self.c1, line)

    def drvlen(self):
        return {m: len(G.module_driver(mod).log) for m, mod in self.node.secnode.modules.items()}

    def snapshot(self):
        snap = {}
        for mname, mod in self.node.secnode.modules.items():
            for pname, pobj in mod.parameters.items():
                snap[f'{mname}:{pname}'] = (repr(pobj.value), repr(pobj.readerror), pobj.timestamp)
        return snap

    def collect_updates(self, source):
        for msg in self.c2.take():
            if msg[0] == 'update' and isinstance(msg[2], list):
                m, _, w = msg[1].partition(':')
                self.emitted.append((source, m, w, msg[2][0]))

    # ---- D1
    def describe_checks(self):
        d1 = self.node.describe()
        d2 = self.node.describe()
        self.part.transitions += 2
        try:
            t1 = json.dumps(d1, allow_nan=False, sort_keys=True)
            t2 = json.dumps(d2, allow_nan=False, sort_keys=True)
        except (ValueError, TypeError) as e:
            self.viol(f'C06:describe:not-strict-json:{type(e).__name__}', 'describe', f'json.dumps(allow_nan=False): {e}')
            return None
        if t1 != t2:
            self.viol('C06:describe:unstable-between-calls', 'describe', 'two consecutive describe calls differ')
        self.desc_text = t1
        self.part.outcomes['describe:strict-and-stable' if t1 == t2 else 'describe:unstable'] += 1
        return json.loads(t1)

    def describe_again(self):
        t3 = json.dumps(self.node.describe(), allow_nan=False, sort_keys=True)
        if t3 != self.desc_text:
            a, b = json.loads(self.desc_text), json.loads(t3)
            diff = [f'{m}:{n}' for m in a['modules'] for n in a['modules'][m]['accessibles']
                    if b['modules'].get(m, {}).get('accessibles', {}).get(n) != a['modules'][m]['accessibles'][n]]
            self.viol('C06:describe:changed-after-requests', 'describe', f'description differs after the probing: {diff[:5]}')

    # ---- D2 / D6 / D7 for generated nodes
    def structure_gen(self, desc):
        ref = gen_reference(self.spec)
        want_mods = sorted(m for m, r in ref.items() if r['exported'])
        got_mods = sorted(desc['modules'])
        if want_mods != got_mods:
            self.viol('C06:listing:modules-differ', 'structure/modules', f'described modules {got_mods}, exported modules {want_mods}')
        for m in want_mods:
            if m not in desc['modules']:
                continue
            md = desc['modules'][m]
            want = {i['wire']: i for i in ref[m]['accessibles'].values() if i['wire']}
            got = md['accessibles']
            if set(want) != set(got):
                missing, extra = sorted(set(want) - set(got)), sorted(set(got) - set(want))
                cfgexp = any(i['cfgexport'] for i in ref[m]['accessibles'].values())
                self.viol('C06:listing:accessibles-differ' + (':cfg-export' if cfgexp else ''), f'structure/{m}/names',
                          f'module {m}: missing {missing}, not expected {extra}')
            self.part.outcomes['listing:' + ('equal' if set(want) == set(got) else 'differs')] += 1
            if md.get('interface_classes') != ref[m]['interface_classes']:
                self.viol('C06:interface_classes:differs-from-class-hierarchy', f'structure/{m}/interface',
                          f"module {m}: described {md.get('interface_classes')}, reference {ref[m]['interface_classes']}")
            if md.get('features') != ref[m]['features']:
                self.viol('C06:features:differ-from-class-hierarchy', f'structure/{m}/features',
                          f"module {m}: described {md.get('features')}, reference {ref[m]['features']}")
            for wire, info in want.items():
                if wire not in got or info['kind'] != 'param':
                    continue
                acc = got[wire]
                if 'readonly' not in acc or not isinstance(acc['readonly'], bool):
                    self.viol('C06:flags:readonly-flag-missing', f'structure/{m}/{wire}/flags', f'{m}:{wire} has no boolean readonly flag')
                elif acc['readonly'] != info['readonly']:
                    self.viol(f"C06:flags:readonly-{acc['readonly']}-but-reference-{info['readonly']}", f'structure/{m}/{wire}/flags',
                              f'{m}:{wire}')
                pcfg = self.spec['cfg'].get(info['attr']) if m == MOD else None
                # unit: the declared / configured unit with the placeholder replaced by the configured main unit
                cfg = self.spec['cfg'] if m == MOD else {}
                vcfg = cfg.get('value') if isinstance(cfg.get('value'), dict) else {}
                declared = pcfg['unit'] if isinstance(pcfg, dict) and 'unit' in pcfg else info['rec'].get('unit')
                if m == MOD and 'unit' in self.applied.get(info['attr'], {}):
                    declared = self.applied[info['attr']]['unit']      # the module has set the unit itself since
                if declared is not None and isinstance(acc.get('datainfo'), dict):
                    vinfo = ref[m]['accessibles'].get('value')
                    mainunit = vcfg['unit'] if 'unit' in vcfg else (vinfo['rec'].get('unit') or '') if vinfo else ''
                    want_unit = declared.replace('$', mainunit)
                    got_unit = acc['datainfo'].get('unit', '')
                    self.part.outcomes['unit-reference:' + ('equal' if got_unit == want_unit else 'differs')] += 1
                    if got_unit != want_unit and '$' not in got_unit:     # a placeholder left over is reported by D7
                        self.viol('C06:unit:described-unit-differs-from-declared-unit-with-main-unit', f'structure/{m}/{wire}/unit',
                                  f'{m}:{wire}: described unit {got_unit!r}, declared {declared!r} with main unit '
                                  f'{mainunit!r} gives {want_unit!r}')
                if info['constant'] and 'constant' in acc:
                    if isinstance(pcfg, dict) and 'constant' in pcfg:
                        want_const = wire_of_native(info['rec']['spec'], pcfg['constant'])
                    else:
                        want_const = wire_of_native(info['rec']['spec'], V.dec(info['rec']['default']))
                    if jn(acc['constant']) != jn(want_const):
                        self.viol('C06:flags:described-constant-differs-from-wire-form-of-the-constant', f'structure/{m}/{wire}/flags',
                                  f'{m}:{wire}: described constant {acc["constant"]!r}, the constant is {want_const!r} on the wire')
                if ('constant' in acc) != info['constant']:
                    self.viol('C06:flags:constant-' + ('missing' if info['constant'] else 'unexpected'), f'structure/{m}/{wire}/flags',
                              f'{m}:{wire}: described constant {acc.get("constant")!r}')
        return ref

    def structure_any(self, desc):
        """checks that need no shape: MRO reference, units, mandatory flag"""
        for m, md in desc['modules'].items():
            mod = self.node.secnode.modules.get(m)
            if mod is None:
                self.viol('C06:listing:described-module-does-not-exist', f'structure/{m}', f'module {m}')
                continue
            iface, feats = mro_reference(mod)
            if md.get('interface_classes') != iface:
                self.viol('C06:interface_classes:differs-from-class-hierarchy', f'structure/{m}/interface',
                          f"module {m}: described {md.get('interface_classes')}, class hierarchy gives {iface}")
            if md.get('features') != feats:
                self.viol('C06:features:differ-from-class-hierarchy', f'structure/{m}/features',
                          f"module {m}: described {md.get('features')}, class hierarchy gives {feats}")
            mycls = type(mod).__mro__[1]
            impl = f'{mycls.__module__}.{mycls.__name__}'
            if md.get('implementation') != impl:
                self.viol('C06:implementation:differs-from-the-class-of-the-module', f'structure/{m}/implementation',
                          f"module {m}: described {md.get('implementation')!r}, the module is an instance of {impl!r}")
            mainunit = md['accessibles'].get('value', {}).get('datainfo', {}).get('unit', '')
            from frappy.modulebase import Module
            deferred = type(mod).applyMainUnit is not Module.applyMainUnit
            if deferred:
                # the class substitutes the main unit itself at start-up (e.g. after asking the hardware for the unit);
                # modules are not started here, so a '$' proves nothing
                self.part.extra['modules_with_deferred_main_unit'] += 1
            for wire, acc in md['accessibles'].items():
                for path, unit in units_in(acc.get('datainfo') if not deferred else None):
                    self.part.outcomes['unit:' + ('placeholder' if '$' in unit else 'plain' if unit else 'none')] += 1
                    if '$' in unit:
                        self.viol('C06:unit:dollar-placeholder-left' + ('' if mainunit else ':main-value-has-no-unit'),
                                  f'structure/{m}/{wire}/unit', f'{m}:{wire}{path} is described with unit {unit!r} (unit of the main value: '
                                  f'{mainunit!r})')
                if acc.get('datainfo', {}).get('type') != 'command' and not isinstance(acc.get('readonly'), bool):
                    self.viol('C06:flags:readonly-flag-missing', f'structure/{m}/{wire}/flags', f'{m}:{wire} has no boolean readonly flag')

    # ---- D3 / D4 / D5 per described parameter
    def client_verdict(self, cdt, x, prevjson):
        try:
            prev = cdt.import_value(prevjson) if prevjson is not None else None
        except Exception:
            prev = None
        try:
            v = cdt.validate(cdt.import_value(x), previous=prev)
            return True, jn(cdt.export_value(v))
        except Exception as e:
            return False, f'{type(e).__name__}: {e}'

    def importable(self, cdt, m, wire, source, v):
        self.part.traces += 1
        try:
            json.dumps(v, allow_nan=False)
        except (ValueError, TypeError):
            self.viol(f'C06:emitted:{source}:not-strict-json', f'{m}:{wire}', f'{m}:{wire} emitted {v!r}')
            return
        try:
            iv = cdt.import_value(v)
            back = jn(cdt.export_value(iv))
        except Exception as e:
            self.part.outcomes['emitted:not-importable'] += 1
            self.viol(f'C06:emitted:{source}:{cdt.export_datatype().get("type")}:not-importable:{type(e).__name__}',
                      f'{m}:{wire}', f'{m}:{wire} emitted {v!r} ({source}); described datainfo '
                      f'{json.dumps(cdt.export_datatype())[:200]} refuses it: {e}')
            return
        spec = spec_from_datainfo(cdt.export_datatype())
        why = outside_described(spec, v, numeric_bounds=False) if spec else None
        if why:
            # import_value of a container does not look at its length: judge the shape independently (numbers beyond the
            # described min/max stay admitted, see calibration)
            self.part.outcomes['emitted:outside-described-shape'] += 1
            self.viol(f'C06:emitted:{source}:{spec[0]}:outside-the-described-datainfo:{norm(why)}', f'{m}:{wire}',
                      f'{m}:{wire} emitted {v!r} ({source}); described datainfo {json.dumps(cdt.export_datatype())[:200]}: {why}')
            return
        if back != jn(v):
            self.part.outcomes['emitted:changes-on-reimport'] += 1
            self.viol(f'C06:emitted:{source}:{cdt.export_datatype().get("type")}:reexport-differs', f'{m}:{wire}',
                      f'{m}:{wire} emitted {v!r} ({source}); import + export with the described datainfo gives {back!r}')
        else:
            self.part.outcomes['emitted:importable'] += 1

    def probe_param(self, m, wire, acc, info, may_change, may_read, rfunc_attr=None):
        """info: reference info (generated nodes) or None"""
        from frappy.datatypes import get_datatype
        part = self.part
        sub = f'{m}:{wire}'
        di = acc.get('datainfo')
        try:
            cdt = get_datatype(di, wire)
        except Exception as e:
            self.viol(f'C06:datainfo:not-constructible:{type(e).__name__}', sub, f'{sub}: get_datatype({di!r}): {e}')
            return
        spec = spec_from_datainfo(di)
        readonly = acc.get('readonly')
        const = acc.get('constant') if 'constant' in acc else None
        cur = None
        # --- read (D4, D5)
        if may_read:
            reply = self.req(f'read {sub}')
            self.collect_updates('update-after-read')
            ok = reply[0] == 'reply'
            part.outcomes['read:' + ('reply' if ok else f'error:{reply[2][0]}')] += 1
            if 'constant' in acc:
                part.evaluations += 1
                if not ok:
                    self.viol(f'C06:read-constant:error-reply:{reply[2][0]}', sub,
                              f'read {sub} of the described constant {const!r} answers {jsonable(reply)!r}')
                elif not (isinstance(reply[2], list) and len(reply[2]) == 2 and isinstance(reply[2][1], dict)
                          and jn(reply[2][0]) == jn(const)):
                    self.viol('C06:read-constant:reply-malformed', sub,
                              f'read {sub} of the described constant {const!r} answers {jsonable(reply)!r}, expected '
                              f'[{const!r}, {{qualifiers}}]')
            if ok and isinstance(reply[2], list) and reply[2]:
                cur = reply[2][0]
                if 'constant' not in acc:
                    self.emitted.append(('read-reply', m, wire, cur))
        # --- change against readonly / constant (D5)
        if readonly is True or 'constant' in acc:
            good = (V.valid(spec, 'wire') or [0])[0] if spec else 0
            before = self.snapshot()
            nlog = self.drvlen()
            reply = self.req(f'change {sub} {json.dumps(good)}')
            part.evaluations += 1
            part.outcomes[f'change-readonly:{reply[0]}:{reply[2][0] if reply[0].startswith("error") else ""}'] += 1
            if reply[0] != 'error_change' or reply[2][0] != 'ReadOnly':
                self.viol('C06:flags:readonly-described-but-change-' +
                          ('accepted' if reply[0] == 'changed' else f'answered-{reply[2][0]}'), sub,
                          f'{sub} is described readonly={readonly} constant={const!r}; change answers {jsonable(reply)!r}')
            if self.snapshot() != before or self.drvlen() != nlog or self.c2.take():
                self.viol('C06:flags:refused-change-had-effects', sub, f'change {sub} on a readonly parameter')
            return cdt
        if not may_change or spec is None:
            part.extra['params_not_probed_for_change'] += 1
            return cdt
        # --- D3: the described datainfo and the node agree on every payload
        mod = self.node.secnode.modules[m]
        pobj = mod.parameters.get(mod.accessiblename2attr.get(wire))
        if pobj is None:
            pobj = type('NoParam', (), {'value': None})()
        cands = V.valid(spec, 'wire') + V.bad(spec, 'wire')
        if spec[0] in ('struct', 'array', 'tuple'):
            # containers: also valid containers with one member replaced from the member's bad / boundary catalogue
            cands += [x for x, n in V.cands(spec, 'wire', 1) if n]
        class_spec = info['rec']['spec'] if info else None
        if class_spec is not None and class_spec != spec:
            # the configuration changed the datatype the class declares: everything valid for the class-level type (values
            # between the narrowed and the class-level range, at every depth) is offered as well
            cands += V.valid(class_spec, 'wire')
            if class_spec[0] in ('struct', 'array', 'tuple'):
                cands += [x for x, n in V.cands(class_spec, 'wire', 1) if n]
            part.extra['parameters_changed_with_class_level_payloads'] += 1
        seen = set()
        first_accept = True
        for x in cands:
            key = repr(x)
            if key in seen:
                continue
            seen.add(key)
            part.evaluations += 1
            part.states += 1
            caccept, cval = self.client_verdict(cdt, x, cur)
            before_value = repr(pobj.value)
            reply = self.req(f'change {sub} {json.dumps(x)}')
            self.collect_updates('update-after-change')
            naccept = reply[0] == 'changed'
            part.traces += 1
            part.outcomes[f'change:node-{"accepts" if naccept else "refuses"}:datainfo-{"accepts" if caccept else "refuses"}'] += 1
            if x not in V.valid(spec, 'wire'):
                part.nontrivial += 1
            if naccept and readonly is False:
                first_accept = False
            errclass = None if naccept else reply[2][0]
            if errclass in ('NoSuchParameter', 'NoSuchModule'):
                self.viol('C06:described-parameter-not-addressable', sub,
                          f'{sub} is described, but change {sub} {x!r} answers {jsonable(reply)!r}')
                break
            if errclass == 'ReadOnly':
                self.viol('C06:flags:readonly-false-but-change-refused-as-ReadOnly', sub, f'change {sub} {x!r}: {jsonable(reply)!r}')
                break
            # independent reference for the DESCRIBED datainfo (a differential against get_datatype alone is blind to a
            # change that affects node and client datatype alike)
            why_out = outside_described(spec, x)
            canon = c04.ref_export(spec, x, cur if isinstance(cur, dict) else c04.NOVALUE)
            part.outcomes['reference:' + ('outside' if why_out else 'canonical-inside' if canon is not c04.NOVALUE
                                          else 'undecided')] += 1
            if naccept and why_out:
                self.viol(f'C06:change-vs-described:{spec[0]}:node-accepts-payload-outside-the-described-datainfo:' +
                          norm(why_out), sub,
                          f'change {sub} {json.dumps(x)} is accepted ({jsonable(reply)!r:.160}), but the described datainfo '
                          f'{json.dumps(di)[:200]} excludes the payload: {why_out}')
            elif not naccept and canon is not c04.NOVALUE:
                self.viol(f'C06:change-vs-described:{spec[0]}:node-refuses-canonical-payload-inside-the-described-datainfo:'
                          f'{errclass}', sub,
                          f'change {sub} {json.dumps(x)} (current value {cur!r}) answers {jsonable(reply)!r:.200}, but the '
                          f'payload is a value of the described datainfo {json.dumps(di)[:200]}')
            elif naccept and canon is not c04.NOVALUE:
                alt = c04.ref_export(spec, x, cur if isinstance(cur, dict) else c04.NOVALUE, deep=False)
                if jn(reply[2][0]) != jn(canon) and jn(reply[2][0]) != jn(alt):
                    self.viol(f'C06:change-vs-described:{spec[0]}:changed-value-is-not-the-payload', sub,
                              f'change {sub} {json.dumps(x)}: node reports {jsonable(reply[2][0])!r}, the payload denotes '
                              f'{canon!r}')
            if naccept != caccept:
                self.viol(f'C06:change-vs-datainfo:{spec[0]}:node-{"accepts" if naccept else "refuses"}-datainfo-'
                          f'{"accepts" if caccept else "refuses"}:{R.kindname(x)}-payload', sub,
                          f'change {sub} {json.dumps(x)} (current value {cur!r}): node answers {jsonable(reply)!r:.200}, '
                          f'get_datatype({json.dumps(di)[:150]}) gives {cval!r}')
            elif naccept:
                nval = jn(reply[2][0])
                self.emitted.append(('changed-reply', m, wire, reply[2][0]))
                if nval != cval:
                    self.viol(f'C06:change-vs-datainfo:{spec[0]}:changed-value-differs', sub,
                              f'change {sub} {json.dumps(x)}: node reports {nval!r}, described datainfo converts to {cval!r}')
            if naccept:
                cur = reply[2][0]
            elif repr(pobj.value) != before_value:
                # an error reply although the value changed (judged by C04): keep the client's idea of the value current
                rr = self.req(f'read {sub}')
                self.collect_updates('update-after-read')
                if rr[0] != 'reply':
                    # the value can not even be read back any more: the mismatch is reported above, what the client should
                    # take as the current value is unknowable from here on
                    part.extra['parameters_abandoned_after_unreadable_value'] += 1
                    break
                cur = rr[2][0]
        return cdt

    def feed_readings(self, m, wire, attr, spec, class_spec=None):
        """D4: fake driver answers read_<p> with readings valid for the described datainfo, readings valid for the datatype
        the CLASS declares (the configuration may have narrowed it: such a reading must come out as an error, never as a
        value), and readings just beyond / far beyond the described bounds"""
        mod = self.node.secnode.modules[m]
        drv = G.module_driver(mod)
        readings = list(V.valid(spec, 'drv'))
        if class_spec is not None and class_spec != spec:
            readings += list(V.valid(class_spec, 'drv'))
            self.part.extra['parameters_read_with_class_level_readings'] += 1
        k = spec[0]
        if k == 'double':
            lo, hi, _, _ = T.double_limits(spec)
            readings += [x for x in (hi + 1.0, lo - 1.0, hi + 5.0, lo - 5.0, hi * 2 + 1) if abs(x) < 1e300]
        elif k == 'int':
            lo, hi = T.int_limits(spec)
            readings += [hi + 1, lo - 1, hi + 5, lo - 5]
        elif k == 'scaled':
            scale, lo, hi = T.scaled_limits(spec)
            readings += [hi + scale, lo - scale, hi + 5 * scale, lo - 5 * scale, lo + 0.4 * scale]
        elif k == 'string':
            if spec[2] is not None:
                readings += ['x' * (spec[2] + 1), 'x' * (spec[2] + 2)]
            if spec[1]:
                readings += ['x' * (spec[1] - 1)]
        elif k == 'blob':
            readings += [b'x' * (spec[2] + 1), b'x' * (spec[2] + 2)] + ([b'x' * (spec[1] - 1)] if spec[1] else [])
        elif k == 'array':
            e = V.valid(spec[1], 'drv')[0]
            readings += [[e] * (spec[3] + 1), [e] * (spec[3] + 2)] + ([[e] * (spec[2] - 1)] if spec[2] else [])
        elif k == 'enum':
            values = [v for _, v in spec[1]]
            readings += [max(values) + 1, min(values) - 1]
        seen, uniq = set(), []
        for r in readings:
            if repr(r) not in seen:
                seen.add(repr(r))
                uniq.append(r)
        readings = uniq
        for r in readings:
            drv.script[('read', attr)] = r
            reply = self.req(f'read {m}:{wire}')
            self.part.evaluations += 1
            self.part.outcomes['reading:' + ('reply' if reply[0] == 'reply' else f'error:{reply[2][0]}')] += 1
            if reply[0] == 'reply':
                self.emitted.append(('read-reply-of-driver-reading', m, wire, reply[2][0]))
            self.collect_updates('update-of-driver-reading')
        drv.script.pop(('read', attr), None)

    def assign_outside(self, md, mref):
        """the module code assigns values of every kind the described datainfo excludes (and valid ones in between) to
        parameters with and without read method; whatever the node emits afterwards (updates, read replies - a parameter
        without read method is answered from the cache) goes through D4"""
        mod = self.node.secnode.modules[MOD]
        part = self.part
        for wire, acc in md['accessibles'].items():
            di = acc.get('datainfo')
            if not isinstance(di, dict) or di.get('type') == 'command' or 'constant' in acc:
                continue
            infos = [i for i in mref['accessibles'].values() if i['wire'] == wire and i['kind'] == 'param']
            if not infos or infos[0]['rec'].get('xkind'):
                continue
            attr = infos[0]['attr']
            spec = spec_from_datainfo(di)
            if spec is None:
                continue
            k = spec[0]
            outside = []
            if k == 'string':
                outside += ['x' * ((spec[2] if spec[2] is not None else 40) + 17)] + (['x' * (spec[1] - 1)] if spec[1] else [])
                outside += [5, None]
            elif k == 'blob':
                outside += [b'x' * (spec[2] + 17), 'text', 5]
            elif k == 'array':
                e = V.valid(spec[1], 'drv')[0]
                outside += [[e] * (spec[3] + 3), 7, 'x']
            elif k == 'enum':
                values = [v for _, v in spec[1]]
                outside += [max(values) + 7, 'nomember', 2.5]
            elif k == 'bool':
                outside += [7, 'maybe']
            elif k in ('double', 'int', 'scaled'):
                lo, hi = (T.double_limits(spec)[:2] if k == 'double' else T.int_limits(spec) if k == 'int'
                          else T.scaled_limits(spec)[1:])
                outside += [x for x in (hi + 1000, lo - 1000) if abs(x) < 1e300] + ['abc', None, [1]]
            elif k == 'tuple':
                outside += [(1,) * (len(spec[1]) + 2), 7]
            elif k == 'struct':
                outside += [{'zz': 1}, 7]
            good = V.valid(spec, 'drv')
            for v in outside:
                # a valid value first: the cache holds something the description allows
                try:
                    setattr(mod, attr, good[0])
                except Exception:
                    pass
                self.collect_updates('update-after-driver-assignment')
                G.CLOCK.advance(1.0)
                try:
                    setattr(mod, attr, v)
                    raised = False
                except Exception:
                    raised = True
                part.evaluations += 1
                part.nontrivial += 1
                part.transitions += 1
                msgs = self.c2.take()
                for msg in msgs:
                    if msg[0] == 'update' and isinstance(msg[2], list):
                        self.emitted.append(('update-after-driver-assignment', MOD, wire, msg[2][0]))
                part.outcomes['assignment:' + ('raised' if raised else 'error-update' if any(x[0] == 'error_update' for x in msgs)
                                               else 'value-update' if msgs else 'silent')] += 1
                reply = self.req(f'read {MOD}:{wire}')
                if reply[0] == 'reply' and isinstance(reply[2], list) and reply[2]:
                    self.emitted.append(('read-reply-after-driver-assignment', MOD, wire, reply[2][0]))
                self.collect_updates('update-after-driver-assignment')
            try:
                setattr(mod, attr, good[0])
            except Exception:
                pass
            self.collect_updates('update-after-driver-assignment')

    # ---- D9: commands from the description's side
    NOARG_PAYLOADS = [None, 0, False, 0.0, -0.0, '', [], {}, 1, True, 2.5, 'x', [0], [None], {'a': 1}, [[]]]

    def probe_command(self, m, wire, acc, may_run):
        """every payload the described command datainfo does not allow is refused and runs nothing; canonical arguments
        run the command; a result is importable with the described result datainfo (no result described: null)"""
        from frappy.datatypes import get_datatype
        part = self.part
        sub = f'{m}:{wire}'
        di = acc['datainfo']
        argdi, resdi = di.get('argument'), di.get('result')
        try:
            adt = get_datatype(argdi, wire) if argdi else None
            rdt = get_datatype(resdi, wire) if resdi else None
        except Exception as e:
            self.viol(f'C06:datainfo:not-constructible:{type(e).__name__}', sub, f'{sub}: command datainfo {di!r}: {e}')
            return
        aspec = spec_from_datainfo(argdi) if argdi else None
        if argdi and aspec is None:
            part.extra['commands_not_probed'] += 1
            return
        if aspec is None:
            cands = list(self.NOARG_PAYLOADS)
        else:
            cands = [None] + V.valid(aspec, 'wire') + V.bad(aspec, 'wire')
            if aspec[0] == 'struct':
                cands += [x for x, n in V.cands(aspec, 'wire', 1) if n]
        tag = 'noarg' if aspec is None else aspec[0]
        seen = set()
        for x in cands:
            if repr(x) in seen:
                continue
            seen.add(repr(x))
            if aspec is None:
                why_out = None if x is None else f'{R.kindname(x)} {json.dumps(x)} for a command described without argument'
                canon = x is None
            elif x is None:
                why_out, canon = 'no argument for a command described with an argument', False
            else:
                why_out = outside_described(aspec, x)
                canon = c04.ref_export(aspec, x) is not c04.NOVALUE
            if not may_run and not why_out:
                continue        # shipped / inherited driver code is never run on purpose: only the refusals are probed
            part.evaluations += 1
            part.states += 1
            if why_out:
                part.nontrivial += 1
            nlog = self.drvlen()
            before = self.snapshot()
            reply = self.req(f'do {sub}' + ('' if x is None else ' ' + json.dumps(x)))
            self.c2.take()
            done = reply[0] == 'done'
            part.traces += 1
            part.outcomes[f'do:{tag}:' + ('runs' if done else 'refused') + ':' +
                          ('not-allowed' if why_out else 'canonical' if canon else 'undecided')] += 1
            errclass = None if done else reply[2][0]
            if errclass in ('NoSuchCommand', 'NoSuchModule'):
                self.viol('C06:described-command-not-addressable', sub, f'do {sub}: {jsonable(reply)!r}')
                return
            if done and why_out:
                self.viol(f'C06:do-vs-described:{tag}:node-runs-command-with-payload-the-description-does-not-allow:'
                          f'{R.kindname(x)}-payload', sub,
                          f'do {sub} {json.dumps(x)} answers {jsonable(reply)!r:.160}, but the described datainfo '
                          f'{json.dumps(di)[:200]} excludes the payload: {why_out}')
            elif not done and canon:
                self.viol(f'C06:do-vs-described:{tag}:node-refuses-canonical-argument:{errclass}', sub,
                          f'do {sub} {json.dumps(x)} answers {jsonable(reply)!r:.200}, the described datainfo is '
                          f'{json.dumps(di)[:200]}')
            if not done and (self.drvlen() != nlog or self.snapshot() != before):
                self.viol('C06:do-vs-described:refused-command-had-effects', sub, f'do {sub} {json.dumps(x)}: {jsonable(reply)!r:.160}')
            if adt is not None and x is not None:
                try:
                    adt.validate(adt.import_value(x))
                    caccept = True
                except Exception:
                    caccept = False
                if caccept != done and (may_run or not caccept):
                    self.viol(f'C06:do-vs-datainfo:{tag}:node-{"runs" if done else "refuses"}-datainfo-'
                              f'{"accepts" if caccept else "refuses"}:{R.kindname(x)}-payload', sub,
                              f'do {sub} {json.dumps(x)}: node answers {jsonable(reply)!r:.160}, '
                              f'get_datatype({json.dumps(argdi)[:150]}) {"accepts" if caccept else "refuses"} it')
            if done:
                res = reply[2][0] if isinstance(reply[2], list) and reply[2] else None
                if rdt is None:
                    if res is not None:
                        self.viol('C06:do:result-although-none-described', sub, f'do {sub}: {jsonable(reply)!r:.160}')
                else:
                    self.importable(rdt, m, wire, 'command-result', res)

    # ---- D8
    def undescribed(self, desc):
        part = self.part
        targets = []      # (module, name, why)
        for m, mod in self.node.secnode.modules.items():
            described = desc['modules'].get(m, {}).get('accessibles', {})
            names = set()
            for attr in mod.accessibles:
                names.update((attr, '_' + attr))
            # custom wire names given in the configuration
            for attr, entry in self.nut.modcfg.get(m, {}).items():
                if isinstance(entry, dict) and isinstance(entry.get('export'), str):
                    names.add(entry['export'])
            if self.kind == 'gen':
                ref = gen_reference(self.spec).get(m)
                if ref:
                    for attr, info in ref['accessibles'].items():
                        names.update((attr, '_' + attr))
                        if isinstance(info['rec'].get('export'), str):
                            names.add(info['rec']['export'])
            for name in sorted(names - set(described)):
                targets.append((m, name, 'unexported-module' if m not in desc['modules'] else 'undescribed-name'))
            if m not in desc['modules']:
                targets.append((m, None, 'unexported-module'))
        for m, name, why in targets:
            sub = m if name is None else f'{m}:{name}'
            mod = self.node.secnode.modules[m]
            described = desc['modules'].get(m, {}).get('accessibles', {})
            reachable, details = [], []
            for action, payload in (('read', ''), ('change', ' 1'), ('do', ''), ('do', ' 1'), ('activate', '')):
                if action == 'do' and name is None:
                    continue
                before = self.snapshot()
                nlog = self.drvlen()
                self.c1.take()
                reply = self.req(f'{action} {sub}{payload}')
                part.evaluations += 1
                part.nontrivial += 1
                refused = reply[0] == 'error_' + action
                nosuch = refused and reply[2][0] in ('NoSuchModule', 'NoSuchParameter', 'NoSuchCommand')
                part.outcomes[f'undescribed:{action}:{"refused:" + str(reply[2][0]) if refused else "answered"}'] += 1
                effects = []
                if self.snapshot() != before:
                    effects.append('cache changed')
                if self.drvlen() != nlog:
                    effects.append('driver called')
                got = self.c1.take()
                if got:
                    effects.append(f'messages delivered: {jsonable(got)!r:.150}')
                if self.c2.take():
                    effects.append('update emitted')
                if not nosuch or effects:
                    # answered, or refused for a reason that shows the name was resolved (ReadOnly, WrongType, KeyError ...)
                    if action not in reachable:
                        reachable.append(action)
                    details.append(f'{action} {sub}{payload} -> {jsonable(reply)!r:.160} {effects}')
                if action == 'activate':
                    # a later change of the value must not reach the connection that tried to subscribe
                    attr = name if name in mod.parameters else (name[1:] if name and name[1:] in mod.parameters else None)
                    pnames = [attr] if attr else list(mod.parameters) if name is None else []
                    for pn in pnames:
                        pobj = mod.parameters[pn]
                        if pobj.constant is not None:
                            continue
                        G.CLOCK.advance(1.0)
                        try:
                            mod.announceUpdate(pn, pobj.value, timestamp=G.CLOCK.time())
                            mod.announceUpdate(pn, err=RuntimeError('probe'))
                        except Exception:
                            pass
                        got = [g for g in self.c1.take() + self.c2.take() if g[1].split(':')[0] == m and
                               (m not in desc['modules'] or g[1].split(':')[-1] not in described)]
                        if got:
                            if 'later-update' not in reachable:
                                reachable.append('later-update')
                            details.append(f'after activate {sub} the connection received {jsonable(got)!r:.160}')
                    self.req(f'deactivate {sub}')
                    self.c1.take()
            if reachable:
                self.viol(f'C06:undescribed:{why}:reachable-by:' + '+'.join(sorted(reachable)), sub,
                          f'{sub} is not described, but: ' + '; '.join(details))

    # ---- all
    def run(self, only=None):
        self.only = only
        part = self.part
        desc = self.describe_checks()
        if desc is None:
            return
        ref = self.structure_gen(desc) if self.kind == 'gen' else None
        self.structure_any(desc)
        # initial updates (D4)
        reply = self.req('activate', self.c2)
        if reply[0] != 'active':
            self.viol('C06:activate:refused', 'activate', f'{jsonable(reply)!r}')
        for msg in self.c2.take():
            m, _, w = msg[1].partition(':')
            if msg[0] == 'update':
                self.emitted.append(('initial-update', m, w, msg[2][0]))
            elif msg[0] == 'error_update':
                part.outcomes[f'initial:error_update:{msg[2][0]}'] += 1
                acc = desc['modules'].get(m, {}).get('accessibles', {}).get(w, {})
                if 'constant' in acc:
                    self.viol(f'C06:activate:constant-reported-as-error:{msg[2][0]}', f'{m}:{w}',
                              f'on activate the described constant {m}:{w}={acc["constant"]!r} arrives as {jsonable(msg)!r:.200}')
            if m not in desc['modules'] or w not in desc['modules'][m]['accessibles']:
                self.viol('C06:undescribed:initial-update-for-undescribed-name', msg[1], f'{jsonable(msg)!r:.200}')
        cdts = {}
        for m, md in desc['modules'].items():
            mod = self.node.secnode.modules.get(m)
            if mod is None:
                continue
            mycls = type(mod).__mro__[1]
            for wire, acc in md['accessibles'].items():
                if not isinstance(acc.get('datainfo'), dict) or acc['datainfo'].get('type') == 'command':
                    continue
                part.extra['described_parameters'] += 1
                attr = mod.accessiblename2attr.get(wire)
                info = None
                if self.kind == 'gen':
                    infos = [i for i in ref[m]['accessibles'].values() if i['wire'] == wire and i['kind'] == 'param'] \
                        if m in ref else []
                    info = infos[0] if infos else None
                    may_change = bool(info) and not info['extra_checks']
                    may_read = True
                    rfunc = bool(info) and info['rec'].get('rfunc')
                else:
                    has_w = attr is None or any(('write_' + attr) in c.__dict__ or ('check_' + attr) in c.__dict__
                                                for c in mycls.__mro__)
                    has_r = attr is None or any(('read_' + attr) in c.__dict__ for c in mycls.__mro__)
                    has_lim = attr is None or any((attr + post) in mod.parameters for post in G.LIMIT_POSTFIXES)
                    may_change = not has_w and not has_lim
                    may_read = not has_r
                    rfunc = False
                cdt = self.probe_param(m, wire, acc, info, may_change, may_read)
                if cdt is not None:
                    cdts[(m, wire)] = cdt
                if rfunc:
                    spec = spec_from_datainfo(acc['datainfo'])
                    if spec:
                        self.feed_readings(m, wire, info['attr'], spec, info['rec']['spec'])
        # D4b: driver-side assignments (mod.<p> = v, as asynchronous drivers do) of values the described datainfo excludes
        if self.kind == 'gen' and MOD in desc['modules'] and MOD in ref:
            self.assign_outside(desc['modules'][MOD], ref[MOD])
        # D9: described commands
        for m, md in desc['modules'].items():
            mod = self.node.secnode.modules.get(m)
            if mod is None:
                continue
            for wire, acc in md['accessibles'].items():
                if isinstance(acc.get('datainfo'), dict) and acc['datainfo'].get('type') == 'command':
                    part.extra['described_commands'] += 1
                    may_run = False
                    if self.kind == 'gen' and m in ref:
                        infos = [i for i in ref[m]['accessibles'].values() if i['wire'] == wire and i['kind'] == 'command']
                        may_run = bool(infos) and not infos[0]['rec'].get('foreign')
                    self.probe_command(m, wire, acc, may_run)
        # D4 on everything collected (+ D5: whatever is emitted for a described constant is that constant)
        for source, m, w, v in self.emitted:
            cdt = cdts.get((m, w))
            if cdt is None:
                continue
            part.evaluations += 1
            self.importable(cdt, m, w, source, v)
            acc = desc['modules'].get(m, {}).get('accessibles', {}).get(w, {})
            if 'constant' in acc:
                same = jn(v) == jn(acc['constant'])
                part.outcomes['constant-emitted:' + ('equal' if same else 'differs')] += 1
                if not same:
                    self.viol(f'C06:constant:emitted-value-differs-from-described-constant:{source}', f'{m}:{w}',
                              f'{m}:{w} is described as the constant {acc["constant"]!r}, but {source} carries {v!r}')
        self.undescribed(desc)
        self.describe_again()


def check_node(spec, part, only=None):
    import io
    import sys
    try:
        from vf import nodes
        nut = NodeUnderTest(spec)
    except Exception as e:
        from vf import nodes
        if spec['kind'] == 'gen':
            # every generated configuration is valid: a refusal is a defect of the harness (or of C10's subject), never
            # something to skip silently
            raise core.Inconclusive(f"generated node {spec['label']} does not start: {type(e).__name__}: {e}") from e
        if isinstance(e, nodes.StartupRefused) or spec['kind'] == 'shipped':
            # a configuration that does not load without its hardware / optional packages is not a node to check
            part.extra['configurations_not_loadable'] += 1
            part.notes.append(f"{spec['label']}: not loadable here ({type(e).__name__}: {str(e)[:80]})")
            return
        raise
    part.extra['nodes'] += 1
    part.extra['nodes_' + spec['kind']] += 1
    if nut.node is None:
        part.violation(f'C06:describe:raises:{type(nut.loaderror).__name__}', {'node': spec, 'sub': 'describe'},
                       f"node {spec['label']}: get_descriptive_data raises {nut.loaderror!r:.300}")
        return
    try:
        chk = Checker(part, nut)
        deferred = spec['shape'].get('deferred') if spec['kind'] == 'gen' and spec.get('start') else None
        if deferred:
            chk.applied = {a: dict(c.get('props', {})) for a, c in deferred.get('start', {}).items()}
        chk.run(only)
        if deferred:
            # the driver changes datatypes at run time; a client that asks now is judged against the behaviour now
            nut.node.secnode.modules[MOD].vf_runtime_change()
            part.extra['runtime_datatype_changes'] += 1
            chk2 = Checker(part, nut)
            chk2.phase = 'after-runtime-change|'
            chk2.applied = {a: dict(chk.applied.get(a, {}), **c.get('props', {}))
                            for a, c in list(deferred.get('start', {}).items()) + list(deferred.get('runtime', {}).items())}
            chk2.run(only)
        if part.extra['nodes'] <= 2:
            part.sample({'node': spec['label'], 'modules': sorted(nut.node.secnode.modules),
                         'emitted_values_checked': len(chk.emitted)})
    finally:
        nut.close()


def shard_fn(spec):
    part = core.Part()
    check_node(spec, part)
    return part


def run(ctx):
    specs = node_specs(ctx.tier)
    ctx.pmap(shard_fn, specs, name='nodes')
    ctx.rule = ('enumeration: every node of the list (generated module classes x valid configurations, a node with the module '
                'under test unexported, shipped configuration files that load) x every described parameter x every payload of '
                'the valid + bad/boundary catalogue generated from the described datainfo (change differential against '
                'get_datatype(datainfo)) x every emitted value (initial updates, read / changed replies, updates, driver readings '
                'inside and beyond the limits) x every undescribed name (attribute names, underscore variants, hidden custom '
                'names, unexported modules) x {read, change, do, activate}. evaluations = requests / emitted values judged; '
                'distinct_nontrivial = payloads outside the valid catalogue + requests at undescribed names; states = distinct '
                '(node, parameter, payload) triples; transitions = requests executed')
    ctx.coverage.update(bound_completed=f'{len(specs)} node specifications, payload catalogue depth as described',
                        nodes=[s['label'] for s in specs])
    ctx.assume('configurations and module shapes outside the generated family and the shipped files are not covered',
               'poll threads are not running; driver code of shipped modules is never entered (only cache-backed parameters of '
               'shipped nodes are read or changed); time is virtual',
               'the client view is frappy.datatypes.get_datatype of the described datainfo')


def replay(case):
    part = core.Part()
    check_node(case['node'], part, case.get('sub'))
    return part
