"""C03 - datatype descriptions, copies and compatibility verdicts are faithful.

enumx: bounded exhaustive enumeration against the real frappy.datatypes, four sub-checks:

rebuild     every catalogue type dt (vf.catalog.types.all_types + the 38 types with unit / fmtstr / resolution (also exactly 0) / many-digit scale and limit
            properties of vf.harness.c02):  d = json.loads(json.dumps(dt.export_datatype()));  r = get_datatype(d, 'p');
            (1) json.loads(json.dumps(r.export_datatype())) == d;
            (2) for every probe x of V.cands(spec, entry, 1) (all valid values, the whole bad/boundary catalogue, valid
                containers with one position replaced by a bad value; wire and driver form) and, for numeric types, numbers
                at every decade of distance 1e-3..1e-12 from each limit (where the resolution properties decide), dt and r accept / refuse alike
                with == results, and the accepted result has the same export, format_value (with unit) and to_string.
copy        c = dt.copy(): the same equivalence (1)+(2) between dt and c, and between r and r.copy() (copy on the client);
            an object-identity walk over everything reachable from dt and from c: no DataType / Enum / EnumMember /
            list / dict object may be reachable from both;  the copy overrides of the convenience classes (TextType,
            LimitsType, StatusType) are run through the same laws with hand-written specs for the probes.
isolation   for a fresh pair (dt, c = dt.copy()), for S in {dt, c}, for every DataType node inside S and every mutation
            applicable to it (setProperty of min / max / unit / fmtstr / absolute_resolution / minchars / maxchars /
            isUTF8 / minbytes / maxbytes / minlen / maxlen, setProperty delegated through an array, set_main_unit on the
            node and on the root, set_name): the *other* object's export_datatype(), repr() and behaviour on
            V.valid + V.bad (wire form) are unchanged.
compatible  all ordered pairs (A, B) of the pair catalogue (quick: all leaves + nestedness-probing leaves, arrays /
            tuples / structs over reduced member sets, a few depth-3 types; thorough: additionally every catalogue type
            to depth 3):
            soundness     if A.compatible(B) returns, every valid value of A must pass B.validate.  Valid values of A =
                          results of A.validate for the value catalogue of A (c02.values: limits, all grid points, ...)
                          and for the valid + bad/boundary catalogues of *both* A and B that A.validate accepts - every
                          witness is a value the real A accepted and the real B refused.
            completeness  for the pairings the statement lists, when the reference `must_pass(specA, specB)` (written from
                          the two specs) says the value sets are nested, compatible() must not raise.

commands    CommandType(argument, result) over None + 8 member types (81 types) runs through rebuild / copy / clientcopy (datainfo,
            presence of argument / result, equivalence of the argument and of the result type on all their probes), the
            identity walk and the isolation sub-check; 64 command types are part of the compatible() pair catalogue.
scaled grid the limit-grid family of vf.harness.c02.scaled_grid_types (limits -L..L with L = n*scale as product and as the
            short decimal literal, every n of a range, 5 (thorough 6) inexact scales, top level and nested) is part of
            rebuild / copy / clientcopy, so that limit/scale falls below, on and above the integer.

reconfigured every (old, new) spec pair of vf.harness.c01.reconf_pairs (60: leaves, arrays, tuples, structs, arrays of arrays;
            limits widened and narrowed) x {override forwarded through the array, override set on the member}: the live
            object built from `old` is reconfigured to `new` the way a cfg override does it (Reconf), then
            rebuild / copy / clientcopy equivalence (probes of the new AND of the old spec), the identity walk, and
            compatible() in both directions against every freshly built spec of the same kind, with value witnesses.

Oracle calibration (weaker readings taken):
  * commands: A.compatible(B) is read as the code documents it and as proxy.py uses it - a command of type A stands in for
    one of type B: every valid argument of A must be a valid argument of B, every valid result of B must be a valid result
    of A; an absent argument / result only matches an absent one; a command and a value type have no common values.
    Completeness for commands is demanded only when both directions are nested by the narrow must_pass reference and
    confirmed with witnesses against the real validate.
  * signatures of accept/refuse differences at a numeric leaf carry the input class of the probe relative to the spec's
    limits (inside-limits / one-step-outside / less-than-one-step-outside / beyond-one-step; outside-limits), because a
    wrong limit and float noise in the one-step tolerance are different defects.
  * "equivalent" = same JSON datainfo + same accept/refuse + == results + same export / text forms.  The *class* of a
    refusal (RangeError vs WrongTypeError, or a stray exception) is not compared; repr() and the enum name are not part
    of equivalence (the name is not exported).
  * get_datatype() marks the rebuilt type `client=True`, which by design relaxes `__call__` (and with it export_value and
    from_string) for structs lacking optional members.  Like is compared with like: validate() and import_value() (which
    allow lacking optional members on both sides) are always compared; the bare conversion `dt(x)`, export_value and
    to_string/format_value of results are compared only when both objects have the same `client` flag at every struct
    level or the spec has no optional struct member.  For r vs r.copy() (StructOf.copy() yields client=False) the
    same rule applies; the lost flag itself is not reported (the statement does not speak about it).
  * "valid for the second" = B.validate(v) does not raise (the implementation's own notion, including its documented
    tolerance / clamping and the rounding of a number onto a scaled grid).
  * must_pass is deliberately narrow: same kind with equal or wider limits (scaled: same scale; enum: member pairs are a
    subset; struct: same member names and B's mandatory members are mandatory in A), int -> double / scaled and
    scaled <-> double with limits inside, int range -> enum containing every integer of the range, int range within
    {0, 1} -> bool, arrays / tuples / structs element-wise.  Before a completeness violation is reported the nestedness
    is confirmed against the real B.validate with all witnesses; a disagreement is counted (`reference_disagreements`)
    and is no violation.
  * a raising compatible() is never a soundness problem, whatever exception it raises.
  * rebuild is decided for the SECoP types only; LimitsType / TextType / StatusType have no datainfo of their own
    (they are exported as tuple / string), only their copy() is checked.
"""
import json

from vf import core
from vf.catalog import types as T, values as V
from vf.harness import c02 as H

PROPERTY = 'C03'


class Reconf(tuple):
    """a spec (the NEW one) of a datatype that is built from spec `old` and then reconfigured on the live object the way a
    configuration override does it (vf.harness.c01.reconfigure: setProperty at top level, forwarded through an array
    (forward=True) or set directly on the members (forward=False) - never a member-level checkProperties), followed by the
    top-level checkProperties() of Parameter.checkProperties.  Behaves as the new spec for every catalogue function"""
    def __new__(cls, new, old, forward):
        self = super().__new__(cls, new)
        self.old, self.forward = old, forward
        return self

    def __eq__(self, other):
        return isinstance(other, Reconf) and tuple(self) == tuple(other) and (self.old, self.forward) == (other.old, other.forward)

    def __ne__(self, other):
        return not self == other

    def __hash__(self):
        return hash((tuple(self), self.old, self.forward, 'reconf'))


def reconf_json(spec):
    return {'old': T.tojson(spec.old), 'forward': spec.forward} if isinstance(spec, Reconf) else None


def reconf_from(specjson, rc):
    spec = T.fromjson(specjson)
    return Reconf(spec, T.fromjson(rc['old']), rc['forward']) if rc else spec


def reconf_specs():
    from vf.harness import c01
    return [Reconf(new, old, fw) for old, new in c01.reconf_pairs() for fw in (True, False)]


def build(spec):
    """H.build extended by ('command', argument spec | None, result spec | None) and by Reconf specs"""
    if isinstance(spec, Reconf):
        from vf.harness import c01
        dt = c01.reconfigure(H.build(spec.old), spec.old, tuple(spec), spec.forward)
        dt.checkProperties()
        return dt
    if spec[0] == 'command':
        from frappy.datatypes import CommandType
        return CommandType(build(spec[1]) if spec[1] else None, build(spec[2]) if spec[2] else None)
    return H.build(spec)


def sstr(spec):
    if spec is None:
        return 'None'
    if isinstance(spec, Reconf):
        return f'[{T.sstr(spec.old)} reconfigured{" via the array" if spec.forward else ""} to] {T.sstr(tuple(spec))}'
    if spec[0] == 'command':
        return f'command({sstr(spec[1])} -> {sstr(spec[2])})'
    return T.sstr(spec)


# ---------------------------------------------------------------------------------------------
# helpers

def outcome(fn, *args):
    """('ok', result) | ('refused', exception class name)"""
    try:
        return 'ok', fn(*args)
    except Exception as e:
        return 'refused', type(e).__name__


def rdiff(spec, a, b):
    """kind at the first position where two results differ (== in both directions, NaN equal to NaN), else None"""
    if isinstance(a, float) and isinstance(b, float) and a != a and b != b:
        return None
    k = spec[0]
    try:
        if k in ('array', 'tuple') and isinstance(a, (list, tuple)) and type(a) is type(b) and len(a) == len(b):
            members = [spec[1]] * len(a) if k == 'array' else spec[1]
            if len(members) == len(a):
                for m, x, y in zip(members, a, b):
                    d = rdiff(m, x, y)
                    if d:
                        return d
                return None
        if k == 'struct' and isinstance(a, dict) and isinstance(b, dict) and set(a) == set(b):
            members = dict(spec[1])
            if set(a) <= set(members):
                for n in a:
                    d = rdiff(members[n], a[n], b[n])
                    if d:
                        return d
                return None
        if a == b and b == a:
            return None
    except Exception:
        pass
    return k


def jnorm(obj):
    return json.loads(json.dumps(obj))


def has_optional(spec):
    k = spec[0]
    if k == 'array':
        return has_optional(spec[1])
    if k == 'tuple':
        return any(has_optional(m) for m in spec[1])
    if k == 'struct':
        return spec[2] is None or bool(spec[2]) or any(has_optional(m) for _, m in spec[1])
    return False


def client_flags(dt):
    """the `client` flag at every struct level"""
    from frappy.datatypes import StructOf
    return tuple(n.client for _, n in nodes(dt) if isinstance(n, StructOf))


def nodes(dt, path=''):
    """[(path, DataType node)] of a datatype tree, root first"""
    from frappy.datatypes import ArrayOf, TupleOf, StructOf, CommandType
    res = [(path, dt)]
    if isinstance(dt, CommandType):
        for role in ('argument', 'result'):
            if getattr(dt, role) is not None:
                res += nodes(getattr(dt, role), f'{path}/{role}')
    elif isinstance(dt, ArrayOf):
        res += nodes(dt.members, path + '/m')
    elif isinstance(dt, TupleOf):
        for i, m in enumerate(dt.members):
            res += nodes(m, f'{path}/{i}')
    elif isinstance(dt, StructOf):
        for n, m in dt.members.items():
            res += nodes(m, f'{path}/{n}')
    return res


def spec_at(spec, path):
    for step in [s for s in path.split('/') if s]:
        if spec[0] == 'command':
            spec = spec[1] if step == 'argument' else spec[2]
        elif spec[0] == 'array':
            spec = spec[1]
        elif spec[0] == 'tuple':
            spec = spec[1][int(step)]
        else:
            spec = dict(spec[1])[step]
    return spec


def tolerance_probes(spec, entry):
    """numbers around the limits of a numeric leaf at every decade of relative / absolute distance (1e-3 .. 1e-12) and
    at quarter steps of a scaled grid: where acceptance depends on the resolution properties of the datatype (the bad
    catalogue of vf.catalog.values places its probes by the spec's own resolution only)"""
    k = spec[0]
    if k == 'double':
        lo, hi = T.double_limits(spec)[:2]
        steps = []
    elif k == 'scaled' and entry == 'drv':
        scale, lo, hi = T.scaled_limits(spec)
        steps = [j * scale / 4 for j in range(1, 9)]
    else:
        return []
    res = []
    for lim in (lo, hi):
        if abs(lim) >= T.FMAX / 2:
            continue
        for e in range(3, 13):
            res += [lim * (1 + 10.0 ** -e), lim * (1 - 10.0 ** -e), lim + 10.0 ** -e, lim - 10.0 ** -e]
        for st in steps:
            res += [lim + st, lim - st]
    return res


def probes(spec, entry, deep=True):
    if isinstance(spec, Reconf):
        return probes(tuple(spec), entry, deep) + probes(spec.old, entry, False)
    if deep:
        return [x for x, _ in V.cands(spec, entry, 1)] + tolerance_probes(spec, entry)
    return list(V.valid(spec, entry)) + list(V.bad(spec, entry)) + tolerance_probes(spec, entry)


def cands(spec, entry):
    """(probe, number of bad / boundary positions)"""
    yield from V.cands(spec, entry, 1)
    for x in tolerance_probes(spec, entry):
        yield x, 1
    if isinstance(spec, Reconf):      # the boundaries the type had before it was reconfigured
        for x in probes(spec.old, entry, False):
            yield x, 1


# ---------------------------------------------------------------------------------------------
# equivalence of two datatype objects (rebuild / copy)

def post(dt, r):
    """observable forms of an accepted result"""
    return outcome(dt.export_value, r), outcome(dt.format_value, r), outcome(dt.to_string, r)


def equivalent_on(part, spec, p, q, entry, x, like):
    """None or (law, reason-class, text): do p and q treat probe x alike?  like: `__call__`-dependent observations are
    comparable"""
    calls = [('validate', (lambda d: d.validate(d.import_value(x))) if entry == 'wire' else (lambda d: d.validate(x)))]
    if entry == 'wire':
        calls.append(('import_value', lambda d: d.import_value(x)))
    elif like:
        calls.append(('convert', lambda d: d(x)))
    for name, fn in calls:
        part.transitions += 2
        part.traces += 1
        op, oq = outcome(fn, p), outcome(fn, q)
        part.outcomes[f'{spec[0]}:{entry}:{name}:{op[0]}/{oq[0]}'] += 1
        if op[0] != oq[0]:
            return name, f'{op[0]}-vs-{oq[0]}', f'{name}: first {op}, second {oq}'
        if op[0] == 'ok':
            d = rdiff(spec, op[1], oq[1])
            if d:
                return name, f'result-differs:{d}', f'{name}: first -> {op[1]!r}, second -> {oq[1]!r}'
            if like and name == 'validate':
                part.transitions += 6
                pp, pq = post(p, op[1]), post(q, op[1])
                for what, a, b in zip(('export_value', 'format_value', 'to_string'), pp, pq):
                    if a != b:
                        return what, f'{a[0]}-vs-{b[0]}', f'{what} of accepted result {op[1]!r}: first {a}, second {b}'
    return None


def localise_spec(spec, fails):
    """innermost sub-spec for which `fails(sub-spec)` still holds"""
    k = spec[0]
    subs = [spec[1]] if k == 'array' else list(spec[1]) if k == 'tuple' else [m for _, m in spec[1]] if k == 'struct' else \
        [m for m in spec[1:3] if m] if k == 'command' else []
    for sub in subs:
        try:
            bad = fails(sub)
        except Exception:
            bad = False
        if bad:
            return localise_spec(sub, fails)
    return spec


def make_pair(spec, mode, builder=None):
    """(first, second) datatype objects of an equivalence check, built fresh"""
    from frappy.datatypes import get_datatype
    dt = (builder or build)(spec)
    if mode == 'rebuild':
        return dt, get_datatype(jnorm(dt.export_datatype()), 'p')
    if mode == 'copy':
        return dt, dt.copy()
    if mode == 'clientcopy':
        r = get_datatype(jnorm(dt.export_datatype()), 'p')
        return r, r.copy()
    raise ValueError(mode)


def probe_class(spec, x, entry):
    """input class of a probe at a numeric leaf relative to the limits of the spec (part of the signature: a wrong limit
    shows inside the limits, float noise in the one-step tolerance of a scaled type shows exactly one step outside)"""
    k = spec[0]
    if isinstance(x, bool) or not isinstance(x, (int, float)) or x != x:
        return ''
    if k == 'scaled':
        scale, lo, hi = T.scaled_limits(spec)
        n = x if entry == 'wire' else x / scale
        nlo, nhi = round(lo / scale), round(hi / scale)
        dist = max(nlo - n, n - nhi, 0)
        return ':inside-limits' if dist == 0 else ':one-step-outside' if abs(dist - 1) < 1e-6 else \
            ':less-than-one-step-outside' if dist < 1 else ':beyond-one-step'
    if k in ('double', 'int'):
        lo, hi = T.double_limits(spec)[:2] if k == 'double' else T.int_limits(spec)
        return ':inside-limits' if lo <= x <= hi else ':outside-limits'
    return ''


def localise_live(spec, p, q, entry, like):
    """(sub-spec, probe) of the innermost member of the two live objects p and q that behaves differently on its own
    (members of a reconfigured type can not be rebuilt from a sub-spec with the same history), else None"""
    np_, nq = dict(nodes(p)), dict(nodes(q))
    for path in sorted(np_, key=lambda s_: -s_.count('/')):
        if not path or path not in nq:
            continue
        try:
            sub = spec_at(tuple(spec), path)
            xs = probes(sub, entry, False)
            if isinstance(spec, Reconf):
                xs = xs + probes(spec_at(spec.old, path), entry, False)
        except Exception:
            continue
        for sx in xs:
            if equivalent_on(core.Part(), sub, np_[path], nq[path], entry, sx, like):
                return sub, sx
    return None


def equivalence(part, spec, mode, only_case=None, builder=None, name=None):
    tname = name or sstr(spec)
    smode = mode + ('-after-reconfiguration' if isinstance(spec, Reconf) else '')
    try:
        p, q = make_pair(spec, mode, builder)
    except Exception as e:
        part.violation(f'C03:{smode}:{spec[0]}:construction-raises:{type(e).__name__}',
                       {'check': mode, 'spec': T.tojson(spec), 'special': name, 'reconf': reconf_json(spec), 'what': 'datainfo'},
                       f'{tname}: {mode} raised {type(e).__name__}: {e}')
        return
    part.transitions += 2
    if only_case is None or only_case.get('what') == 'datainfo':
        part.evaluations += 1
        part.traces += 1
        dp, dq = outcome(lambda: jnorm(p.export_datatype())), outcome(lambda: jnorm(q.export_datatype()))
        part.outcomes[f'{mode}:datainfo:{"same" if dp == dq else "differs"}'] += 1
        if dp != dq or dp[0] != 'ok':
            def fails(sub):
                a, b = make_pair(sub, mode)
                return jnorm(a.export_datatype()) != jnorm(b.export_datatype())
            sub = localise_spec(spec, fails) if builder is None else spec
            part.violation(f'C03:{smode}:{sub[0] if builder is None else type(p).__name__}:datainfo-differs',
                           {'check': mode, 'spec': T.tojson(spec), 'special': name, 'reconf': reconf_json(spec), 'what': 'datainfo'},
                           f'{tname}: datainfo of the original {dp[1]!r}, after {mode} {dq[1]!r}')
    if spec[0] == 'command':
        # a command has no values of its own: its argument and result types must be equivalent (or both absent)
        parts = []
        for role, sub in (('argument', spec[1]), ('result', spec[2])):
            pm, qm = getattr(p, role, None), getattr(q, role, None)
            if sub is None or qm is None or pm is None:
                part.evaluations += 1
                part.outcomes[f'{mode}:command:{role}:{"both-absent" if pm is None and qm is None else "presence-differs"}'] += 1
                if (pm is None) != (qm is None) and (only_case is None or only_case.get('what') == 'datainfo'):
                    part.violation(f'C03:{smode}:command:{role}-presence-differs',
                                   {'check': mode, 'spec': T.tojson(spec), 'special': name, 'reconf': reconf_json(spec), 'what': 'datainfo'},
                                   f'{tname}: {role} of the original {pm!r}, after {mode} {qm!r}')
                continue
            parts.append((role, sub, pm, qm))
    else:
        parts = [(None, spec, p, q)]
    nprobes = 0
    for role, pspec, pp, qq in parts:
        if only_case is not None and only_case.get('role') != role:
            continue
        like = client_flags(pp) == client_flags(qq) or not has_optional(pspec)
        seen = set()
        for entry in ('wire', 'drv'):
            if only_case is not None and only_case.get('entry') != entry:
                continue
            for x, nbad in (cands(pspec, entry) if only_case is None else [(V.dec(only_case['x']), 1)]):
                key = (entry, repr(x))
                if key in seen:
                    continue
                seen.add(key)
                part.evaluations += 1
                part.states += 1
                res = equivalent_on(part, pspec, pp, qq, entry, x, like)
                if res:
                    hitprobe = {}

                    def fails(sub, x=x, entry=entry, pspec=pspec, like=like, hitprobe=hitprobe):
                        a, b = make_pair(sub, mode)
                        for sx in [x] + [c for _, c in H.children(pspec, x)] + probes(sub, entry, False):
                            if equivalent_on(core.Part(), sub, a, b, entry, sx, like):
                                hitprobe[sub] = sx
                                return True
                        return False
                    sub = localise_spec(pspec, fails) if builder is None else pspec
                    hx = hitprobe.get(sub, x) if sub is not pspec else x
                    if isinstance(pspec, Reconf) and sub is pspec:
                        live = localise_live(pspec, pp, qq, entry, like)
                        if live:
                            sub, hx = live
                    cls = probe_class(sub, hx, entry)
                    part.violation(f'C03:{smode}:{sub[0] if builder is None else type(p).__name__}:{res[0]}:{res[1]}{cls}',
                                   {'check': mode, 'spec': T.tojson(spec), 'special': name, 'reconf': reconf_json(spec), 'role': role, 'entry': entry,
                                    'x': V.enc(x)},
                                   f'{tname} vs its {mode} ({sstr(sub)} is the innermost part behaving differently), '
                                   f'{(role + " ") if role else ""}{entry} probe {x!r}: {res[2]}')
                elif nbad:
                    part.nontrivial += 1
        nprobes += len(seen)
    if part.evaluations % 7 == 0:
        part.sample({'check': mode, 'type': tname, 'probes': nprobes})


# ---------------------------------------------------------------------------------------------
# copy: object identity walk

def reachable(root):
    """{id: (path, object)} of all DataType / Enum / EnumMember / list / dict objects reachable from root through
    instance attributes and containers (class attributes such as propertyDict are shared by design)"""
    from frappy.datatypes import DataType
    from frappy.lib.enum import Enum, EnumMember
    seen = {}
    visited = {}
    stack = [(root, 'dt')]
    while stack:
        o, path = stack.pop()
        if id(o) in visited:
            continue
        if isinstance(o, DataType):
            items = [(f'{path}.{k}', v) for k, v in vars(o).items()]
        elif isinstance(o, Enum):
            items = [(f'{path}[{k!r}]', v) for k, v in dict.items(o)] + [(f'{path}.{k}', v) for k, v in vars(o).items()]
        elif isinstance(o, EnumMember):
            items = [(f'{path}.enum', o.enum)]
        elif isinstance(o, dict):
            items = [(f'{path}[{k!r}]', v) for k, v in o.items()]
        elif isinstance(o, list):
            items = [(f'{path}[{i}]', v) for i, v in enumerate(o)]
        elif isinstance(o, tuple):
            visited[id(o)] = o
            stack.extend((v, f'{path}[{i}]') for i, v in enumerate(o))
            continue
        else:
            continue
        visited[id(o)] = o
        seen[id(o)] = (path, o)
        stack.extend((v, p) for p, v in items)
    return seen


def shared_objects(a, b):
    """[(path in a, path in b, object)] of recorded objects reachable from both"""
    ra, rb = reachable(a), reachable(b)
    prio = {'DataType': 0, 'Enum': 1}
    return sorted(((ra[i][0], rb[i][0], ra[i][1]) for i in ra if i in rb),
                  key=lambda t: (prio.get(objclass(t[2]), 2), len(t[0]), t[0], t[1]))


def objclass(obj):
    from frappy.datatypes import DataType
    from frappy.lib.enum import Enum, EnumMember
    return 'DataType' if isinstance(obj, DataType) else 'Enum' if isinstance(obj, (Enum, EnumMember)) else type(obj).__name__


def check_shared(part, spec, builder=None, name=None):
    tname = name or sstr(spec)
    dt = (builder or build)(spec)
    c = dt.copy()
    part.evaluations += 1
    part.traces += 1
    part.transitions += 1
    part.extra['objects_walked'] += len(reachable(dt))
    shared = shared_objects(dt, c)
    part.outcomes[f'copy:identity:{"disjoint" if not shared else "shared"}'] += 1
    if shared:
        def fails(sub):
            d = build(sub)
            return bool(shared_objects(d, d.copy()))
        kind = localise_spec(spec, fails)[0] if builder is None else type(dt).__name__
        pa, pb, obj = shared[0]
        part.violation(f'C03:copy:{kind}:shares-object:{objclass(obj)}',
                       {'check': 'copy-shared', 'spec': T.tojson(spec), 'special': name, 'reconf': reconf_json(spec)},
                       f'{tname}: original and copy both reach the same {type(obj).__name__} object: original {pa}, '
                       f'copy {pb} ({len(shared)} shared objects)')


# ---------------------------------------------------------------------------------------------
# copy: mutation isolation

def mutations(node):
    """[(name, fn(node))] applicable to a DataType node, derived from its current properties"""
    from frappy import datatypes as D
    res = []

    def setp(key, value):
        res.append((f'setProperty:{key}', lambda n: n.setProperty(key, value)))

    if isinstance(node, D.FloatRange):
        lo, hi = node.min, node.max
        if lo < hi:
            mid = 0.5 if (lo, hi) == (-T.FMAX, T.FMAX) else lo / 2 + hi / 2
            setp('min', mid)
            setp('max', mid)
        setp('unit', 'X')
        setp('fmtstr', '%.5f')
        setp('absolute_resolution', 7.0)
        res.append(('set_main_unit', lambda n: n.set_main_unit('MAIN')))
    elif isinstance(node, D.IntRange):
        lo, hi = node.min, node.max
        if lo < hi:
            setp('min', (lo + hi) // 2 + 1)
            setp('max', (lo + hi) // 2)
    elif isinstance(node, D.ScaledInteger):
        lo, hi, scale = node.min, node.max, node.scale
        if hi - lo >= 2 * scale:
            mid = round((lo / 2 + hi / 2) / scale) * scale
            setp('min', mid)
            setp('max', mid)
        setp('unit', 'X')
        setp('fmtstr', '%.5f')
        res.append(('set_main_unit', lambda n: n.set_main_unit('MAIN')))
    elif isinstance(node, D.EnumType):
        res.append(('set_name', lambda n: n.set_name('renamed')))
    elif isinstance(node, D.StringType):
        lo, hi = node.minchars, node.maxchars
        if lo < hi:
            setp('minchars', lo + 1)
            setp('maxchars', lo)
        else:
            setp('maxchars', hi + 1)
        setp('isUTF8', not node.isUTF8)
    elif isinstance(node, D.BLOBType):
        lo, hi = node.minbytes, node.maxbytes
        if lo < hi:
            setp('minbytes', lo + 1)
            setp('maxbytes', lo)
        else:
            setp('maxbytes', hi + 1)
    elif isinstance(node, D.ArrayOf):
        lo, hi = node.minlen, node.maxlen
        if lo < hi:
            setp('minlen', lo + 1)
            setp('maxlen', lo)
        else:
            setp('maxlen', hi + 1)
        if 'unit' in node.getProperties():
            setp('unit', 'Y')                 # delegated to the members
        res.append(('set_main_unit', lambda n: n.set_main_unit('MAIN')))
    elif isinstance(node, (D.TupleOf, D.StructOf)):
        res.append(('set_main_unit', lambda n: n.set_main_unit('MAIN')))
    return res


def observe(part, dt, spec):
    """everything the statement lets us see of a datatype: datainfo, repr, behaviour on valid + bad wire probes"""
    obs = [json.dumps(outcome(dt.export_datatype), sort_keys=True, default=repr), repr(dt)]
    if spec[0] == 'command':
        for role, sub in (('argument', spec[1]), ('result', spec[2])):
            member = getattr(dt, role, None)
            obs.append([role] + (observe(part, member, sub) if sub is not None and member is not None else [repr(member)]))
        return obs
    for x in probes(spec, 'wire', deep=False):
        part.transitions += 1
        o = outcome(lambda: dt.validate(dt.import_value(x)))
        if o[0] == 'ok':
            part.transitions += 2
            o = ('ok', repr(o[1]), outcome(dt.format_value, o[1]), repr(outcome(dt.export_value, o[1])))
        obs.append(o)
    return obs


def isolation(part, spec, only_case=None, builder=None, name=None):
    tname = name or sstr(spec)
    mk = builder or build
    dt0 = mk(spec)
    base = {'orig': observe(part, dt0, spec), 'copy': observe(part, dt0.copy(), spec)}
    plan = [(path, opname) for path, node in nodes(dt0) for opname, _ in mutations(node)]
    for side in ('orig', 'copy'):
        other = 'copy' if side == 'orig' else 'orig'
        for path, opname in plan:
            if only_case is not None and (only_case['side'], only_case['path'], only_case['op']) != (side, path, opname):
                continue
            dt = mk(spec)
            c = dt.copy()
            objs = {'orig': dt, 'copy': c}
            target = dict(nodes(objs[side]))[path]
            fn = dict(mutations(target))[opname]
            part.evaluations += 1
            part.states += 1
            part.transitions += 1
            res = outcome(fn, target)
            after_self = observe(part, objs[side], spec)
            after_other = observe(part, objs[other], spec)
            part.traces += 1
            effective = after_self != base[side]
            part.outcomes[f'isolation:{opname}:{"effective" if effective else "no-effect"}'
                          f'{"" if res[0] == "ok" else ":refused"}'] += 1
            if effective:
                part.nontrivial += 1
            if after_other != base[other]:
                diffs = [i for i, (a, b) in enumerate(zip(after_other, base[other])) if a != b]
                what = 'datainfo' if 0 in diffs else 'repr' if 1 in diffs else 'behaviour'
                # culprit: the container whose copy() handed out the very same member object (else the mutated node itself)
                no, nc = dict(nodes(dt)), dict(nodes(c))
                culprit = path
                steps = [s_ for s_ in path.split('/') if s_]
                for i in range(1, len(steps) + 1):
                    pre = '/' + '/'.join(steps[:i])
                    if no.get(pre) is nc.get(pre):
                        culprit = '/' + '/'.join(steps[:i - 1]) if i > 1 else ''
                        break
                kind = spec_at(spec, culprit)[0] if builder is None else type(no[culprit]).__name__
                part.violation(f'C03:copy:{kind}:mutation-of-one-side-changes-the-other:{what}',
                               {'check': 'isolation', 'spec': T.tojson(spec), 'special': name, 'side': side, 'path': path,
                                'op': opname},
                               f'{tname}: {opname} on node {path or "/"} of the {side} changed the {other} '
                               f'(copy() of the {kind} at {culprit or "/"} is not independent): '
                               f'before {[base[other][i] for i in diffs[:2]]!r}, after {[after_other[i] for i in diffs[:2]]!r}')
    if only_case is None:
        part.sample({'check': 'isolation', 'type': tname, 'mutations': len(plan) * 2})


# ---------------------------------------------------------------------------------------------
# convenience classes whose copy() is overridden (probes come from a hand-written spec of the same value shape)

def specials():
    from frappy import datatypes as D
    dbl = ('double', 0.0, 10.0, None, None)
    return {
        'TextType()': (lambda _=None: D.TextType(), ('string', 0, None, False)),
        'TextType(3)': (lambda _=None: D.TextType(3), ('string', 0, 3, False)),
        'LimitsType(FloatRange(0,10))': (lambda _=None: D.LimitsType(D.FloatRange(0, 10)), ('tuple', (dbl, dbl))),
        'LimitsType(IntRange(0,9))': (lambda _=None: D.LimitsType(D.IntRange(0, 9)), ('tuple', (('int', 0, 9), ('int', 0, 9)))),
        "StatusType('BUSY','IDLE')": (lambda _=None: D.StatusType('BUSY', 'IDLE'),
                                      ('tuple', (('enum', (('IDLE', 100), ('BUSY', 300))), ('string', 0, None, False)))),
    }


# ---------------------------------------------------------------------------------------------
# compatibility

KINDCLASS = {'double': 'number', 'int': 'number', 'scaled': 'number'}

COMPAT_LEAVES = [
    ('int', 0, 1), ('int', 1, 2), ('int', 1, 1), ('int', 0, 0), ('int', 0, 3), ('int', -5, 100),
    ('double', 0.0, 1.0, None, None), ('double', 2.0, 9.5, None, None), ('double', 0.0, 10.0000005, None, None),
    ('scaled', 0.1, 0.0, 5.0), ('scaled', 0.1, -1.0, 11.0), ('scaled', 0.5, 0.0, 10.0),
    ('scaled', 0.1, -0.3, 0.3), ('scaled', 0.1, -0.2, 0.2), ('scaled', 0.7, -4.2, 4.2), ('scaled', 0.7, -4.9, 4.9),   # decimal-literal limits
    ('enum', (('a', 1), ('b', 2), ('c', 3))), ('enum', (('z', 0), ('a', 1), ('b', 2), ('c', 3))), ('enum', (('b', 1), ('a', 2))),
    ('enum', (('five', 5),)),
    ('string', 1, 2, False), ('string', 0, 3, True), ('blob', 1, 3), ('blob', 0, 256),
]


def command_types():
    """CommandType(argument, result) for the rebuild / copy / isolation sub-checks: every (argument, result) combination of
    None and 8 member types (leaf with unit, enum, scaled, UTF-8 string, struct with optional member, array, tuple)"""
    i09, eab = ('int', 0, 9), ('enum', (('a', 1), ('b', 2)))
    members = [None, i09, eab, ('scaled', 0.1, 0.0, 10.0), ('string', 0, None, True),
               ('double', 0.0, 10.0, None, None, (('unit', 'K/$'), ('fmtstr', '%.3f'))),
               ('struct', (('a', i09), ('b', eab)), ('b',)), ('array', ('double', 0.0, 10.0, None, None), 0, 3),
               ('tuple', (('bool',), ('blob', 0, 4)))]
    return [('command', a, r) for a in members for r in members]


def command_pair_types():
    """commands of the compatible() pair catalogue: every (argument, result) combination of None and 7 member types that
    are nested in each other in various ways"""
    i09, i01, d010 = ('int', 0, 9), ('int', 0, 1), ('double', 0.0, 10.0, None, None)
    members = [None, i09, i01, d010, ('string', 0, 3, False), ('tuple', (i09, d010)), ('tuple', (i01, d010)),
               ('struct', (('a', i01), ('b', ('bool',))), ('b',))]
    return [('command', a, r) for a in members for r in members]


def pair_types(tier):
    i09, i01, d010, dunl = ('int', 0, 9), ('int', 0, 1), ('double', 0.0, 10.0, None, None), ('double', None, None, None, None)
    sc, bo = ('scaled', 0.1, 0.0, 10.0), ('bool',)
    eab, eoo = ('enum', (('a', 1), ('b', 2))), ('enum', (('off', 0), ('on', 1)))
    s03, su, bl = ('string', 0, 3, False), ('string', 0, None, True), ('blob', 0, 4)
    leaves = T.LEAVES + COMPAT_LEAVES
    m1 = [i09, i01, d010, dunl, sc, bo, eab, eoo, s03, su, bl]
    res = list(leaves)
    res += [('array', m, lo, hi) for m in m1 for lo, hi in ((0, 3), (2, 2), (1, 2), (0, 0))]
    m2 = [i09, i01, d010, bo, eoo, s03]
    res += [('tuple', (a,)) for a in m2] + [('tuple', (a, b)) for a in m2 for b in m2]
    res += [('tuple', (a, b, a)) for a, b in zip(m2, m2[1:] + m2[:1])]
    m3 = [i09, i01, d010, bo]
    for a in m3:
        res += [('struct', (('a', a),), ()), ('struct', (('a', a),), None), ('struct', (('c', a),), ())]
        for b in m3:
            res += [('struct', (('a', a), ('b', b)), opt) for opt in ((), ('b',), ('a',), None)]
    res += [('struct', (('b', i09), ('a', i01)), ()), ('struct', (('a', i01), ('b', i09), ('c', bo)), ('c',)),
            ('struct', (('a', i01), ('b', i09), ('c', bo)), ())]
    inner = [('array', i01, 0, 2), ('array', i09, 0, 2), ('array', i09, 1, 1), ('tuple', (i01, bo)), ('tuple', (i09, d010)),
             ('struct', (('a', i01), ('b', bo)), ('b',)), ('struct', (('a', i09), ('b', bo)), ())]
    for c in inner:
        res += [('array', c, 0, 2), ('array', c, 1, 1), ('tuple', (i09, c)), ('struct', (('a', c), ('b', i09)), ('b',))]
    res += command_pair_types()
    if tier == 'thorough':
        res += T.all_types('thorough', 3) + H._ext_types() + command_types()
        res += [t for t in H.scaled_grid_types() if t[0] == 'scaled' and abs(t[3]) <= 8.5 * t[1]]   # n <= 8 per scale
    seen, out = set(), []
    for t in res:
        if t not in seen:
            seen.add(t)
            out.append(t)
    return out


def _hi(x):
    return float('inf') if x is None else x


def must_pass(a, b):
    """True when the statement obliges A.compatible(B) to pass (supported pairing, value sets nested); else False =
    no obligation.  Written from the two specs only."""
    ka, kb = a[0], b[0]
    if ka == 'command' or kb == 'command':
        if ka != kb:
            return False
        # arguments flow from the first to the second, results from the second back to the first
        return ((a[1] is None and b[1] is None) or (a[1] is not None and b[1] is not None and must_pass(a[1], b[1]))) and \
            ((a[2] is None and b[2] is None) or (a[2] is not None and b[2] is not None and must_pass(b[2], a[2])))
    if ka == 'double' and kb == 'double':
        la, ha = T.double_limits(a)[:2]
        lb, hb = T.double_limits(b)[:2]
        return lb <= la and ha <= hb
    if ka == 'int' and kb == 'int':
        (la, ha), (lb, hb) = T.int_limits(a), T.int_limits(b)
        return lb <= la and ha <= hb
    if ka == 'scaled' and kb == 'scaled':
        (sa, la, ha), (sb, lb, hb) = T.scaled_limits(a), T.scaled_limits(b)
        return sa == sb and lb <= la and ha <= hb
    if ka == 'int' and kb in ('double', 'scaled'):
        la, ha = T.int_limits(a)
        lb, hb = T.double_limits(b)[:2] if kb == 'double' else T.scaled_limits(b)[1:]
        return lb <= la and ha <= hb
    if (ka, kb) in (('scaled', 'double'), ('double', 'scaled')):
        la, ha = T.double_limits(a)[:2] if ka == 'double' else T.scaled_limits(a)[1:]
        lb, hb = T.double_limits(b)[:2] if kb == 'double' else T.scaled_limits(b)[1:]
        return lb <= la and ha <= hb
    if ka == 'int' and kb == 'enum':
        la, ha = T.int_limits(a)
        vals = {v for _, v in b[1]}
        return ha - la < 1000 and all(i in vals for i in range(la, ha + 1))
    if ka == 'int' and kb == 'bool':
        la, ha = T.int_limits(a)
        return 0 <= la and ha <= 1
    if ka == 'bool' and kb == 'bool':
        return True
    if ka == 'enum' and kb == 'enum':
        return set(a[1]) <= set(b[1])
    if ka == 'string' and kb == 'string':
        return b[1] <= a[1] and _hi(a[2]) <= _hi(b[2]) and bool(a[3]) <= bool(b[3])
    if ka == 'blob' and kb == 'blob':
        return b[1] <= a[1] and a[2] <= b[2]
    if ka == 'array' and kb == 'array':
        return b[2] <= a[2] and a[3] <= b[3] and must_pass(a[1], b[1])
    if ka == 'tuple' and kb == 'tuple':
        return len(a[1]) == len(b[1]) and all(must_pass(x, y) for x, y in zip(a[1], b[1]))
    if ka == 'struct' and kb == 'struct':
        na, nb = [n for n, _ in a[1]], [n for n, _ in b[1]]
        if set(na) != set(nb):
            return False
        opta = set(na) if a[2] is None else set(a[2])
        optb = set(nb) if b[2] is None else set(b[2])
        if not opta <= optb:         # a member optional in A must be optional in B
            return False
        mb = dict(b[1])
        return all(must_pass(m, mb[n]) for n, m in a[1])
    return False


class Compat:
    def __init__(self, part, types):
        self.part = part
        self.types = types
        self.objs = {}
        self.ivals = {}
        self.accepted = {}

    def obj(self, spec):
        if spec not in self.objs:
            self.objs[spec] = build(spec)
        return self.objs[spec]

    def values_of(self, spec):
        """valid internal values of A from its own catalogue"""
        if spec not in self.ivals:
            dt = self.obj(spec)
            res = {}
            for entry in ('wire', 'drv'):
                for x in H.values(spec, entry):
                    self.part.transitions += 1
                    o = outcome((lambda: dt.validate(dt.import_value(x))) if entry == 'wire' else (lambda: dt.validate(x)))
                    if o[0] == 'ok':
                        res.setdefault(repr(o[1]), o[1])
            self.ivals[spec] = list(res.values())
        return self.ivals[spec]

    def witnesses(self, a, b):
        """valid values of A: own catalogue + probes from both sides' valid and boundary catalogues that A accepts"""
        dta = self.obj(a)
        res = {repr(v): v for v in self.values_of(a)}
        for x in probes(a, 'drv', False) + probes(b, 'drv', False):
            self.part.transitions += 1
            o = outcome(dta.validate, x)
            if o[0] == 'ok':
                res.setdefault(repr(o[1]), o[1])
        return list(res.values())

    def refused(self, a, b):
        """[(value of A, exception name)] refused by B.validate.  Commands: [(('argument', value of A.argument), exc)]
        refused by B.argument plus [(('result', value of B.result), exc)] refused by A.result (a command of the first
        type stands in for one of the second: it is called with the first's arguments and hands back the second's
        results); an absent argument / result only matches an absent one; a command and a value type never match"""
        if a[0] == 'command' or b[0] == 'command':
            if a[0] != b[0]:
                return [(('kind', f'{a[0]} vs {b[0]}'), 'no common values')]
            res = []
            for role, x, y in (('argument', a[1], b[1]), ('result', b[2], a[2])):
                if x is None and y is None:
                    continue
                if x is None or y is None:
                    res.append(((role, 'absent on one side only'), 'presence'))
                else:
                    res += [((role, v), exc) for v, exc in self.refused(x, y)]
            return res
        dtb = self.obj(b)
        res = []
        for v in self.witnesses(a, b):
            self.part.transitions += 1
            o = outcome(dtb.validate, v)
            if o[0] != 'ok':
                res.append((v, o[1]))
        return res

    @staticmethod
    def witness_text(a, b, w):
        if a[0] == 'command' == b[0]:
            role, v = w
            if role == 'argument':
                return f'{v!r} is valid as argument of the first and refused as argument of the second'
            return f'{v!r} is valid as result of the second and refused as result of the first'
        return f'{w!r} is valid for the first and refused by the second'

    def verdict(self, a, b):
        self.part.transitions += 1
        return outcome(self.obj(a).compatible, self.obj(b))

    def sub_pairs(self, a, b):
        if a[0] != b[0] or a[0] == 'command' or isinstance(a, Reconf) or isinstance(b, Reconf):
            return []     # a member of a reconfigured type can not be rebuilt on its own with the same history
        if a[0] == 'array':
            return [(a[1], b[1])]
        if a[0] == 'tuple' and len(a[1]) == len(b[1]):
            return list(zip(a[1], b[1]))
        if a[0] == 'struct':
            mb = dict(b[1])
            return [(m, mb[n]) for n, m in a[1] if n in mb]
        return []

    def localise(self, a, b, fails):
        for sa, sb in self.sub_pairs(a, b):
            if fails(sa, sb):
                return self.localise(sa, sb, fails)
        return a, b

    def check(self, a, b):
        part = self.part
        part.evaluations += 1
        part.states += 1
        v = self.verdict(a, b)
        cls = f'{a[0]}->{b[0]}'
        case = {'check': 'compat', 'a': T.tojson(a), 'b': T.tojson(b), 'a_reconf': reconf_json(a), 'b_reconf': reconf_json(b)}
        if v[0] == 'ok':
            part.traces += 1
            part.nontrivial += 1
            ref = self.refused(a, b)
            part.outcomes[f'{cls}:passes:{"sound" if not ref else "unsound"}'] += 1
            if ref:
                def fails(sa, sb):
                    return self.verdict(sa, sb)[0] == 'ok' and bool(self.refused(sa, sb))
                sa, sb = self.localise(a, b, fails)
                wv, wexc = self.refused(sa, sb)[0]
                shape = H.shape(sa, wv) if sa[0] == 'struct' else sa[0]
                what = f'valid-{wv[0]}-refused' if sa[0] == 'command' == sb[0] else \
                    'valid-value-refused' + (probe_class(sb, wv, 'drv') if sb[0] in KINDCLASS and sa[0] in KINDCLASS else '')
                if isinstance(sa, Reconf) or isinstance(sb, Reconf):
                    what += ':after-reconfiguration'
                part.violation(f'C03:compatible:{shape}:passes-into-{KINDCLASS.get(sb[0], sb[0])}:{what}',
                               case,
                               f'{sstr(a)} .compatible( {sstr(b)} ) returns, but {self.witness_text(sa, sb, ref[0][0])} '
                               f'({ref[0][1]}); innermost such pair: {sstr(sa)} -> {sstr(sb)}, '
                               f'value {wv!r} ({wexc}); {len(ref)} witnesses')
        else:
            must = must_pass(a, b)
            part.outcomes[f'{cls}:raises:{"nested" if must else "no-obligation"}'] += 1
            if must:
                part.traces += 1
                part.nontrivial += 1
                ref = self.refused(a, b)
                if ref:
                    part.extra['reference_disagreements'] += 1
                    part.notes.append(f'must_pass({sstr(a)}, {sstr(b)}) but {ref[0][0]!r} is refused by the second')
                    return
                sa, sb = self.localise(a, b, lambda x, y: must_pass(x, y) and self.verdict(x, y)[0] != 'ok')
                rc = ':after-reconfiguration' if isinstance(sa, Reconf) or isinstance(sb, Reconf) else ''
                part.violation(f'C03:compatible:{sa[0]}:raises-for-nested-{KINDCLASS.get(sb[0], sb[0]) if sa[0] != sb[0] else "same-kind"}{rc}',
                               case,
                               f'{sstr(a)} .compatible( {sstr(b)} ) raises {v[1]} although every valid value of the first '
                               f'(witnesses from both catalogues tried) is valid for the second; innermost such pair: '
                               f'{sstr(sa)} -> {sstr(sb)}')
        if part.evaluations % 4999 == 1:
            part.sample({'check': 'compatible', 'a': sstr(a), 'b': sstr(b), 'verdict': v[0] if v[0] == 'ok' else v[1]})


# ---------------------------------------------------------------------------------------------
# shards

def shard_equiv(specs):
    part = core.Part()
    for spec in specs:
        equivalence(part, spec, 'rebuild')
    return part


def shard_copy(specs):
    part = core.Part()
    for spec in specs:
        equivalence(part, spec, 'copy')
        equivalence(part, spec, 'clientcopy')
        check_shared(part, spec)
    return part


def shard_special(names):
    part = core.Part()
    for name in names:
        builder, spec = specials()[name]
        equivalence(part, spec, 'copy', builder=builder, name=name)
        check_shared(part, spec, builder=builder, name=name)
        isolation(part, spec, builder=builder, name=name)
    return part


def shard_isolation(specs):
    part = core.Part()
    for spec in specs:
        isolation(part, spec)
    return part


def shard_reconf(idxs):
    """(shards carry indices: a Reconf does not survive pickling)  the reconfigured-after-construction dimension: rebuild / copy / clientcopy equivalence, identity walk, and
    compatible() in both directions against every freshly built catalogue spec of the same kind"""
    part = core.Part()
    partners = {}
    for r in reconf_specs():
        for sp in (tuple(r), r.old):
            partners.setdefault(sp[0], {})[sp] = None
    allspecs = reconf_specs()
    for spec in (allspecs[i] for i in idxs):
        for mode in ('rebuild', 'copy', 'clientcopy'):
            equivalence(part, spec, mode)
        check_shared(part, spec)
        cp = Compat(part, [])
        for other in partners[spec[0]]:
            cp.check(spec, other)
            cp.check(other, spec)
    return part


def shard_compat(shard):
    tier, idxs = shard
    part = core.Part()
    types = pair_types(tier)
    cp = Compat(part, types)
    for i in idxs:
        for b in types:
            cp.check(types[i], b)
    return part


def run(ctx):
    types = H.all_types(ctx.tier) + command_types()
    n = 64
    shards = [s for s in (types[i::n] for i in range(n)) if s]
    # mutation isolation does not depend on the value of a limit: the scaled limit-grid family is left out there
    itypes = T.all_types(ctx.tier, 3) + H._ext_types() + command_types()
    ishards = [s for s in (itypes[i::n] for i in range(n)) if s]
    only = getattr(ctx, 'only', None) or set()
    if not only or 'rebuild' in only:
        ctx.pmap(shard_equiv, shards, name='rebuild')
    if not only or 'copy' in only:
        ctx.pmap(shard_copy, shards, name='copy')
        ctx.pmap(shard_special, [[n_] for n_ in specials()], name='copy_special')
    if not only or 'isolation' in only:
        ctx.pmap(shard_isolation, ishards, name='isolation')
    rspecs = reconf_specs()
    if not only or 'reconfigured' in only:
        ctx.pmap(shard_reconf, [list(range(i, len(rspecs), 32)) for i in range(32)], name='reconfigured')
    ptypes = pair_types(ctx.tier)
    if not only or 'compatible' in only:
        m = min(len(ptypes), 1024)     # one first-type per shard: the cost per first type varies widely
        ctx.pmap(shard_compat, [(ctx.tier, list(range(i, len(ptypes), m))) for i in range(m) if i < len(ptypes)],
                 name='compatible')
    ctx.rule = ('enumeration. rebuild / copy: every catalogue type (all leaf kinds with boundary limits, containers to depth 3, 38 '
                'types with unit / fmtstr / resolution properties (also exactly 0) and many-digit scales / limits) x every probe of V.cands(k=1) in wire and driver form, compared '
                'between the type and its JSON rebuild, its copy, and the copy of the rebuild; object-identity walk original vs '
                'copy. isolation: every type x {original, copy} x every DataType node in it x every applicable mutation. '
                f'compatible: all {len(ptypes)}^2 ordered pairs of the pair catalogue, each passing pair probed with every valid '
                'value of the first type (own catalogue + both sides\' boundary catalogues). distinct_nontrivial = probes with a bad / boundary '
                'position treated alike + effective mutations + pairs that pass or are obliged to pass; states = probes + mutations + pairs')
    ctx.coverage.update(types=len(types), reconfigured_types=len(rspecs), pair_types=len(ptypes), pairs=len(ptypes) ** 2,
                        bound_completed='type depth<=3 (rebuild/copy/isolation), all ordered pairs of the pair catalogue')
    ctx.assume('types, limits and values outside the catalogues are not covered',
               'generalConfig.lazy_number_validation is False (the default)',
               'the class of a refusal (RangeError / WrongTypeError) is not part of equivalence')


def replay(case):
    part = core.Part()
    check = case['check']
    builder = None
    name = case.get('special')
    if name:
        builder, spec = specials()[name]
    elif check != 'compat':
        spec = reconf_from(case['spec'], case.get('reconf'))
    if check in ('rebuild', 'copy', 'clientcopy'):
        equivalence(part, spec, check, only_case=case, builder=builder, name=name)
    elif check == 'copy-shared':
        check_shared(part, spec, builder=builder, name=name)
    elif check == 'isolation':
        isolation(part, spec, only_case=case, builder=builder, name=name)
    elif check == 'compat':
        a, b = reconf_from(case['a'], case.get('a_reconf')), reconf_from(case['b'], case.get('b_reconf'))
        Compat(part, [a, b]).check(a, b)
    return part
