"""C04 concurrent part - "invoked exactly once with exactly the validated value (a partial struct merged into the
current value)" when two connections change the same parameter at once.

schedx: a real node with a struct parameter (members p, i, d; write method with a scheduling point inside, as a driver
talking to hardware has) and a float parameter with dynamic limits.  Two connection threads each send one request through
the real Dispatcher.handle_request (+ handler error mapping): partial struct changes of different members, a limit change
racing with a target change.  All schedules with <= bound preemptions at every lock operation and at the driver's own
scheduling point.

Oracle per driver call: the value received equals the request merged into the value cached at the moment of the call (no
lost update: after both requests the cache holds both members); a target that violates the limits valid at the moment of
the call never reaches the driver.
"""
import json

from vf import core

CASES = {
    'struct-two-members': [('change', 'm:_pid', {'p': 10.0}), ('change', 'm:_pid', {'i': 2.0})],
    'struct-same-member': [('change', 'm:_pid', {'p': 10.0}), ('change', 'm:_pid', {'p': 20.0, 'd': 1.0})],
    'limit-vs-target': [('change', 'm:_t_max', 5.0), ('change', 'm:_t', 8.0)],
    'limit-vs-target-2': [('change', 'm:_t_limits', [0.0, 3.0]), ('change', 'm:_u', 4.0)],
    # the poll thread reads the limit from the hardware (lower than before) while a connection changes the target
    'limit-poll-vs-target': [('poll', 't_max', 5.0), ('change', 'm:_t', 8.0)],
    'limits-poll-vs-target': [('poll', 'u_limits', (0.0, 3.0)), ('change', 'm:_u', 4.0)],
}
LOG = []
_cls = {}


def module_class():
    if _cls:
        return _cls['M']
    from frappy.core import Module, Parameter, FloatRange, StructOf
    from frappy.params import Limit
    from vf.engines import schedx

    class M(Module):
        pid = Parameter('struct', StructOf(p=FloatRange(), i=FloatRange(), d=FloatRange()), readonly=False,
                        default={'p': 0.0, 'i': 0.0, 'd': 0.0})
        t = Parameter('limited', FloatRange(0, 100), readonly=False, default=1.0)
        t_max = Limit()
        u = Parameter('limited by pair', FloatRange(0, 100), readonly=False, default=1.0)
        u_limits = Limit()

        def write_pid(self, value):
            LOG.append(('write_pid', dict(value), dict(self.pid)))
            s = schedx.active()
            if s is not None:
                s.point('yield', 'hardware')        # the driver talks to the hardware here
            return value

        def write_t(self, value):
            LOG.append(('write_t', value, self.t_max))
            s = schedx.active()
            if s is not None:
                s.point('yield', 'hardware')
            return value

        def write_u(self, value):
            LOG.append(('write_u', value, tuple(self.u_limits)))
            s = schedx.active()
            if s is not None:
                s.point('yield', 'hardware')
            return value

        hw = {}

        def read_t_max(self):
            s = schedx.active()
            if s is not None:
                s.point('yield', 'hardware')
            return self.hw.get('t_max', self.t_max)

        def read_u_limits(self):
            s = schedx.active()
            if s is not None:
                s.point('yield', 'hardware')
            return self.hw.get('u_limits', self.u_limits)
    _cls['M'] = M
    return M


def execute(case, prefix):
    from vf.engines import schedx
    from vf.harness import nodeconc as N          # noqa: F401  (rebinds threading inside frappy)
    from vf import nodes
    sched = schedx.Scheduler(prefix, max_steps=4000)
    holder = {'replies': {}}
    del LOG[:]
    reqs = CASES[case['name']]
    reqs = [(r[0], 'm:_u_limits' if r[1] == 'm:_t_limits' else r[1], r[2]) for r in reqs]

    def body():
        node = nodes.Node({'m': {'cls': module_class(), 't_max': {'value': 50.0}, 'u_limits': {'value': (0.0, 50.0)}}})
        holder['node'] = node
        conns = [N.ObserverConn(sched, f'c{i + 1}') for i in range(len(reqs))]
        for c in conns:
            node.dispatcher.add_connection(c)
        sched.begin()

        mod = node.secnode.modules['m']
        mod.hw = {r[1]: r[2] for r in reqs if r[0] == 'poll'}

        def client(i):
            def run():
                if reqs[i][0] == 'poll':        # what the poll thread does with a polled parameter
                    getattr(mod, 'read_' + reqs[i][1])()
                    holder['replies'][i] = ('polled',)
                else:
                    holder['replies'][i] = node.request_msg(conns[i], reqs[i])
            return run
        ts = [schedx.Thread(target=client(i), name=f'conn{i}') for i in range(len(reqs))]
        for t in ts:
            t.start()
        for t in ts:
            t.join()
        m = node.secnode.modules['m']
        holder['final'] = {'pid': dict(m.pid), 't': m.t, 't_max': m.t_max, 'u': m.u, 'u_limits': tuple(m.u_limits)}
    x = sched.run(body)
    viol = judge(case, reqs, x, holder)
    if holder.get('node') is not None:
        holder['node'].close()
    return x, viol


def judge(case, reqs, x, holder):
    if x.deadlock:
        return [('conc:deadlock', x.deadlock)]
    if x.livelock:
        return [('conc:livelock', x.livelock)]
    for t in x.threads:
        if t.exc is not None:
            return [(f'conc:thread-died:{type(t.exc).__name__}', f'{t.name}: {t.exc!r}')]
    viol = []
    final = holder['final']
    replies = holder['replies']
    for e in LOG:
        if e[0] == 'write_pid':
            received, cached = e[1], e[2]
            # the request this call belongs to: the one whose members it carries
            cands = [r[2] for r in reqs if r[1] == 'm:_pid' and all(received.get(k) == v for k, v in r[2].items())]
            ok = any(received == dict(cached, **c) for c in cands)
            if not ok:
                viol.append(('conc:partial-struct-merged-into-stale-value',
                             f'driver got {received} while the cached value was {cached}; requests {[r[2] for r in reqs]}'))
        elif e[0] == 'write_t' and e[1] > e[2]:
            viol.append(('conc:target-above-current-limit-reached-driver', f'write_t({e[1]}) while t_max was {e[2]}'))
        elif e[0] == 'write_u' and not e[2][0] <= e[1] <= e[2][1]:
            viol.append(('conc:target-outside-current-limits-reached-driver', f'write_u({e[1]}) while u_limits was {e[2]}'))
    if case['name'].startswith('struct'):
        accepted = [reqs[i][2] for i, r in replies.items() if r[0] == 'changed']
        if len(accepted) == len(reqs):
            for k in {k for r in accepted for k in r}:
                if final['pid'].get(k) not in [r[k] for r in accepted if k in r]:
                    viol.append(('conc:accepted-member-change-lost', f'both changes were accepted {accepted} but the cache holds {final["pid"]}'))
    ncalls = len([e for e in LOG if e[0].startswith('write_') and e[0] != 'write_u']) + len([e for e in LOG if e[0] == 'write_u'])
    nacc = len([r for r in replies.values() if r[0] == 'changed'])
    # (a poll is not a request: replies of kind 'polled' are not counted)
    nlimit = len([r for r in reqs if r[1].endswith(('_max', '_limits'))])
    if ncalls != nacc - len([i for i, r in replies.items() if r[0] == 'changed' and reqs[i][1].endswith(('_max', '_limits'))]):
        viol.append(('conc:driver-call-count', f'{nacc} accepted requests ({nlimit} of them limits without write method) but driver calls {LOG}'))
    return viol


def cases(tier):
    return [{'kind': 'conc', 'name': n, 'bound': 2 if tier == 'quick' else 3} for n in CASES]


def root_fn(case):
    from vf.engines import schedx
    schedx.untrace_all()
    x1, _v = execute(case, [])
    x2, _v = execute(case, [])
    if x1.trace != x2.trace:
        raise core.Inconclusive(f'C04 concurrent case {case["name"]}: the default schedule is not deterministic')
    part = core.Part()
    part.data.append([case['name'], schedx.first_level(x1, case['bound'], 0)])
    return part


def sub_fn(shard):
    from vf.engines import schedx
    case, prefix = shard
    part = core.Part()
    schedx.untrace_all()

    def ex(pfx):
        x, viol = execute(case, pfx)
        part.evaluations += 1
        part.traces += 1
        part.transitions += x.steps
        part.fps |= x.fingerprints
        part.outcomes[json.dumps([list(map(str, e)) for e in LOG])] += 1
        if x.preemptions:
            part.nontrivial += 1
        for sig, detail in viol:
            part.violation(f'C04:{sig}', dict(case, prefix=list(x.choices)), f'case {case["name"]} schedule {x.choices}: {detail}')
        if part.evaluations % 199 == 1:
            part.sample({'case': case['name'], 'schedule': list(x.choices), 'driver_calls': [list(map(str, e)) for e in LOG]})
        return x
    if prefix is None:
        ex([])
    else:
        schedx.explore(ex, case['bound'], prefix=prefix)
    part.extra['schedules'] += part.evaluations
    return part


def run_conc(ctx):
    cs = cases(ctx.tier)
    roots = ctx.pmap(root_fn, cs, name='conc_determinism')
    byname = {c['name']: c for c in cs}
    shards = []
    for name, prefixes in roots.data:
        shards.append((byname[name], None))
        shards += [(byname[name], p) for p in prefixes]
    ctx.total.data.clear()
    ctx.pmap(sub_fn, shards, name='concurrent_requests')
    ctx.coverage.update(concurrent_cases={c['name']: c['bound'] for c in cs})


def replay_conc(case):
    part = core.Part()
    x, viol = execute(case, case['prefix'])
    for sig, detail in viol:
        part.violation(f'C04:{sig}', case, detail)
    part.evaluations = 1
    return part
