"""C02 - valid values survive the wire encoding and the text encoding unchanged.

enumx: exhaustive product  type catalogue x valid-value catalogue (no sampling), executed against the real
frappy.datatypes on two datatype objects per catalogue type:
  node   : dt  = the datatype as a driver programmer constructs it (vf.catalog.types.build)
  client : cdt = get_datatype(json.loads(json.dumps(dt.export_datatype())), 'p')   (what SecopClient builds)

Valid values are generated from the type *spec* (vf.catalog.values.valid + the extension `extra()` below: all grid
points of small scaled ranges, grid points far from zero, powers of two, limit neighbours, -0.0, floats that %g
shortens, every enum member, every byte value in blobs, all base64 padding lengths, quote / backslash / newline /
non-ASCII strings, empty / maximal containers, structs lacking optional members) in two entry forms:
  wire: JSON value as json.loads yields it        -> internal value v = D.validate(D.import_value(x))
  drv : Python-native value as a driver hands it  -> internal value v = D.validate(x)
Laws decided for every datatype object D in {dt, cdt} and every internal value v of D:
  accept   (completeness)  a candidate in the strict form of its kind must be accepted by D (C01 only decides soundness)
  value    for a strict-form candidate x the accepted v must DENOTE x according to the independent reference
           vf.catalog.refmodel.judge(spec, x, v, None, entry) (the later laws are identities on v and would be
           self-consistent on a value that was already corrupted on the way in, e.g. an integer taken through a double)
  wire-form the exported form of that v must equal the canonical wire form derived from the spec and x alone (the same
           integer exactly for int, n for scaled, the member's value for enum, the identical string, the same base64 text,
           position by position in containers; for double the same number)
  export   e = D.export_value(v) must not raise
  json     json.dumps(e, allow_nan=False) must succeed (strict JSON), json.loads gives e back
  kind     e has the JSON kind SECoP prescribes (int for int/scaled/enum, number for double, true/false for bool, str,
           standard-alphabet base64 str for blob, list for array/tuple, object with exactly v's keys for struct),
           checked position by position against the spec
  denote   e denotes v according to the spec (n = v/scale for scaled, member value for enum, decoded base64 == v, ...)
  frame    e goes through the real frappy.protocol.interface functions: encode_msg_frame('update', 'm:p', [e, qualifiers])
           (node) resp. encode_msg_frame('change', 'm:p', e) (client) -> exactly one line of bytes -> get_msg ->
           decode_msg must not raise and must give action / specifier / report structure back; e' = the decoded payload
  reimport dt.validate(dt.import_value(e'))  == v      (node side, exactly what the dispatcher does with `change`)
           cdt.import_value(e') == v                   (client side, exactly what SecopClient does with updates/replies)
           for both exporters (a value exported by the client datatype is re-imported by the node and vice versa)
  text     s = D.to_string(v) (on the client also str(CacheItem(v, datatype=D))): D.from_string(s) is accepted -> v2,
           D.to_string(v2) == s, and v2 equals v at every non-float leaf (double/scaled leaves are exempt, container
           shapes are not)

Oracle calibration (weaker readings taken, see HARNESS_GUIDE soundness policy):
  * "number for double": an int or a float is accepted as the JSON kind (not a bool, not NaN/Infinity).
  * bool is not in the statement's list; SECoP prescribes JSON true/false, so `type(e) is bool` is required.
  * "base64 string": RFC 4648 standard alphabet with padding; embedded whitespace would be tolerated.
  * equality is Python `==` between the internal values (ImmutableDict == dict, EnumMember == EnumMember), nothing
    stricter; there are no NaN among valid values.
  * accept: only candidates in the *strict* form of their kind are an obligation (JSON number for double, JSON integer
    for int/scaled/enum on the wire, true/false for bool, member name or value on the driver side ...).  The lenient
    forms the catalogue also contains (true as an integer, 5.0 as an integer, 0/1 as a boolean, a member name on the
    wire) are executed and counted (`lenient:*` outcomes) but refusing them is not a violation of the statement.
  * text: the statement speaks of "the text form offered to GUI/CLI users", i.e. the client side.  The laws are decided
    on the client datatype for every value and on the node datatype for every *complete* value.  A struct value lacking
    an optional member is refused by the node-side conversion `dt(x)` by design (`client=True` relaxes it), so for
    such values the node-side text law is not an obligation (counted as `text:node:skipped-incomplete`).
  * the node-side *export* of a struct lacking an optional member IS an obligation: it is a valid value (validate
    returns it) and the node has to be able to send what it accepted.
"""
import json
import math
import re

from vf import core
from vf.catalog import types as T, values as V, refmodel as R

PROPERTY = 'C02'
FLOATKINDS = ('double', 'scaled')


def norm(text):
    text = re.sub(r'^((\[\d+\]|\.\w+): )+', '', str(text))
    text = re.sub(r"'[^']*'|\"[^\"]*\"", 'Q', str(text))
    text = re.sub(r'-?\d+(\.\d+)?(e[-+]?\d+)?', 'N', text)
    text = re.sub(r'[^A-Za-z0-9<>\[\].:=]+', '-', text).strip('-')
    return text[:80]


# ---------------------------------------------------------------------------------------------
# type catalogue extension: specs with a trailing tuple of further datatype properties (unit, fmtstr, resolutions).
# The catalogue functions (values, limits, sstr, tojson) only look at the leading fields, so these specs can be used
# wherever a catalogue spec can - except T.build, which is wrapped by build() below.

EXT_LEAVES = [
    ('double', 0.0, 10.0, None, None, (('unit', 'K'), ('fmtstr', '%.3f'))),
    ('double', None, None, None, None, (('unit', '$/min'),)),
    ('double', -100.0, 100.0, 0.5, 0.01, (('fmtstr', '%.1f'),)),
    ('scaled', 0.1, 0.0, 10.0, (('unit', 'mm'), ('fmtstr', '%.1f'))),
    ('scaled', 0.01, -1.0, 1.0, (('unit', '$'), ('absolute_resolution', 0.05), ('relative_resolution', 0.001))),
]


# numbers that need more than the 6 significant digits of '%g' / more digits than a short decimal: scales (grid-aligned
# limits n * scale), limits whose %g text lies outside the limit, and resolutions given as exactly 0 (0 is a value of its
# own: None = frappy default, 0.0 for absolute_resolution of a double happens to BE the default)
S1024, S20, S3, SDEC = 1 / 1024, 2.0 ** -20, 1 / 3, 0.0123456789
PRECISE_LEAVES = [
    ('scaled', S1024, 0.0, 1024 * S1024),
    ('scaled', S20, None, None),
    ('scaled', S3, -9 * S3, 30 * S3),
    ('scaled', SDEC, 0.0, 100 * SDEC),
    ('scaled', 0.01, 0.0, 123456789 * 0.01),
    ('scaled', 0.001, -273151 * 0.001, 1234567 * 0.001, (('unit', 'K'),)),
    ('double', 0.0, 0.1234567, None, None),
    ('double', -273.15251, None, None, None),
    ('double', 1234567.25, 7654321.75, None, None),
    ('double', -0.1234567, 123456.7, None, None, (('unit', 'V'),)),
]
ZERO_RES_LEAVES = [
    ('double', 0.0, 10.0, None, 0.0),
    ('double', -5.0, 5.0, 0.0, 0.0),
    ('double', 0.0, 10.0, 0.5, 0.0),
    ('double', None, None, 0.0, None),
    ('scaled', 0.1, 0.0, 10.0, (('absolute_resolution', 0),)),
    ('scaled', 0.01, -1.0, 1.0, (('absolute_resolution', 0.0), ('relative_resolution', 0.0))),
    ('scaled', 0.5, 0.0, 10.0, (('relative_resolution', 0),)),
]


GRID_SCALES = (0.1, 0.01, 0.3, 0.7, 0.001, 0.07)


def scaled_grid_types():
    """scaled types whose limits are -n*scale .. n*scale for EVERY n of a range and several scales no double represents
    exactly, so that the float quotient limit/scale falls below, on and above the integer n (every rounding direction);
    top level for all n, nested in array / tuple / struct for n <= 8"""
    nmax = 100 if deep() else 20
    res = []
    for sc in GRID_SCALES if deep() else GRID_SCALES[:4] + GRID_SCALES[5:]:   # 0.001 shows no inexact quotient for n <= 20
        # the limit as the product n * scale and as the short decimal a programmer writes (0.3 rather than 3 * 0.1)
        leaves = [('scaled', sc, -lim, lim) for n in range(1, nmax + 1)
                  for lim in sorted({n * sc, float(f'{n * sc:.12g}')})]
        res += leaves
        res += [('array', t, 0, 2) for t in leaves[:8]]
        res += [('tuple', (leaves[2], leaves[5])), ('struct', (('a', leaves[6]), ('b', leaves[3])), ('b',))]
    return res


def ext_types():
    return _ext_types() + scaled_grid_types()


def default_edge_types():
    """every property of every datatype kind at the values where description and rebuild treat it specially: (a) the default
    of its Property (not exported), (b) the default of the property's own datatype (0 / '' / False), (c) the "unlimited"
    sentinel, (d) one of these combined with a non-default partner - one sub-list per kind, plus containers of them"""
    big = 1 << 64                      # frappy.datatypes.UNLIMITED
    doubles = [
        ('double', 0.0, 0.0, None, None), ('double', None, 0.0, None, None), ('double', 0.0, None, None, None),
        ('double', -T.FMAX, T.FMAX, 0.0, T.DEFAULT_REL, (('unit', ''), ('fmtstr', '%g'))),      # every property given, all default
        ('double', None, None, None, None, (('fmtstr', '%g'), ('unit', 'K'))), ('double', 0.0, 1.0, 0.0, T.DEFAULT_REL),
    ]
    ints = [('int', 0, 0), ('int', None, 0), ('int', 0, None), ('int', -16777216, 16777216), ('int', -big, big),
            ('int', -big, 0), ('int', 1, 1)]
    scaleds = [
        ('scaled', 0.1, 0.0, 0.0), ('scaled', 1.0, 0.0, 5.0), ('scaled', 1.0, None, None),
        ('scaled', 0.5, None, None, (('absolute_resolution', 0.5), ('relative_resolution', T.DEFAULT_REL), ('unit', ''),
                                     ('fmtstr', '%g'))),
        ('scaled', 0.5, 0.0, 0.5, (('absolute_resolution', 0.0),)),
    ]
    strings = [('string', 0, 0, False), ('string', 0, 0, True), ('string', 3, None, False), ('string', 1, None, True),
               ('string', 1, 1, False), ('string', 3, None, True)]     # None = no upper limit: built with maxchars=UNLIMITED
    blobs = [('blob', 0, 0), ('blob', 0, 1), ('blob', 1, 1), ('blob', 3, 255)]
    i09 = ('int', 0, 9)
    arrays = [('array', i09, 1, 1), ('array', i09, 0, 1),
              ('array', strings[2], 0, 2), ('array', blobs[0], 0, 0), ('array', blobs[0], 1, 2), ('array', doubles[0], 0, 1)]
    others = [
        ('struct', (('a', i09), ('b', ('bool',))), ('a', 'b')),            # every member listed: equals the default "all"
        ('struct', (('a', ints[0]), ('b', doubles[0])), ('a', 'b')), ('struct', (('a', strings[2]), ('b', blobs[0])), ('b',)),
        ('tuple', (blobs[0], strings[0])), ('tuple', (strings[3], scaleds[0], ints[0])),
        ('enum', (('zero', 0),)), ('enum', (('n', -1), ('z', 0), ('p', 1))),
    ]
    return doubles + ints + scaleds + strings + blobs + arrays + others


def _ext_types():
    return _ext_types0() + default_edge_types()


def _ext_types0():
    a, b, c, d, e = EXT_LEAVES
    p, z = PRECISE_LEAVES, ZERO_RES_LEAVES
    return EXT_LEAVES + [
        ('array', a, 0, 3), ('array', e, 1, 2), ('tuple', (d, b)), ('tuple', (c, ('enum', (('a', 1), ('b', 2))))),
        ('struct', (('a', a), ('b', e)), ('b',)), ('struct', (('a', b),), None),
        ('array', ('tuple', (d, ('string', 0, 3, False))), 0, 2),
    ] + p + z + [
        ('array', p[0], 0, 3), ('array', p[6], 1, 2), ('tuple', (p[2], p[7])), ('tuple', (p[4], ('int', 0, 9))),
        ('struct', (('a', p[3]), ('b', p[8])), ('b',)), ('struct', (('a', p[6]),), None),
        ('array', z[0], 0, 2), ('tuple', (z[4], z[1])), ('struct', (('a', z[5]), ('b', z[2])), ('b',)),
    ]


def build(spec):
    """T.build extended to the specs above"""
    from frappy import datatypes as D
    k = spec[0]
    if k == 'double' and len(spec) > 5:
        kw = dict(spec[5])
        if spec[3] is not None:
            kw['absolute_resolution'] = spec[3]
        if spec[4] is not None:
            kw['relative_resolution'] = spec[4]
        return D.FloatRange(spec[1], spec[2], **kw)
    if k == 'scaled' and len(spec) > 4:
        return D.ScaledInteger(spec[1], spec[2], spec[3], **dict(spec[4]))
    if k == 'string' and spec[2] is None:
        # no upper limit in the spec: say so (StringType(3) alone means "exactly 3 characters")
        return D.StringType(spec[1], D.UNLIMITED, isUTF8=spec[3])
    if k == 'array':
        return D.ArrayOf(build(spec[1]), spec[2], spec[3])
    if k == 'tuple':
        return D.TupleOf(*[build(m) for m in spec[1]])
    if k == 'struct':
        opt = None if spec[2] is None else list(spec[2])
        return D.StructOf(opt, **{n: build(m) for n, m in spec[1]})
    return T.build(spec)


def all_types(tier):
    return T.all_types(tier, 3) + ext_types()


def bigint_types():
    """integer types whose limits / values a double can not represent (used by C02 only)"""
    i64, u64 = ('int', -2 ** 63, 2 ** 63 - 1), ('int', 0, 2 ** 64 - 1)
    i53 = ('int', -2 ** 53 - 1, 2 ** 53 + 1)
    top = ('int', 2 ** 63 - 1, 2 ** 63 - 1)
    wide = ('int', -2 ** 64, 2 ** 64)
    return [u64, i53, top, wide,
            ('array', u64, 0, 3), ('array', i53, 1, 2), ('tuple', (i64, u64)), ('tuple', (top,)),
            ('struct', (('a', i53), ('b', u64)), ('b',)), ('array', ('tuple', (i64, i53)), 0, 2)]


def c02_types(tier):
    return all_types(tier) + bigint_types()


# ---------------------------------------------------------------------------------------------
# value catalogue extension (derived from the spec only)

def _pow_ints():
    res = [0, 1, -1, 2, 10, 100, 1000, 10 ** 6, 10 ** 9, 10 ** 15, 10 ** 18]
    for k in (7, 8, 15, 16, 24, 31, 32, 53, 63, 64):
        res += [2 ** k, 2 ** k - 1, 2 ** k + 1, -2 ** k, -2 ** k + 1, -2 ** k - 1]
    return res


POW_INTS = _pow_ints()
NASTY_FLOATS = [-0.0, 0.1, 1 / 3, 2 / 3, 1e-7, 1e-5, 0.0001, 0.30000000000000004, 2.675, 123456.789, 1234567.0,
                1e15 + 0.5, 9007199254740993.0, 1e16, 1e22, 1e23, 5e-324, 2.2250738585072014e-308, 1.7e-300,
                T.FMAX, -T.FMAX, -2.5, -1e-7, 99.99999999, 4.999999999999999, 100.0, -100.0]
STRINGS = ['None', "it's", '"""', "'''", '\\n', '\t', 'a,b', '(1,)', '{', '#x', ' ', '\r\n', '\x7f', '\x01', 'x' * 1000,
           'xx', 'xyz', 'wxyz', '\\"', "\\'", 'a\\', '%s', '{0}']
UTF8_STRINGS = ['\u2028', '\ud7ff', '\uffff', '\xe4"\\', '\xe9' * 4, '\U0010ffff', '\xb5', '\x80', '\U00010000', '\U0001f600',
                # code points that are no characters: lone high / low surrogates, what bytes.decode(errors='surrogateescape')
                # yields for undecodable bytes (U+DC80..U+DCFF), halves of a pair, a reversed pair and the two halves of a
                # pair as separate code points
                '\ud800', '\udbff', '\udc00', '\udfff', '\udc80', '\udcff', 'T\udcb0C', '25\udcb0', '\udcc3\udca4',
                'a\ud83d', '\ude00b', '\udc00\ud800', '\ude00\ud83d', '\ud800\udc00', '\ud83d\ude00']


def deep():
    return core.TIER == 'thorough'


def hostile_strings():
    """all strings up to length 2 (thorough: 3) over an alphabet of quoting-hostile characters"""
    alpha = ['"', "'", '\\', '\n', 'a', ' ']
    if deep():
        alpha += ['\t', '#', ',', '\r', '{', '(', '%']
    res = list(alpha)
    last = list(alpha)
    for _ in range(2 if deep() else 1):
        last = [a + b for a in last for b in alpha]
        res += last
    return res


def extra(spec, entry):
    """further valid candidates of the leaf kinds / containers built from them; complements V.valid(spec, entry)"""
    k = spec[0]
    win = 2048 if deep() else 16
    if k == 'double':
        lo, hi, _, _ = T.double_limits(spec)
        vals = []
        a, b = lo, hi
        for _ in range(64 if deep() else 2):
            a, b = math.nextafter(a, hi), math.nextafter(b, lo)
            vals += [a, b]
        vals += [f for f in NASTY_FLOATS if lo <= f <= hi]
        vals += [n for n in (3, -7, 2 ** 53 + 1) if lo <= n <= hi]
        return vals
    if k == 'int':
        lo, hi = T.int_limits(spec)
        near = [lo + i for i in range(1, win + 1)] + [hi - i for i in range(1, win + 1)] + list(range(-win, win + 1))
        return [n for n in near + POW_INTS if lo <= n <= hi]
    if k == 'scaled':
        scale, lo, hi = T.scaled_limits(spec)
        nlo, nhi = round(lo / scale), round(hi / scale)
        if nhi - nlo <= 4096:
            ns = list(range(nlo, nhi + 1))
        else:
            ns = list(range(nlo, nlo + win + 1)) + list(range(nhi - win, nhi + 1)) + list(range(-win, win + 1))
            ns += [n for n in POW_INTS + [33333, 12345678, -7654321, 999999, 1000001]]
            ns = [n for n in ns if nlo <= n <= nhi]
        return ns if entry == 'wire' else [n * scale for n in ns]
    if k in ('bool', 'enum'):
        return []
    if k == 'string':
        lo, hi, utf8 = spec[1], spec[2], spec[3]
        pool = STRINGS + hostile_strings() + (UTF8_STRINGS if utf8 else [])
        if hi is not None:
            pool = pool + ['x' * hi, '"' * hi, '\\' * hi]
        return [s for s in pool if lo <= len(s) and (hi is None or len(s) <= hi)]
    if k == 'blob':
        lo, hi = spec[1], spec[2]
        allb = bytes(range(256))
        n = min(hi, 256)
        pool = []
        if n:
            pool += [(allb + allb)[i:i + n] for i in range(0, 256, n)]        # every byte value occurs
            pool += [(allb + allb)[i:i + max(lo, 1)] for i in range(0, 256, max(lo, 1))] if lo != n else []
        pool += [b'\xfb\xef\xbe', b'\xff\xff\xff', b'\xfb\xff', b'\xff', b'\xfb\xef\xbe\xfb']   # '+' and '/' in all paddings
        pool += [b'a' * i for i in range(0, 7)]
        vals = V.dedupe([b for b in pool if lo <= len(b) <= hi])
        return [V.b64(b) for b in vals] if entry == 'wire' else vals
    if k == 'array':
        m, lo, hi = spec[1], spec[2], spec[3]
        mv = values(m, entry)
        res = []
        for n in V.dedupe([hi, max(lo, 1) if hi else 0]):
            if not n:
                continue
            for i in range(0, len(mv), n):       # windows: every member value occurs in some array
                res.append([mv[(i + j) % len(mv)] for j in range(n)])
        return res
    if k == 'tuple':
        mvs = [values(m, entry) for m in spec[1]]
        n = max(len(v) for v in mvs)
        return [[v[i % len(v)] for v in mvs] for i in range(n)]
    if k == 'struct':
        names = [n for n, _ in spec[1]]
        mvs = {n: values(m, entry) for n, m in spec[1]}
        optional = names if spec[2] is None else list(spec[2])
        n = max(len(v) for v in mvs.values())
        res = [{nm: mvs[nm][i % len(mvs[nm])] for nm in names} for i in range(n)]
        for o in optional:                       # every optional member lacking, with varying other members
            for i in (1, 2):
                res.append({nm: mvs[nm][i % len(mvs[nm])] for nm in names if nm != o})
        return res
    raise ValueError(spec)


def values(spec, entry):
    return V.dedupe_repr(list(V.valid(spec, entry)) + extra(spec, entry))


def strict(spec, x, entry):
    """is candidate x in the strict form of its kind (the form whose acceptance the statement obliges)?"""
    k = spec[0]
    isint = isinstance(x, int) and not isinstance(x, bool)
    if k == 'double':
        return isint or isinstance(x, float)
    if k == 'int':
        return isint
    if k == 'scaled':
        return isint if entry == 'wire' else (isint or isinstance(x, float))
    if k == 'bool':
        return isinstance(x, bool)
    if k == 'enum':
        return isint or (entry == 'drv' and isinstance(x, str))
    if k == 'string':
        return isinstance(x, str)
    if k == 'blob':
        return isinstance(x, str) if entry == 'wire' else isinstance(x, bytes)
    if k == 'array':
        return isinstance(x, (list, tuple)) and all(strict(spec[1], e, entry) for e in x)
    if k == 'tuple':
        return isinstance(x, (list, tuple)) and len(x) == len(spec[1]) and \
            all(strict(m, e, entry) for m, e in zip(spec[1], x))
    if k == 'struct':
        members = dict(spec[1])
        return isinstance(x, dict) and all(n in members and strict(members[n], e, entry) for n, e in x.items())
    return False


def complete(spec, v):
    """no optional struct member is lacking anywhere in internal value v"""
    k = spec[0]
    try:
        if k == 'array':
            return all(complete(spec[1], e) for e in v)
        if k == 'tuple':
            return all(complete(m, e) for m, e in zip(spec[1], v))
        if k == 'struct':
            return all(n in v and complete(m, v[n]) for n, m in spec[1])
    except Exception:
        return False
    return True


def kind_check(spec, v, e):
    """None, or (law, kind, reason-class): does JSON value e have the prescribed kind and denote internal value v?"""
    k = spec[0]
    isint = type(e) is int
    if k == 'double':
        if type(e) not in (int, float):
            return 'kind', k, f'exported as {type(e).__name__} instead of a number'
        if not math.isfinite(e):
            return 'kind', k, 'exported as a non-finite number'
        if e != v:
            return 'denote', k, 'exported number differs from the value'
    elif k == 'int':
        if not isint:
            return 'kind', k, f'exported as {type(e).__name__} instead of an integer'
        if e != v:
            return 'denote', k, 'exported integer differs from the value'
    elif k == 'scaled':
        if not isint:
            return 'kind', k, f'exported as {type(e).__name__} instead of an integer'
        scale = spec[1]
        if not abs(e - v / scale) < 0.5:
            return 'denote', k, 'exported integer is not value/scale rounded to nearest'
    elif k == 'bool':
        if type(e) is not bool:
            return 'kind', k, f'exported as {type(e).__name__} instead of true/false'
        if e != v:
            return 'denote', k, 'exported truth value differs'
    elif k == 'enum':
        if not isint:
            return 'kind', k, f'exported as {type(e).__name__} instead of an integer'
        if dict(spec[1]).get(getattr(v, 'name', None)) != e:
            return 'denote', k, 'exported integer is not the value of the member'
    elif k == 'string':
        if type(e) is not str:
            return 'kind', k, f'exported as {type(e).__name__} instead of a string'
        if e != v:
            return 'denote', k, 'exported string differs from the value'
    elif k == 'blob':
        if type(e) is not str:
            return 'kind', k, f'exported as {type(e).__name__} instead of a base64 string'
        dec = R.strict_b64(e)
        if dec is None:
            return 'kind', k, 'exported string is not standard base64'
        if dec != v:
            return 'denote', k, 'exported base64 does not decode to the value'
    elif k in ('array', 'tuple'):
        if type(e) is not list:
            return 'kind', k, f'exported as {type(e).__name__} instead of a list'
        if len(e) != len(v):
            return 'denote', k, 'exported list has another length than the value'
        members = [spec[1]] * len(e) if k == 'array' else spec[1]
        if len(members) != len(e):
            return 'denote', k, 'exported list has another length than the tuple type'
        for m, ve, ee in zip(members, v, e):
            res = kind_check(m, ve, ee)
            if res:
                return res
    elif k == 'struct':
        if type(e) is not dict:
            return 'kind', k, f'exported as {type(e).__name__} instead of an object'
        if not all(type(n) is str for n in e):
            return 'kind', k, 'exported object has non-string keys'
        if set(e) != set(v):
            return 'denote', k, 'exported object has other members than the value'
        members = dict(spec[1])
        for n, ee in e.items():
            res = kind_check(members[n], v[n], ee)
            if res:
                return res
    return None


def canon_wire(spec, x, entry):
    """the wire form SECoP prescribes for strict-form candidate x, derived from the spec and x only"""
    k = spec[0]
    if k == 'double':
        return float(x)
    if k == 'int':
        return int(x)
    if k == 'scaled':
        return int(x) if entry == 'wire' else round(x / spec[1])
    if k == 'bool':
        return bool(x)
    if k == 'enum':
        return dict(spec[1])[x] if isinstance(x, str) else int(x)
    if k == 'string':
        return x
    if k == 'blob':
        return x if entry == 'wire' else V.b64(x)
    if k == 'array':
        return [canon_wire(spec[1], e, entry) for e in x]
    if k == 'tuple':
        return [canon_wire(m, e, entry) for m, e in zip(spec[1], x)]
    if k == 'struct':
        members = dict(spec[1])
        return {n: canon_wire(members[n], e, entry) for n, e in x.items()}
    raise ValueError(spec)


def wdiff(spec, e, c):
    """kind at the first position where exported JSON value e differs from canonical wire form c, else None.
    Integers must be identical integers (1 == 1.0 == True is not good enough on the wire)"""
    k = spec[0]
    if k in ('array', 'tuple'):
        if type(e) is not list or len(e) != len(c):
            return k
        members = [spec[1]] * len(c) if k == 'array' else spec[1]
        for m, ee, cc in zip(members, e, c):
            d = wdiff(m, ee, cc)
            if d:
                return d
        return None
    if k == 'struct':
        if type(e) is not dict or set(e) != set(c):
            return k
        members = dict(spec[1])
        for n in c:
            d = wdiff(members[n], e[n], c[n])
            if d:
                return d
        return None
    if k == 'double':
        return None if type(e) in (int, float) and e == c else k
    return None if type(e) is type(c) and e == c else k


SURR_PAIR = re.compile('[\ud800-\udbff][\udc00-\udfff]')
SURR_ANY = re.compile('[\ud800-\udfff]')


def value_class(kind, v):
    """input class of a leaf value for the signature (strings: surrogate code points are no characters; JSON text can not
    tell the two halves of a pair given as separate code points from the astral character)"""
    if kind == 'string' and isinstance(v, str):
        if SURR_PAIR.search(v):
            return ':high-low-surrogates-as-separate-code-points'
        if SURR_ANY.search(v):
            return ':lone-surrogate'
    return ''


def vdiff(spec, a, b, skipfloat=False):
    """None if a equals b (==), else (kind at the first difference, reason-class).  skipfloat: double/scaled leaves
    are exempt (container shapes are not)"""
    k = spec[0]
    if not skipfloat:
        try:
            if a == b:
                return None
        except Exception:
            pass
    if k in ('array', 'tuple'):
        if not isinstance(a, (tuple, list)) or not isinstance(b, (tuple, list)) or type(a) is not type(b):
            return k, f'{type(a).__name__}-became-{type(b).__name__}'
        if len(a) != len(b):
            return k, 'length-differs'
        members = [spec[1]] * len(a) if k == 'array' else spec[1]
        for m, ae, be in zip(members, a, b):
            res = vdiff(m, ae, be, skipfloat)
            if res:
                return res
        return (k, 'differs') if not skipfloat and a != b else None
    if k == 'struct':
        if not isinstance(a, dict) or not isinstance(b, dict):
            return k, f'{type(a).__name__}-became-{type(b).__name__}'
        if set(a) != set(b):
            return k, 'members-differ'
        members = dict(spec[1])
        for n in a:
            res = vdiff(members[n], a[n], b[n], skipfloat)
            if res:
                return res
        return None
    if skipfloat and k in FLOATKINDS:
        return None
    try:
        if a == b:
            return None
    except Exception:
        pass
    return k, 'value-differs' + value_class(k, a)


def children(spec, v):
    """(sub-spec, sub-value) pairs one level below"""
    k = spec[0]
    try:
        if k == 'array':
            return [(spec[1], e) for e in v]
        if k == 'tuple':
            return list(zip(spec[1], v))
        if k == 'struct':
            return [(m, v[n]) for n, m in spec[1] if n in v]
    except Exception:
        pass
    return []


def shape(spec, v):
    """input class of a value at the level where a law fails (part of the signature)"""
    k = spec[0]
    try:
        if k == 'tuple':
            return 'tuple:arity1' if len(spec[1]) == 1 else 'tuple:arityN'
        if k == 'array':
            return 'array:nonempty' if len(v) else 'array:empty'
        if k == 'struct':
            return 'struct:complete' if all(n in v for n, _ in spec[1]) else 'struct:lacking-optional'
    except Exception:
        pass
    return k


def localise(spec, v, fails):
    """innermost (sub-spec, sub-value) for which the law still fails on its own: fails(Types(sub-spec), sub-value)"""
    for sub, sv in children(spec, v):
        try:
            bad = fails(Types(sub), sv)
        except Exception:
            bad = False
        if bad:
            return localise(sub, sv, fails)
    return spec, v


def raises(fn, *args):
    try:
        fn(*args)
    except Exception:
        return True
    return False


def not_strict_json(dt, v):
    try:
        e = dt.export_value(v)
    except Exception:
        return False
    return _dumps_fails(e)


def _dumps_fails(e):
    try:
        json.dumps(e, allow_nan=False)
    except Exception:
        return True
    return False


class FrameError(Exception):
    pass


def through_frame(side, e):
    """the exported value on its way through the REAL frame functions of frappy.protocol.interface, as the node sends it
    (update m:p [value, qualifiers]) resp. as the client sends it (change m:p value): -> the JSON value the peer decodes"""
    from frappy.protocol.interface import encode_msg_frame, decode_msg, get_msg, EOL
    action, data = ('update', [e, {'t': 1.5}]) if side == 'node' else ('change', e)
    frame = encode_msg_frame(action, 'm:p', data)
    if not isinstance(frame, bytes) or not frame.endswith(EOL) or frame.count(EOL) != 1:
        raise FrameError('the frame is not exactly one line')
    msg, rest = get_msg(frame)
    if rest:
        raise FrameError('bytes left over after deframing')
    a2, s2, d2 = decode_msg(msg)
    if (a2, s2) != (action, 'm:p'):
        raise FrameError('action / specifier changed')
    if side == 'node':
        if not isinstance(d2, list) or len(d2) != 2 or d2[1] != {'t': 1.5}:
            raise FrameError('report structure changed')
        return d2[0]
    return d2


def frame_fails(dt, side, v):
    try:
        e = dt.export_value(v)
        json.dumps(e, allow_nan=False)
    except Exception:
        return False
    return raises(through_frame, side, e)


def text_refused(dt, v):
    try:
        s = dt.to_string(v)
    except Exception:
        return False
    return raises(dt.from_string, s)


def text_unstable(dt, v):
    try:
        s = dt.to_string(v)
        return dt.to_string(dt.from_string(s)) != s
    except Exception:
        return False


# ---------------------------------------------------------------------------------------------

class Types:
    """the two datatype objects of a spec, built fresh"""
    def __init__(self, spec):
        from frappy.datatypes import get_datatype
        self.spec = spec
        self.node = build(spec)
        self.datainfo = json.loads(json.dumps(self.node.export_datatype()))
        self.client = get_datatype(self.datainfo, 'p')

    def side(self, name):
        return self.node if name == 'node' else self.client


def node_import(dt, e):
    return dt.validate(dt.import_value(e))       # Dispatcher._setParameterValue


def client_import(dt, e):
    return dt.import_value(e)                    # SecopClient (updates, replies)


class Checker:
    def __init__(self, part):
        self.part = part
        from frappy.client import CacheItem
        self.CacheItem = CacheItem

    def call(self, fn, *args):
        self.part.transitions += 1
        try:
            return True, fn(*args)
        except Exception as e:
            return False, e

    def viol(self, law, side, kind, cls, case, detail):
        self.part.violation(f'C02:{law}:{side}:{kind}:{cls}', case, detail)

    def derive(self, ts, side, entry, x, case):
        """candidate -> internal value of datatype `side`; decides the accept law.  returns (ok, v)"""
        part, spec = self.part, ts.spec
        dt = ts.side(side)
        top = spec[0]
        part.evaluations += 1
        if entry == 'wire':
            ok, v = self.call(node_import, dt, x)
        else:
            ok, v = self.call(dt.validate, x)
        isstrict = strict(spec, x, entry)
        tag = 'strict' if isstrict else 'lenient'
        part.outcomes[f'{top}:{side}:{entry}:{tag}:{"accepted" if ok else "refused"}'] += 1
        if not ok and isstrict:
            if entry == 'wire':
                sub, sx = localise(spec, x, lambda t, sx: raises(node_import, t.side(side), sx))
            else:
                sub, sx = localise(spec, x, lambda t, sx: raises(t.side(side).validate, sx))
            self.viol('accept', side, shape(sub, sx), f'{entry}:{type(v).__name__}', case,
                      f'{T.sstr(spec)} [{side} datatype] {entry} candidate {x!r} is a valid value but was refused: '
                      f'{type(v).__name__}: {v} (innermost refused part: {T.sstr(sub)} {sx!r})')
        if ok and isstrict:
            self.denotes(ts, side, entry, x, v, case)
        return ok, v

    def denotes(self, ts, side, entry, x, v, case):
        """the accepted internal value must denote the offered candidate (independent reference), and its exported form
        must be the canonical wire form derived from the spec and the candidate"""
        part, spec = self.part, ts.spec
        dt = ts.side(side)
        part.traces += 1
        res = R.judge(spec, x, v, None, entry)
        part.outcomes[f'{spec[0]}:{side}:{entry}:value:{"denotes-candidate" if not res else "differs"}'] += 1
        if res:
            self.viol('value', side, res[2], f'{res[0]}:{norm(res[1])}', case,
                      f'{T.sstr(spec)} [{side} datatype] {entry} candidate {x!r} was accepted as {v!r}: {res[1]}')
        ok, e = self.call(dt.export_value, v)
        if not ok:
            return     # judged by the export law
        canon = canon_wire(spec, x, entry)
        d = wdiff(spec, e, canon)
        part.outcomes[f'{spec[0]}:{side}:{entry}:wire-form:{"canonical" if not d else "differs"}'] += 1
        if d:
            self.viol('wire-form', side, d, 'differs-from-canonical-form-of-the-candidate', case,
                      f'{T.sstr(spec)} [{side} datatype] {entry} candidate {x!r} (internal value {v!r}) is exported as {e!r}, '
                      f'the wire form of that candidate is {canon!r}')

    def laws(self, ts, side, v, case):
        """all laws for internal value v of datatype `side`"""
        part, spec = self.part, ts.spec
        dt = ts.side(side)
        top = spec[0]
        where = f'{T.sstr(spec)} [{side} datatype] v={v!r}'
        iscomplete = complete(spec, v)
        if not iscomplete:
            part.outcomes['struct:value-lacking-optional-member'] += 1
        # ---- wire
        part.traces += 1
        ok, e = self.call(dt.export_value, v)
        if not ok:
            part.outcomes[f'{top}:{side}:export:raised'] += 1
            sub, sv = localise(spec, v, lambda t, x: raises(t.side(side).export_value, x))
            self.viol('export', side, shape(sub, sv), type(e).__name__, case,
                      f'{where}: export_value raised {type(e).__name__}: {e} (innermost failing part: {T.sstr(sub)} {sv!r})')
        else:
            try:
                text = json.dumps(e, allow_nan=False)
                e2 = json.loads(text)
            except Exception as ex:
                text = None
                sub, sv = localise(spec, v, lambda t, x: not_strict_json(t.side(side), x))
                self.viol('json', side, shape(sub, sv), type(ex).__name__, case,
                          f'{where}: exported {e!r} is not strict JSON: {type(ex).__name__}: {ex}')
            if text is not None:
                # the way to the peer leads through the real frame functions
                part.traces += 1
                ok, ef = self.call(through_frame, side, e)
                part.outcomes[f'{top}:{side}:frame:{"ok" if ok else "raised"}'] += 1
                if not ok:
                    sub, sv = localise(spec, v, lambda t, x: frame_fails(t.side(side), side, x))
                    self.viol('frame', side, shape(sub, sv), type(ef).__name__, case,
                              f'{where}: exported as {text}; building / decoding the message frame raised '
                              f'{type(ef).__name__}: {ef} (innermost failing part: {T.sstr(sub)} {sv!r})')
                else:
                    if repr(ef) != repr(e2):
                        part.outcomes['frame:payload-differs-from-plain-json'] += 1
                    e2 = ef      # what the peer really receives
                if e2 != e or repr(e2) != repr(e):
                    # tuples become lists, EnumMembers ints ...: caught by the kind law below with a better message
                    part.outcomes['json:changed-by-serialisation'] += 1
                res = kind_check(spec, v, e)
                if res:
                    self.viol(res[0], side, res[1], norm(res[2]), case, f'{where}: exported {e!r}: {res[2]}')
                part.outcomes[f'{top}:{side}:export:{"ok" if not res else res[0]}'] += 1
                for iside, imp in (('node', node_import), ('client', client_import)):
                    part.traces += 1
                    ok, v2 = self.call(imp, ts.side(iside), e2)
                    if not ok:
                        part.outcomes[f'{top}:{side}->{iside}:reimport:refused'] += 1
                        sub, sv = localise(spec, v, lambda t, x: raises(
                            imp, t.side(iside), json.loads(json.dumps(t.side(side).export_value(x)))))
                        self.viol(f'reimport-{iside}', side, shape(sub, sv), type(v2).__name__, case,
                                  f'{where}: exported as {text}; importing that on the {iside} datatype raised '
                                  f'{type(v2).__name__}: {v2}')
                        continue
                    d = vdiff(spec, v, v2)
                    part.outcomes[f'{top}:{side}->{iside}:reimport:{"equal" if not d else "differs"}'] += 1
                    if d:
                        self.viol(f'reimport-{iside}', side, d[0], d[1], case,
                                  f'{where}: exported as {text}; importing that on the {iside} datatype gave {v2!r}')
        # ---- text
        if side == 'node' and not iscomplete:
            part.outcomes['text:node:skipped-incomplete'] += 1
            return
        forms = []
        ok, s = self.call(dt.to_string, v)
        forms.append(('to_string', ok, s))
        if side == 'client':
            ok2, s2 = self.call(lambda: str(self.CacheItem(v, None, None, dt)))
            if (ok2, s2) != (ok, s):
                forms.append(('CacheItem.__str__', ok2, s2))
                part.outcomes['text:CacheItem-differs-from-to_string'] += 1
        for fname, ok, s in forms:
            part.traces += 1
            if not ok:
                self.viol('text-form', side, top, f'{type(s).__name__}:{norm(s)}', case,
                          f'{where}: {fname} raised {type(s).__name__}: {s}')
                continue
            if not isinstance(s, str):
                self.viol('text-form', side, top, 'not-a-string', case, f'{where}: {fname} returned {s!r}')
                continue
            ok, v2 = self.call(dt.from_string, s)
            if not ok:
                part.outcomes[f'{top}:{side}:text:refused'] += 1
                sub, sv = localise(spec, v, lambda t, x: text_refused(t.side(side), x))
                self.viol('text-accept', side, shape(sub, sv), type(v2).__name__, case,
                          f'{where}: text form {s!r} is refused by from_string: {type(v2).__name__}: {v2} '
                          f'(innermost failing part: {T.sstr(sub)} {sv!r})')
                continue
            ok, s2 = self.call(dt.to_string, v2)
            if not ok or s2 != s:
                sub, sv = localise(spec, v, lambda t, x: text_unstable(t.side(side), x))
                part.outcomes[f'{top}:{side}:text:unstable'] += 1
                self.viol('text-stable', side, shape(sub, sv), 'text-form-changes', case,
                          f'{where}: text form {s!r} is read back as {v2!r} whose text form is {s2!r}')
                continue
            d = vdiff(spec, v, v2, skipfloat=True)
            if d:
                part.outcomes[f'{top}:{side}:text:value-changed'] += 1
                self.viol('text-value', side, d[0], d[1], case,
                          f'{where}: text form {s!r} is read back as {v2!r} (differs at a non-float leaf)')
                continue
            exact = vdiff(spec, v, v2) is None
            part.outcomes[f'{top}:{side}:text:{"exact" if exact else "rounded-float"}'] += 1


def nontrivial(spec, v):
    """the encoding is not the identity for this value (or the value lacks an optional member)"""
    return spec[0] not in ('int', 'string', 'bool') or not complete(spec, v)


def check_type(spec, part, only_case=None):
    chk = Checker(part)
    ts = Types(spec)
    seen = set()
    for side in ('node', 'client'):
        for entry in ('wire', 'drv'):
            if only_case is not None and (only_case['side'] != side or only_case['entry'] != entry):
                continue
            # a replay executes the recorded candidate itself, without consulting the catalogue
            for x in (values(spec, entry) if only_case is None else [V.dec(only_case['x'])]):
                case = {'spec': T.tojson(spec), 'side': side, 'entry': entry, 'x': V.enc(x)}
                ok, v = chk.derive(ts, side, entry, x, case)
                if not ok:
                    continue
                key = (side, repr(v))
                if key in seen:
                    continue
                seen.add(key)
                part.states += 1
                if nontrivial(spec, v):
                    part.nontrivial += 1
                if part.states % 997 == 1:
                    part.sample({'type': T.sstr(spec), 'datatype': side, 'entry': entry, 'candidate': V.enc(x),
                                 'value': repr(v)[:80]})
                chk.laws(ts, side, v, case)


def shard_fn(specs):
    part = core.Part()
    for spec in specs:
        check_type(spec, part)
    return part


def run(ctx):
    types = c02_types(ctx.tier)
    # heavy types (large blobs / full scaled grids, containers of strings) are spread by interleaving
    n = 256
    shards = [types[i::n] for i in range(n)]
    ctx.pmap(shard_fn, [s for s in shards if s], name='roundtrip')
    ctx.rule = ('enumeration: every type of the catalogue (all leaf kinds with boundary limits, containers to depth 3, plus 38 '
                '(+ the scaled limit-grid family: 6 scales x every n) '
                'types carrying unit / fmtstr / resolution properties (incl. resolutions of exactly 0), scales and limits that need '
                'more than 6 significant digits, and 10 integer types with limits / values beyond 2^53) x '
                '{node datatype, client datatype rebuilt from the JSON datainfo} x every valid candidate of the spec-derived '
                'value catalogue (limits and their neighbours, all grid points of small scaled ranges / edge and power-of-two '
                'grid points of large ones, every enum member, every byte value, all base64 paddings, quoting-hostile, '
                'non-ASCII, astral and lone-surrogate strings, empty/maximal containers, structs lacking optional members) in wire and driver form; '
                'per strict candidate: the accepted value denotes the candidate (reference model) and is exported in the canonical wire '
                'form of the candidate; per distinct internal value: export, strict JSON, kind, denotation, re-import on node and client, text form '
                'round trip.  states = distinct (datatype object, internal value); distinct_nontrivial = those whose encoding '
                'is not the identity (not a plain int/string/bool) or that lack an optional member; evaluations = candidates '
                'offered; traces = round trips compared; transitions = calls into frappy')
    ctx.coverage.update(types=len(types), bound_completed='type depth<=3, complete value catalogue',
                        depth_histogram={d: sum(1 for t in types if T.depth(t) == d) for d in (1, 2, 3)})
    ctx.assume('values and limits outside the catalogues are not covered',
               'generalConfig.lazy_number_validation is False (the default)',
               'format strings enumerated: %g (default), %.3f, %.1f; scales 0.1, 0.001, 2, 1e-6, 0.5, 0.01, 1/1024, 2^-20, 1/3, 0.0123456789',
               'what SecopClient.setParameterFromString puts on the wire afterwards is outside this property '
               '(the statement stops at the text form)')


def replay(case):
    part = core.Part()
    check_type(T.fromjson(case['spec']), part, only_case=case)
    return part
