"""C18 - linked parameters stay mutually consistent.

enumx: explicit-state breadth-first search over operation sequences on *generated* modules (classes made with
type() from a menu, so that every case is data) running in a real in-process node (real SecNode, Dispatcher,
Module/Parameter machinery, frappy.extparams, frappy.params.Limit, Module.checkLimits, frappy.mixins).

Four families of models (one model = one generated layout x one clock mode):
  struct    StructParam with 2-3 members; combined read/write methods (both / read only / write only), separate
            member methods (all / some / none), readonly or not, members with or without own defaults; hardware that
            stores what it is given, and (layouts with write methods) hardware that alters it: 0.5 grid, one member clamped
  floatenum FloatEnumParam with label sets {plain, explicit indices + unit prefixes, explicit values (not monotonic),
            gaps, duplicated value, every unit prefix of the table}; index parameter software only / write method / read +
            write methods; hardware that stores the index it is given or coerces it (clips the highest index, stays on a
            fixed index, rounds down to every second index); readonly or not
  limits    <p>_min, <p>_max, both, <p>_limits (automatic TupleOf), <p>_limits typed LimitsType on int / float / scaled
            base parameters (custom parameter x and predefined target), limits optionally preset by configuration; class
            layout: limits declared in the class of the base parameter / in a subclass / in a mixin, the ancestor with or
            without a hand-written check_<p> hook (accepting everything / refusing one value); limits coming from a plain
            mixin / a Feature class and redeclared in the module class (Limit(value=..) again / bare value / by cfg only),
            the module class with or without its own non-terminating check_<p>, with or without a sibling defined earlier
  control   1-3 HasOutputModule controllers on one HasControlledBy output (+ optionally one controller without output);
            nodes with 2-3 such outputs, each with its own 1-2 controllers; controllers whose set_control_active override
            writes the output when switched off (re-entrant hand-over) and / or fails to switch off / on (toggled)

Search: a state is the history (tuple of operations) that reaches it.  Each expansion builds a fresh node, replays the
history and applies one more operation (live frappy objects do not deep-copy).  Level-synchronous BFS to a depth bound;
states are merged on a canonical key; a model whose frontier runs empty before the bound is *closed* (the result then
holds for every longer sequence over the same menu, except behind pruned violating states).  Depth 4 (quick) / 5
(thorough).  The thorough tier adds: 3-member variants of every struct layout, failing hardware reads, nextafter()
neighbours of limits and of float-enum midpoints, failing reads on the remaining struct layouts, int / scaled bases for
the class layouts of the limits family, the fast clock for the limits family and the remaining float-enum
layouts.  Invariants are evaluated in every state, transition oracles on every (state, operation) pair.  A state that violates an invariant is reported and not expanded further, so the
reported history ends with the operation that introduced the inconsistency.

Canonical key (argument for merging): the future behaviour of the code under test depends on (a) value, readerror and
"was announced at least once" of every parameter of every module, (b) the fake hardware registers of the generated
driver, (c) the re-entrance counter StructParam.insideRW, (d) the constant layout (callbacks, enum of controlled_by,
one activated connection).  (a)-(c) are in the key together with the client's view reconstructed from the update
stream (so that stream invariants are a function of the key).  Time stamps are not: the clock is virtual and each model
runs in one of two modes in which every comparison `timestamp < last + omit_unchanged_within` has a fixed result - slow
(every clock reading advances 1 s: unchanged values are always re-announced) and fast (1 us per reading: an unchanged
value of a parameter that was announced before is never re-announced, its callbacks do not run).

Oracle (written from the statement, not from the implementation):
  S  struct[m] == member m for every member m, on the cache and on the client's view built from the update stream
  F  float == value-of(current index) (reference table index -> value written by hand in this file), cache and view;
     an accepted write of v leaves the float on a value with minimal |value - v| (exact rational arithmetic)
  L  a write of the base parameter with a value outside the current limits (cache before the write) is refused and
     leaves the cache of the base parameter untouched; an inverted pair is refused
  C  for every output of the node: at most one of its controllers has control_active; its controlled_by names exactly
     that one (self when none); after a take-over the previous controller is off; an operation on one output or on one
     of its controllers does not change controlled_by / control_active of another output's group

Oracle calibration (weaker reading taken wherever the statement leaves latitude):
  * values are compared only between parameters that are not in error state (readerror set = "not initialized" or a
    failed hardware read): a parameter in error shows no value to a client, so there is nothing to disagree with.
  * driver-side *assignments* go to the primary side of a layout only: the struct when combined read/write methods
    exist, the members otherwise; the index of a float/enum pair, never the float.  Assigning to the derived side is
    outside the documented use.  Client requests and read_/write_ calls go to both sides.
  * consistency is demanded at quiescent points (after an operation returned), not between two updates of one operation.
  * float/enum: candidates whose distance is within 1e-9 (relative) of the minimum count as ties; either is accepted.
    A write outside [min, max] may be refused or may select the extreme value.  Acceptance of in-range values is not
    demanded.  "Closest" is demanded of hardware that stores the index it is given; for the layouts whose hardware
    coerces the index the device decides where a write lands, and only F (float == value of the CURRENT index, cache
    and stream) is demanded.
  * limits: only the refusing direction is demanded (inside-the-limits values may be refused, e.g. by the datatype).
    Any SECoP error counts as refusal (the class is recorded in the outcome histogram; the statement names none).
    "an inverted limits pair is refused": for a parameter typed LimitsType the write of the inverted pair itself must
    be refused (that is the only purpose of the type); for separate <p>_min / <p>_max and for the automatic
    <p>_limits = TupleOf(base, base) the statement is read as "while the pair is inverted no value of the base
    parameter is accepted" (the pinned test-suite documents that setting a_min > a_max is possible and then every write
    is refused).  Acceptance of an inverted pair by the automatic TupleOf is counted (outcome limits:inverted-pair-stored).
  * control: operations are the documented entry points only - write target on a controller (its write_target calls
    activate_control), write target on the output (calls self_controlled), update_target by the controller that is
    active.  deactivate_control() called directly by a driver and update_target by a non-controlling module are not
    issued (undocumented use; the statement does not say what controlled_by should show then).
  * altering hardware: write methods answer with the value the device really took (rounded / clamped), as the documented
    contract of write_<param> asks; the struct / member agreement is then demanded on the altered values.
  * control with failing hardware: the clauses of the statement (at most one controller marked; the output names exactly
    the marked one) are demanded in every state, also after an operation that raised.  What controlled_by shows while NO
    controller is marked is not said by the statement: 'self' is demanded (DESIGN reading) in histories without a
    hardware fault only; once a set_control_active override has raised in the history, that clause is dropped (frappy
    leaves the output naming the newcomer whose activation failed).  Violations introduced by an operation that raised
    carry ':failed' in the signature.
  * a struct in error state is not compared with its members (see above), but it must follow them: after a successful
    operation on one member that was published, a struct without combined methods must not stay in error state
    (otherwise "agree" could be satisfied by a struct that never shows anything).
  * hardware refusals: the generated driver refuses one marker value (member i == 13) with HardwareError and can be
    switched to fail reads (thorough tier): "every history of reads, writes and updates" includes failing ones.
"""
import fractions
import hashlib
import json
import logging
import math
import random
import time as _realtime

from vf import core, nodes

import frappy.modulebase
from frappy.core import FloatRange, IntRange, Module, Parameter, ScaledInteger, Writable
from frappy.modulebase import Feature
from frappy.datatypes import LimitsType
from frappy.errors import CommunicationFailedError, HardwareError, RangeError, SECoPError
from frappy.extparams import FloatEnumParam, StructParam
from frappy.mixins import HasControlledBy, HasOutputModule
from frappy.params import Limit

PROPERTY = 'C18'

# debug / info records of the node are not part of the observation (warnings and errors are still captured by the node)
logging.disable(logging.INFO)


# ---------------------------------------------------------------------------------------------
# virtual clock (bound into frappy.modulebase: the only clock read by the code under test here)

class VClock:
    def __init__(self):
        self.now = 1e9
        self.step = 1.0
        self.calls = 0

    def reset(self, step):
        self.now, self.step, self.calls = 1e9, step, 0

    def time(self):
        self.calls += 1
        self.now += self.step
        return self.now

    def sleep(self, _):
        raise core.Inconclusive('code under test called time.sleep')

    def __getattr__(self, name):
        return getattr(_realtime, name)


CLOCK = VClock()
frappy.modulebase.time = CLOCK
CLOCKSTEP = {'slow': 1.0, 'fast': 1e-6}


# ---------------------------------------------------------------------------------------------
# world = fresh node + one activated connection + the client's view of the update stream

def jkey(obj):
    return json.dumps(obj, sort_keys=True, default=repr)


class World:
    def __init__(self, model):
        self.model = model
        CLOCK.reset(CLOCKSTEP[model.spec['clock']])
        self.node = nodes.Node(model.cfg())
        self.mods = self.node.secnode.modules
        model.init_world(self)
        self.conn = self.node.connect()
        self.view = {}
        self.steps = 1
        self.node.request(self.conn, 'activate')
        self.drain()

    def drain(self):
        msgs = self.conn.take()
        for action, key, data in msgs:
            if action == 'update':
                self.view[key] = ['ok', data[0]]
            elif action == 'error_update':
                self.view[key] = ['err', data[0]]
        return msgs

    def close(self):
        self.node.close()

    # --- observation
    def cache(self):
        """{(module, parameter): [exported value, error name or None, announced]}"""
        res = {}
        for mname, mod in self.mods.items():
            for pname, pobj in mod.parameters.items():
                try:
                    val = pobj.export_value()
                except Exception as e:
                    val = f'unexportable:{type(e).__name__}:{pobj.value!r}'
                err = pobj.readerror
                res[f'{mname}:{pname}'] = [val, (getattr(err, 'name', None) or type(err).__name__) if err else None,
                                           bool(pobj.timestamp)]
        return res

    def seen(self, mname, pname):
        """client's view of a parameter: ['ok', value] | ['err', name] | None"""
        pobj = self.mods[mname].parameters[pname]
        return self.view.get(f'{mname}:{pobj.export}')

    def canon(self):
        hidden = self.model.hidden(self)
        return hashlib.md5(jkey([self.cache(), self.view, hidden]).encode()).digest()

    # --- operations
    def client(self, verb, mname, pname, value=None):
        self.steps += 1
        exp = self.mods[mname].parameters[pname].export
        line = f'{verb} {mname}:{exp}'
        if verb == 'change':
            line += ' ' + json.dumps(value)
        r = self.node.request(self.conn, line)
        if r[0].startswith('error_'):
            return ['err', r[2][0], None]
        return ['ok', None, r[2][0]]

    def driver(self, fn, *args):
        self.steps += 1
        try:
            return ['ok', None, fn(*args)]
        except SECoPError as e:
            return ['err', e.name, None]
        except Exception as e:    # noqa  recorded as an outcome; invariants decide
            return ['exc', type(e).__name__, None]


def ok_pair(a, b):
    return a is not None and b is not None and a[1] is None and b[1] is None


class Model:
    family = ''

    def __init__(self, spec):
        self.spec = spec
        self.ops = []
        self.setup()

    def cfg(self):
        return {'m': {'cls': self.cls}}

    def init_world(self, world):
        pass

    def hidden(self, world):
        return None

    def applicable(self, world, op):
        return True

    def invariants(self, world, pre, op, res):
        """-> list of (signature tail, detail)"""
        return []

    def outcome(self, op, res, changed):
        return f'{self.family}:{self.opclass(op)}:{res[0] if res[0] != "err" else "refused:" + str(res[1])}' \
               f':{"changed" if changed else "same"}'

    def opclass(self, op):
        return op[0]


# ---------------------------------------------------------------------------------------------
# struct family

MEMBERS = ('p', 'i', 'd')
HW_INIT = {'p': 4.0, 'i': 4, 'd': 4.0}
DEFAULTS = {'p': 1.0, 'i': 2, 'd': 1.0}
REFUSED = 13


def _conv(m, v):
    return int(v) if m == 'i' else float(v)


def _store(hwkind, m, v):
    """what the generated hardware keeps of a written value: 'exact' stores it as given; 'grid' is a device with a
    resolution of 0.5 for the float members which also clamps member p to [0, 1.5] (it answers with the altered value)"""
    v = _conv(m, v)
    if hwkind == 'grid' and m != 'i':
        v = round(v * 2) / 2
        if m == 'p':
            v = min(1.5, max(0.0, v))
    return v


class StructModel(Model):
    family = 'struct'

    def setup(self):
        s = self.spec
        n, kind, readonly, defaults, prefix = s['n'], s['kind'], s['readonly'], s['defaults'], s['prefix']
        self.members = members = MEMBERS[:n]
        self.sname = sname = 'ctrlpars' if prefix == 'pid_' else 'sp'
        self.pname = {m: prefix + m for m in members}
        self.combined = kind.startswith('comb')
        self.layout = 'comb' if self.combined else 'sep'
        self.hwkind = hwkind = s.get('hw', 'exact')

        def mk(m):
            # member start values different from the datatype default: given in the class (True) or by cfg ('cfg')
            kw = {'default': DEFAULTS[m]} if defaults is True else {}
            return Parameter(f'member {m}', IntRange(0, 100) if m == 'i' else FloatRange(), **kw)

        ns = {sname: StructParam('generated struct', {m: mk(m) for m in members}, prefix, readonly=readonly),
              '_hw': None, '_fail': frozenset()}
        # which access methods the "programmer" wrote
        self.hwread, self.hwwrite = set(), set()
        if kind in ('comb-rw', 'comb-r'):
            def read_struct(self):
                if 'S' in self._fail:
                    raise CommunicationFailedError('no reply from hardware')
                return dict(self._hw)
            ns['read_' + sname] = read_struct
            self.hwread.add('S')
        if kind in ('comb-rw', 'comb-w') and not readonly:
            def write_struct(self, value):
                if value.get('i') == REFUSED:
                    raise HardwareError('value refused by hardware')
                self._hw = {m: _store(hwkind, m, value[m]) for m in members}
                return dict(self._hw)
            ns['write_' + sname] = write_struct
            self.hwwrite.add('S')
        if kind in ('sep-all', 'sep-part'):
            with_methods = members if kind == 'sep-all' else members[:1]
            for m in with_methods:
                def rfunc(self, m=m):
                    if m in self._fail:
                        raise CommunicationFailedError('no reply from hardware')
                    return self._hw[m]
                ns['read_' + self.pname[m]] = rfunc
                self.hwread.add(m)
                if not readonly:
                    def wfunc(self, value, m=m):
                        if m == 'i' and value == REFUSED:
                            raise HardwareError('value refused by hardware')
                        self._hw[m] = _store(hwkind, m, value)
                        return self._hw[m]
                    ns['write_' + self.pname[m]] = wfunc
                    self.hwwrite.add(m)
        self.cls = type('Struct_' + kind.replace('-', '_') + f'_{n}_{hwkind}', (Module,), ns)

        # operation menu
        ops = self.ops
        full = lambda v: {m: v for m in members}   # noqa
        mixed = {m: (2 if k % 2 else 1) for k, m in enumerate(members)}
        structvals = [full(1), full(2), dict(full(2), i=REFUSED), {members[-1]: 2}, dict(full(1), i=200)]
        offgrid = ()
        if hwkind == 'grid':
            # values the device alters: 1.25 is off its grid (-> 1.0), p = 2 is beyond its clamp (-> 1.5)
            offgrid = (1.25,)
            structvals.append({m: (1 if m == 'i' else 1.25) for m in members})
        for v in structvals:
            ops.append(['c', 'w', 'S', v])
        for m in members:
            for v in (1, 2) + ((REFUSED, 200) if m == 'i' else offgrid):
                ops.append(['c', 'w', m, v])
        ops.append(['c', 'r', 'S'])
        for m in members:
            ops.append(['c', 'r', m])
        if not readonly:
            ops.append(['d', 'w', 'S', mixed])
            for m in members:
                ops.append(['d', 'w', m, 2])
                if offgrid and m != 'i':
                    ops.append(['d', 'w', m, offgrid[0]])
        ops.append(['d', 'r', 'S'])
        for m in members:
            ops.append(['d', 'r', m])
        if self.combined:
            ops.append(['d', 'a', 'S', mixed])
        else:
            for m in members:
                ops.append(['d', 'a', m, 1])
        if defaults:
            # events carrying the value a never initialised struct shows (the datatype default 0)
            for m in members:
                ops.append(['c', 'w', m, 0])
                if not self.combined:
                    ops.append(['d', 'a', m, 0])
                if self.hwread:
                    ops.append(['e', 'hw', m, 0])
        if self.hwread:
            for m in members:
                ops.append(['e', 'hw', m])
            # failing hardware reads (toggle): of the struct (combined methods) or of ONE member (separate methods);
            # quick: the separate-method layouts with 2 members only
            if core.TIER == 'thorough' or (not self.combined and n == 2):
                ops.append(['e', 'fail', 'S' if self.combined else members[0]])

    def cfg(self):
        cfg = {'cls': self.cls}
        if self.spec['defaults'] == 'cfg':
            for m in self.members:
                cfg[self.pname[m]] = {'value': DEFAULTS[m]}
        return {'m': cfg}

    def init_world(self, world):
        mod = world.mods['m']
        mod._hw = dict((m, HW_INIT[m]) for m in self.members)
        mod._fail = frozenset()

    def hidden(self, world):
        mod = world.mods['m']
        return [mod._hw, sorted(mod._fail), mod.parameters[self.sname].insideRW]

    def attr(self, target):
        return self.sname if target == 'S' else self.pname[target]

    def opclass(self, op):
        who, what, target = op[0], op[1], op[2]
        side = 'struct' if target == 'S' else 'member'
        if who == 'e':
            return 'hw-' + ('change' if what == 'hw' else 'readfail')
        return {'w': 'write', 'r': 'read', 'a': 'assign'}[what] + '-' + side

    def apply(self, world, op):
        mod = world.mods['m']
        who, what, target = op[0], op[1], op[2]
        if who == 'e':
            if what == 'hw':
                mod._hw[target] = _conv(target, op[3] if len(op) > 3 else 3)
            else:
                mod._fail = frozenset() if target in mod._fail else frozenset([target])
            return ['ok', None, None]
        attr = self.attr(target)
        if who == 'c':
            return world.client('change' if what == 'w' else 'read', 'm', attr, op[3] if what == 'w' else None)
        if what == 'w':
            return world.driver(getattr(mod, 'write_' + attr), op[3])
        if what == 'r':
            return world.driver(getattr(mod, 'read_' + attr))
        return world.driver(setattr, mod, attr, op[3])

    def invariants(self, world, pre, op, res):
        post = world.cache()
        found = []
        skey = f'm:{self.sname}'
        for where in ('cache', 'stream'):
            if where == 'cache':
                s = post[skey]
                s = [s[0], s[1]]
            else:
                v = world.seen('m', self.sname)
                s = None if v is None else [v[1], None] if v[0] == 'ok' else [None, v[1]]
            for m in self.members:
                if where == 'cache':
                    e = post[f'm:{self.pname[m]}'][:2]
                else:
                    v = world.seen('m', self.pname[m])
                    e = None if v is None else [v[1], None] if v[0] == 'ok' else [None, v[1]]
                if not ok_pair(s, e):
                    continue
                sm = s[0].get(m, '<missing>') if isinstance(s[0], dict) else '<no struct>'
                if sm == e[0] and type(sm) is type(e[0]):
                    continue
                if pre is None:
                    how = 'initial'
                else:
                    ps, pe = pre[skey], pre[f'm:{self.pname[m]}']
                    if ps[1] is not None:
                        how = 'struct-built-from-cache-in-error-state'
                    elif isinstance(ps[0], dict) and ps[0].get(m) == sm and (pe[0] != e[0] or pe[1] is not None):
                        how = 'struct-stale'
                    elif pe[0] == e[0] and pe[1] is None:
                        how = 'member-stale'
                    else:
                        how = 'both-changed'
                opc = self.opclass(op) if op else 'start'
                outcome = '' if res is None else ':' + ('ok' if res[0] == 'ok' else 'refused')
                if how == 'struct-built-from-cache-in-error-state':
                    # one history class: the struct was never valid and gets assembled by the first member event
                    opc, outcome = 'first-member-event', ''
                found.append((f'struct:{self.layout}:{where}:{how}:after-{opc}{outcome}',
                              f'{where}: struct {self.sname}[{m}] = {sm!r} but member {self.pname[m]} = {e[0]!r} '
                              f'(both valid); struct={s[0]!r}'))
                break   # one member is enough for a report
            if found:
                break   # stream is reported only when the cache itself is consistent
        # the struct follows its members: in a layout without combined methods a successful operation on ONE member that
        # changed what this member shows (value, error state or first announcement - so it was published and the callbacks
        # ran) must not leave the struct in error state
        if not found and pre is not None and op and not self.combined and op[0] != 'e' and op[2] != 'S' and res[0] == 'ok':
            mkey = f'm:{self.pname[op[2]]}'
            if post[mkey][1] is None and post[mkey] != pre[mkey] and post[skey][1] is not None:
                found.append((f'struct:sep:cache:struct-left-in-error-state-by-member-event:after-{self.opclass(op)}',
                              f'member {self.pname[op[2]]} went from {pre[mkey][:2]!r} to {post[mkey][:2]!r} and was published, '
                              f'but the struct {self.sname} still shows {post[skey][1]} (cached {post[skey][0]!r})'))
        return found


def struct_specs(tier):
    rows = [
        # n, kind, readonly, defaults, prefix
        (3, 'comb-rw', False, False, 'pid_'),
        (3, 'sep-all', False, False, 'pid_'),
        (2, 'comb-rw', False, False, ''),
        (2, 'comb-r', False, False, ''),
        (2, 'comb-w', False, False, ''),
        (2, 'sep-all', False, False, ''),
        (2, 'sep-part', False, False, ''),
        (2, 'sep-none', False, False, 'k_'),
        (2, 'sep-none', False, True, 'k_'),
        (2, 'sep-all', False, True, ''),
        (2, 'comb-rw', False, True, ''),
        (2, 'comb-r', True, False, ''),
        (2, 'sep-all', True, False, ''),
        (2, 'sep-none', True, False, ''),
    ]
    if tier == 'thorough':
        rows += [(3, k, ro, df, pf) for (n, k, ro, df, pf) in rows if n == 2]
    # member start values by configuration; with class-level start values in more layouts
    rows += [(2, 'sep-all', False, 'cfg', ''), (2, 'comb-rw', False, 'cfg', ''), (2, 'sep-part', False, True, '')]
    if tier == 'thorough':
        rows += [(n, k, False, df, '') for n in (2, 3) for k in ('comb-r', 'comb-w', 'sep-part', 'sep-none', 'sep-all', 'comb-rw')
                 for df in (True, 'cfg') if (n, k, False, df, '') not in rows and (n, k, False, df, 'k_') not in rows]
    rows = [r + ('exact',) for r in rows]
    # the same layouts on hardware that alters what it is given (0.5 grid, p clamped): every layout with a write method
    grid = [(2, 'comb-rw', False, False, ''), (2, 'comb-w', False, False, ''), (2, 'sep-all', False, False, '')]
    if tier == 'thorough':
        grid += [(3, 'comb-rw', False, False, 'pid_'), (3, 'sep-all', False, False, 'pid_'), (2, 'sep-part', False, False, ''),
                 (2, 'comb-rw', False, True, ''), (2, 'sep-all', False, True, ''), (3, 'comb-w', False, False, '')]
    rows += [r + ('grid',) for r in grid]
    return [dict(family='struct', n=n, kind=k, readonly=ro, defaults=df, prefix=pf, hw=hw, clock=c)
            for (n, k, ro, df, pf, hw) in rows for c in ('slow', 'fast')]


# ---------------------------------------------------------------------------------------------
# float / enum family

LABELSETS = {
    # name: (labels argument, unit, idx_name or None, reference table index -> value (written by hand))
    'plain': (('1', '2', '4', '8'), '', 'igain', {0: 1.0, 1: 2.0, 2: 4.0, 3: 8.0}),
    'indices': ([(1, '50uV'), '200 µV', '1mV', ('5mV', 0.006), (9, 'max', 0.024)], 'V', None,
                {1: 5e-5, 2: 2e-4, 3: 1e-3, 4: 0.006, 9: 0.024}),
    'values': ([('lo', 3.0), ('mid', 1.0), ('hi', 2.0)], '', None, {0: 3.0, 1: 1.0, 2: 2.0}),
    'gaps': ([(2, '1m'), (5, '1mm'), (7, '1µm')], 'm', None, {2: 1.0, 5: 1e-3, 7: 1e-6}),
    'dup': ([('a', 1.0), ('b', 1.0), ('c', 2.0), (6, 'd', 0.5)], '', None, {0: 1.0, 1: 1.0, 2: 2.0, 6: 0.5}),
}
# every unit prefix of the table once ('u' and the micro sign are two spellings of micro; 'u' gets the mantissa 2 so that the
# values differ); reference values written by hand from the SI definitions: quecto 1e-30, ronto 1e-27, yocto 1e-24,
# zepto 1e-21, atto 1e-18, femto 1e-15, pico 1e-12, nano 1e-9, micro 1e-6, milli 1e-3, (none) 1, kilo 1e3, mega 1e6, giga 1e9,
# tera 1e12, peta 1e15, exa 1e18, zetta 1e21, yotta 1e24, ronna 1e27, quetta 1e30
_SI = [('q', 1e-30), ('r', 1e-27), ('y', 1e-24), ('z', 1e-21), ('a', 1e-18), ('f', 1e-15), ('p', 1e-12), ('n', 1e-9),
       ('u', 1e-6), ('µ', 1e-6), ('m', 1e-3), ('', 1.0), ('k', 1e3), ('M', 1e6), ('G', 1e9), ('T', 1e12), ('P', 1e15),
       ('E', 1e18), ('Z', 1e21), ('Y', 1e24), ('R', 1e27), ('Q', 1e30)]
LABELSETS['prefixes'] = ([('2' if px == 'u' else '1') + px + 'V' for px, _ in _SI], 'V', None,
                         {i: (2e-6 if px == 'u' else v) for i, (px, v) in enumerate(_SI)})

LABEL_OF = {
    'plain': {0: '1', 1: '2', 2: '4', 3: '8'},
    'indices': {1: '50uV', 2: '200 µV', 3: '1mV', 4: '5mV', 9: 'max'},
    'values': {0: 'lo', 1: 'mid', 2: 'hi'},
    'gaps': {2: '1m', 5: '1mm', 7: '1µm'},
    'dup': {0: 'a', 1: 'b', 2: 'c', 6: 'd'},
    'prefixes': {i: ('2' if px == 'u' else '1') + px + 'V' for i, (px, _) in enumerate(_SI)},
}


def coerce_index(mode, indices, i):
    """the index a coercing device really takes when asked for i (indices = sorted allowed indices):
    'clip' = the highest index is disabled, requests for it land on the one below; 'fixed' = the device stays on one
    index whatever is asked; 'even' = only every second index exists, the others fall back to the one below"""
    if mode == 'clip':
        return min(i, indices[-2])
    if mode == 'fixed':
        return indices[len(indices) // 2]
    if mode == 'even':
        pos = indices.index(i)
        return indices[pos - pos % 2]
    return i


def closest(ref, v):
    """indices whose value is closest to v (exact arithmetic; near-ties within 1e-9 relative count as ties)"""
    fv = fractions.Fraction(v)
    dist = {i: abs(fractions.Fraction(x) - fv) for i, x in ref.items()}
    best = min(dist.values())
    tol = best * fractions.Fraction(1, 10 ** 9)
    return sorted(i for i, d in dist.items() if d <= best + tol)


def feq(a, b):
    return isinstance(a, (int, float)) and isinstance(b, (int, float)) and not isinstance(a, bool) \
        and math.isclose(a, b, rel_tol=1e-12, abs_tol=0.0)


class FloatEnumModel(Model):
    family = 'floatenum'

    def setup(self):
        s = self.spec
        labels, unit, idx_name, ref = LABELSETS[s['labels']]
        self.ref = ref
        self.fname = 'fe'
        self.iname = idx_name or 'fe_idx'
        kw = {'idx_name': idx_name} if idx_name else {}
        ns = {'fe': FloatEnumParam('generated float enum', list(labels), unit, readonly=s['readonly'], **kw), '_hw': None}
        hw = s['hw']
        # coercing index hardware: write_<idx> lands on another index than requested and says so
        self.coerce = coerce = s.get('coerce')
        allowed = sorted(ref)
        if hw in ('w', 'rw'):
            def write_idx(self, value):
                self._hw['idx'] = coerce_index(coerce, allowed, int(value))
                return self._hw['idx']
            ns['write_' + self.iname] = write_idx
        if hw == 'rw':
            def read_idx(self):
                return self._hw['idx']
            ns['read_' + self.iname] = read_idx
        self.cls = type(f'FE_{s["labels"]}_{hw}_{coerce}', (Module,), ns)

        vals = sorted(set(ref.values()))
        lo, hi = vals[0], vals[-1]
        cands = list(vals)
        for a, b in zip(vals, vals[1:]):
            cands += [(a + b) / 2]
            if len(vals) > 12 and core.TIER == 'quick':
                continue      # long ladders: label values and midpoints only in the quick tier
            cands += [a + (b - a) / 4, a + 3 * (b - a) / 4, a + 0.45 * (b - a), a + 0.55 * (b - a)]
            if core.TIER == 'thorough':
                cands += [math.nextafter((a + b) / 2, -math.inf), math.nextafter((a + b) / 2, math.inf),
                          math.nextafter(a, math.inf), math.nextafter(b, -math.inf)]
        cands += [lo - (hi - lo) / 2, hi + (hi - lo) / 2, lo / 2 if lo > 0 else lo - 1, hi * 2]
        self.outside = (lo, hi)
        ops = self.ops
        seen = set()
        # a readonly pair without a write method for the index has no driver-side write path at all
        dwrite = not (s['readonly'] and hw == 'soft')
        for v in cands:
            if v in seen:
                continue
            seen.add(v)
            ops.append(['c', 'w', 'F', v])
            if dwrite:
                ops.append(['d', 'w', 'F', v])
        indices = sorted(ref)
        bad = next(i for i in range(0, 40) if i not in ref)
        for i in indices:
            ops.append(['c', 'w', 'I', i])
            if dwrite:
                ops.append(['d', 'w', 'I', i])
            ops.append(['d', 'a', 'I', i])
            if hw == 'rw':
                ops.append(['e', 'hw', 'I', i])
        ops.append(['c', 'w', 'I', LABEL_OF[s['labels']][indices[-1]]])
        ops.append(['c', 'w', 'I', bad])
        if dwrite:
            ops.append(['d', 'w', 'I', bad])
        ops.append(['c', 'r', 'F'])
        ops.append(['c', 'r', 'I'])
        ops.append(['d', 'r', 'F'])
        ops.append(['d', 'r', 'I'])

    def init_world(self, world):
        world.mods['m']._hw = {'idx': max(self.ref)}

    def hidden(self, world):
        return world.mods['m']._hw

    def opclass(self, op):
        side = 'float' if op[2] == 'F' else 'index'
        if op[0] == 'e':
            return 'hw-change-index'
        return {'w': 'write', 'r': 'read', 'a': 'assign'}[op[1]] + '-' + side

    def apply(self, world, op):
        mod = world.mods['m']
        who, what, target = op[0], op[1], op[2]
        attr = self.fname if target == 'F' else self.iname
        if who == 'e':
            mod._hw['idx'] = op[3]
            return ['ok', None, None]
        if who == 'c':
            return world.client('change' if what == 'w' else 'read', 'm', attr, op[3] if what == 'w' else None)
        if what == 'w':
            return world.driver(getattr(mod, 'write_' + attr), op[3])
        if what == 'r':
            return world.driver(getattr(mod, 'read_' + attr))
        return world.driver(setattr, mod, attr, op[3])

    def invariants(self, world, pre, op, res):
        post = world.cache()
        found = []
        opc = self.opclass(op) if op else 'start'
        f, i = post[f'm:{self.fname}'], post[f'm:{self.iname}']
        if ok_pair(f, i):
            want = self.ref.get(i[0])
            if want is None:
                found.append((f'floatenum:cache:index-not-in-table:after-{opc}', f'index parameter holds {i[0]!r}'))
            elif not feq(f[0], want):
                found.append((f'floatenum:cache:float-differs-from-value-of-index:after-{opc}',
                              f'cache: {self.fname} = {f[0]!r} but {self.iname} = {i[0]!r} whose value is {want!r}'))
            else:
                attrval = getattr(world.mods['m'], self.fname)
                if not feq(attrval, want):
                    found.append((f'floatenum:attribute:float-differs-from-value-of-index:after-{opc}',
                                  f'module attribute {self.fname} = {attrval!r}, index {i[0]!r} means {want!r}'))
        if not found:
            vf, vi = world.seen('m', self.fname), world.seen('m', self.iname)
            if vf and vi and vf[0] == 'ok' and vi[0] == 'ok':
                want = self.ref.get(vi[1])
                if want is None or not feq(vf[1], want):
                    found.append((f'floatenum:stream:float-differs-from-value-of-index:after-{opc}',
                                  f'update stream: {self.fname} = {vf[1]!r} but {self.iname} = {vi[1]!r} (value {want!r})'))
        # transition oracle: an accepted float write selected the closest allowed value
        # (not demanded of hardware that coerces the index: there the device decides, only invariant F remains)
        if not found and not self.coerce and op and op[1] == 'w' and op[2] == 'F' and res[0] == 'ok':
            v = op[3]
            best = closest(self.ref, v)
            allowed = [self.ref[k] for k in best]
            if f[1] is None and not any(feq(f[0], a) for a in allowed):
                rng = 'outside-range' if not self.outside[0] <= v <= self.outside[1] else 'inside-range'
                found.append((f'floatenum:write-float:not-the-closest-value:{rng}',
                              f'write {self.fname} = {v!r} selected {f[0]!r} (index {i[0]!r}); closest allowed: {allowed!r}'))
            elif not any(feq(res[2], a) for a in allowed):
                found.append(('floatenum:write-float:reply-not-the-closest-value',
                              f'write {self.fname} = {v!r} answered {res[2]!r}; closest allowed: {allowed!r}'))
        return found


def floatenum_specs(tier):
    sets = ['plain', 'indices', 'values', 'gaps', 'dup']
    res = []
    for ls in sets:
        for hw in ('soft', 'w', 'rw'):
            for ro in (False, True):
                if ro and hw == 'w' and tier == 'quick':
                    continue
                for c in ('slow', 'fast'):
                    res.append(dict(family='floatenum', labels=ls, hw=hw, readonly=ro, clock=c))
    # labels running through every unit prefix of the table
    # (22 indices: without a read method for the index, which would square the number of states)
    for hw, c in (('soft', 'slow'), ('soft', 'fast')) if tier == 'quick' else [(h, c) for h in ('soft', 'w')
                                                                               for c in ('slow', 'fast')]:
        res.append(dict(family='floatenum', labels='prefixes', hw=hw, readonly=False, clock=c))
    # hardware that coerces the requested index
    if tier == 'quick':
        rows = [('plain', 'w', 'clip'), ('indices', 'rw', 'clip'), ('plain', 'rw', 'even'), ('values', 'w', 'fixed'),
                ('indices', 'w', 'even'), ('gaps', 'rw', 'fixed')]
    else:
        rows = [(ls, hw, co) for ls in ('plain', 'indices', 'values', 'gaps', 'dup') for hw in ('w', 'rw')
                for co in ('clip', 'fixed', 'even')]
    for ls, hw, co in rows:
        for c in ('slow', 'fast'):
            res.append(dict(family='floatenum', labels=ls, hw=hw, readonly=False, coerce=co, clock=c))
    return res


# ---------------------------------------------------------------------------------------------
# limits family

SCALE = 0.1
LIMIT_LAYOUTS = ('min', 'max', 'both', 'limits', 'limitstype')


def base_type(kind):
    if kind == 'int':
        return IntRange(-10, 10)
    if kind == 'float':
        return FloatRange(-10, 10)
    return ScaledInteger(SCALE, -10, 10)


def wire(kind, v):
    """wire representation of a physical value (own encoding, independent of export_value)"""
    if kind == 'scaled':
        return int(round(v / SCALE))
    return v


class LimitsModel(Model):
    family = 'limits'

    def setup(self):
        s = self.spec
        kind, layout, base, preset = s['base'], s['layout'], s['name'], s['preset']
        self.kind, self.layout, self.base = kind, layout, base
        # class layout: where the Limit parameters are declared relative to the class of the base parameter, and
        # whether that ancestor has a hand-written check_<p> hook (accepting everything / refusing the value 0)
        self.where = where = s.get('where', 'same')
        self.hook = hook = s.get('hook')
        ns = {base: Parameter('base parameter', base_type(kind), readonly=False, default=0), '_hw': None}
        lim = {}
        self.limparams = []
        if layout in ('min', 'both'):
            lim[base + '_min'] = Limit()
            self.limparams.append('min')
        if layout in ('max', 'both'):
            lim[base + '_max'] = Limit()
            self.limparams.append('max')
        if layout == 'limits':
            lim[base + '_limits'] = Limit()
            self.limparams.append('limits')
        if layout == 'limitstype':
            lim[base + '_limits'] = Limit(datatype=LimitsType(base_type(kind)), default=(-10, 10))
            self.limparams.append('limits')
        bases = (Module,)
        if base == 'target':
            bases = (Writable,)
            ns['value'] = Parameter('main value', FloatRange(), default=0)

            def write_target(self, value):
                self._hw['target'] = value
                return value
            ns['write_target'] = write_target
        if hook:
            if where == 'same':
                # a check_<p> written in the class that declares the limits replaces the automatic check by design
                raise core.Inconclusive('layout not generated: hook in the class of the limits')

            def check_hook(self, value):
                if hook == 'refuse0' and value == 0:
                    raise RangeError('zero is not allowed')
            ns['check_' + base] = check_hook
        # the module class may redeclare the limits it inherits (to give them a start value): 'limit' = Limit(value=..)
        # again, 'bare' = bare value override; it may have its own check_<p> that does not end the checking (refuses 0);
        # a sibling module class built from the same mixin may have been defined before it
        self.redeclare = redeclare = s.get('redeclare')
        self.ownhook = ownhook = bool(s.get('ownhook'))
        start = {base + '_min': -5, base + '_max': 5, base + '_limits': (-5, 5)}
        leaf = {}
        if redeclare == 'bare':
            # (a Limit() without a description of its own can not be overridden by a bare value: the node refuses to start
            # with 'description needs a value' - not a subject of this property; the inherited limits get a description)
            for limname in list(lim):
                lim[limname] = Limit('limit declared in the mixin', **({'datatype': lim[limname].datatype, 'default': (-10, 10)}
                                                                      if layout == 'limitstype' else {}))
        if redeclare:
            for limname in lim:
                leaf[limname] = Limit(value=start[limname]) if redeclare == 'limit' else start[limname]
        if ownhook:
            def check_own(self, value):
                if value == 0:
                    raise RangeError('zero is not allowed')
            leaf['check_' + base] = check_own
        clsname = f'Lim_{kind}_{layout}_{base}_{where}_{hook}_{redeclare}_{ownhook}_{bool(s.get("sibling"))}'
        if where == 'same':
            self.cls = type(clsname, bases, dict(ns, **lim))
        elif where == 'subclass':
            self.cls = type(clsname, (type(clsname + '_Base', bases, ns),), lim)
            if leaf:
                self.cls = type(clsname + '_Leaf', (self.cls,), leaf)
        else:
            # mixin: a plain class carrying the limits, listed before the class of the base parameter;
            # feature: the same as a frappy Feature (a HasAccessibles class without the base parameter)
            holder = type(clsname + '_Mixin', (Feature,) if where == 'feature' else (), lim)
            baseclass = type(clsname + '_Base', bases, ns)
            if s.get('sibling'):
                type(clsname + '_Sibling', (holder, baseclass), {})
            self.cls = type(clsname, (holder, baseclass), leaf)
        self.preset = {}
        if preset:
            if 'min' in self.limparams:
                self.preset[base + '_min'] = {'value': -2}
            if 'max' in self.limparams:
                self.preset[base + '_max'] = {'value': 2}
            if 'limits' in self.limparams:
                self.preset[base + '_limits'] = {'value': (-2, 2)}

        frac = kind != 'int'
        xs = [-10, -3, -2, 0, 2, 3, 10, 11]
        if frac:
            xs += [-2.5, 2.5, -1.9, 2.1]
        if kind == 'float' and core.TIER == 'thorough':
            xs += [math.nextafter(2.0, math.inf), math.nextafter(-2.0, -math.inf), math.nextafter(3.0, -math.inf),
                   math.nextafter(-3.0, math.inf)]
        ops = self.ops
        for x in sorted(xs):
            ops.append(['c', 'w', 'X', x])
            ops.append(['d', 'w', 'X', x])
        for which, cands in (('min', (-10, -2, 3)), ('max', (10, 2, -3))):
            if which in self.limparams:
                for v in cands:
                    ops.append(['c', 'w', which, v])
                    ops.append(['d', 'w', which, v])
                    ops.append(['d', 'a', which, v])
        if 'limits' in self.limparams:
            for pair in ((-10, 10), (-2, 2), (3, 10), (-10, -3), (2, 2), (3, 2), (2, -2)):
                ops.append(['c', 'w', 'limits', list(pair)])
                ops.append(['d', 'w', 'limits', list(pair)])
                if pair[0] <= pair[1]:
                    ops.append(['d', 'a', 'limits', list(pair)])
        ops.append(['c', 'r', 'X'])
        ops.append(['c', 'r', self.limparams[0]])

    def cfg(self):
        return {'m': dict({'cls': self.cls}, **self.preset)}

    def init_world(self, world):
        world.mods['m']._hw = {}

    def hidden(self, world):
        return world.mods['m']._hw

    def attr(self, target):
        return self.base if target == 'X' else f'{self.base}_{target}'

    def opclass(self, op):
        side = 'base' if op[2] == 'X' else 'limit'
        return {'w': 'write', 'r': 'read', 'a': 'assign'}[op[1]] + '-' + side

    def apply(self, world, op):
        mod = world.mods['m']
        who, what, target = op[0], op[1], op[2]
        attr = self.attr(target)
        if who == 'c':
            if what == 'r':
                return world.client('read', 'm', attr)
            v = op[3]
            w = [wire(self.kind, x) for x in v] if isinstance(v, list) else wire(self.kind, v)
            return world.client('change', 'm', attr, w)
        v = tuple(op[3]) if isinstance(op[3], list) else op[3]
        if what == 'w':
            if not hasattr(mod, 'write_' + attr):
                # (a limit overridden by a bare value comes out readonly: there is nothing for the driver to call)
                return ['err', 'no-write-method', None]
            return world.driver(getattr(mod, 'write_' + attr), v)
        return world.driver(setattr, mod, attr, v)

    def current_limits(self, cache):
        """(lo, hi) in wire units from the cached limit parameters (None = no such limit)"""
        lo = hi = None
        if 'limits' in self.limparams:
            lo, hi = cache[f'm:{self.base}_limits'][0]
        if 'min' in self.limparams:
            lo = cache[f'm:{self.base}_min'][0]
        if 'max' in self.limparams:
            hi = cache[f'm:{self.base}_max'][0]
        return lo, hi

    def invariants(self, world, pre, op, res):
        if pre is None or op is None:
            return []
        post = world.cache()
        found = []
        bkey = f'm:{self.base}'
        # the signature names the branch of the limit check (separate min / max or the pair), not the base datatype
        tag = 'limits:' + ('min-max' if self.layout in ('min', 'max', 'both') else 'pair') \
            + (':with-inherited-check-hook' if self.hook else '') + (':with-own-check-hook' if self.ownhook else '')
        if op[1] == 'w' and op[2] == 'X':
            lo, hi = self.current_limits(pre)
            vw = wire(self.kind, op[3])
            below = lo is not None and vw < lo
            above = hi is not None and vw > hi
            inverted = lo is not None and hi is not None and lo > hi
            outside = below or above or inverted
            if outside and res[0] == 'ok':
                why = 'limits-inverted' if inverted else 'below-min' if below else 'above-max'
                found.append((f'{tag}:write-base:accepted-outside-limits:{why}',
                              f'write {self.base} = {op[3]!r} (wire {vw!r}) accepted although the current limits are '
                              f'[{lo!r}, {hi!r}] (wire units); cache now {post[bkey][0]!r}'))
            elif res[0] != 'ok' and post[bkey][:2] != pre[bkey][:2]:
                found.append((f'{tag}:write-base:refused-but-cache-changed',
                              f'write {self.base} = {op[3]!r} was refused ({res[1]}) but the cache went from '
                              f'{pre[bkey][:2]!r} to {post[bkey][:2]!r}'))
            elif res[0] != 'ok':
                v = world.seen('m', self.base)
                if v is not None and v[0] == 'ok' and pre[bkey][1] is None and v[1] != pre[bkey][0]:
                    found.append((f'{tag}:write-base:refused-but-update-sent',
                                  f'write {self.base} = {op[3]!r} was refused ({res[1]}) but the client was sent {v[1]!r}'))
            if not found and (self.hook == 'refuse0' or self.ownhook) and op[3] == 0 and res[0] == 'ok':
                found.append((f'{tag}:write-base:hand-written-check-not-honoured',
                              f'write {self.base} = 0 accepted although a hand-written check_{self.base} refuses 0'))
        if op[1] == 'w' and op[2] == 'limits' and op[3][0] > op[3][1]:
            lkey = f'm:{self.base}_limits'
            if self.layout == 'limitstype':
                if res[0] == 'ok' or post[lkey][:2] != pre[lkey][:2]:
                    found.append((f'{tag}:write-limits:inverted-pair-not-refused',
                                  f'write {self.base}_limits = {op[3]!r} -> {res[0]}; cache {post[lkey][0]!r}'))
        return found

    def outcome(self, op, res, changed):
        out = super().outcome(op, res, changed)
        if op[1] == 'w' and op[2] == 'limits' and op[3][0] > op[3][1] and res[0] == 'ok':
            return 'limits:inverted-pair-stored:' + self.layout
        return out


def limits_specs(tier):
    res = []
    for kind in ('int', 'float', 'scaled'):
        for layout in LIMIT_LAYOUTS:
            res.append(dict(family='limits', base=kind, layout=layout, name='x', preset=False))
    for kind, layout, name, preset in (('float', 'limits', 'target', False), ('float', 'both', 'target', True),
                                       ('scaled', 'both', 'x', True), ('int', 'limits', 'x', True),
                                       ('float', 'limitstype', 'target', True)):
        res.append(dict(family='limits', base=kind, layout=layout, name=name, preset=preset))
    # class layouts: limits declared in a subclass / in a mixin of the class of the base parameter, the ancestor with
    # or without a hand-written check_<p> hook
    for where in ('subclass', 'mixin'):
        for hook in (None, 'accept', 'refuse0'):
            for layout in ('min', 'max', 'limits') if hook else ('both',):
                kinds = ('float',) if tier == 'quick' else ('float', 'int')
                for kind in kinds:
                    res.append(dict(family='limits', base=kind, layout=layout, name='x', preset=False, where=where, hook=hook))
    if tier == 'thorough':
        for where, hook, layout, name in (('subclass', 'refuse0', 'both', 'target'), ('mixin', 'accept', 'limitstype', 'x'),
                                          ('subclass', 'accept', 'both', 'x'), ('mixin', None, 'limits', 'target')):
            res.append(dict(family='limits', base='scaled' if name == 'x' else 'float', layout=layout, name=name,
                            preset=True, where=where, hook=hook))
    # limits redeclared in the module class (with a start value) x own check hook x kind of the class they come from x
    # a sibling module class defined earlier
    if tier == 'quick':
        rows = [('mixin', 'limit', True, False, 'limits'), ('mixin', 'limit', True, False, 'both'),
                ('mixin', 'bare', True, False, 'min'), ('feature', 'limit', True, False, 'limits'),
                ('mixin', 'limit', True, True, 'limits'), ('mixin', 'limit', False, False, 'max'),
                ('subclass', 'bare', True, False, 'limits'), ('feature', None, True, False, 'both')]
    else:
        rows = [(w, r, h, sib, lay) for w in ('mixin', 'feature', 'subclass') for r in ('limit', 'bare', None)
                for h in (True, False) for sib in ((False, True) if w != 'subclass' else (False,))
                for lay in ('min', 'max', 'both', 'limits') if r or h or w == 'feature']
    for where, redeclare, ownhook, sibling, layout in rows:
        res.append(dict(family='limits', base='float', layout=layout, name='x', preset=False, where=where, hook=None,
                        redeclare=redeclare, ownhook=ownhook, sibling=sibling))
    if tier == 'thorough':   # start values by configuration only
        for where in ('mixin', 'feature'):
            res.append(dict(family='limits', base='float', layout='limits', name='x', preset=True, where=where, hook=None,
                            redeclare=None, ownhook=True, sibling=False))
    # no callbacks hang on limit parameters, so the clock mode matters least here: quick runs the slow clock only
    return [dict(r, clock=c) for r in res for c in (('slow',) if tier == 'quick' else ('slow', 'fast'))]


# ---------------------------------------------------------------------------------------------
# control hand-over family

class _Out(HasControlledBy, Writable):
    value = Parameter('main value', FloatRange(), default=0)
    target = Parameter('output', FloatRange(), default=0)

    def write_target(self, value):
        self.self_controlled()
        return value


class _Ctrl(HasOutputModule, Writable):
    value = Parameter('main value', FloatRange(), default=0)
    target = Parameter('setpoint', FloatRange(), default=0)

    def write_target(self, value):
        self.activate_control()
        return value


class _CtrlHW(_Ctrl):
    """controller that also switches something in its hardware (the documented way to override)"""
    _hwactive = None

    def set_control_active(self, active):
        self._hwactive = bool(active)
        super().set_control_active(active)


class _CtrlX(_Ctrl):
    """controller whose set_control_active override (the documented hook of HasOutputModule) does more than switching a
    flag: it can leave the output in a safe state when it is switched off (writes the output's target: re-entrant
    self_controlled) and its hardware can fail to switch off / on (toggled by the history)"""
    _hwactive = None
    _safe = False
    _fail = ''            # '' | 'off' | 'on': which switching direction fails at the moment
    _fault_fired = False

    def set_control_active(self, active):
        if self._fail == ('on' if active else 'off'):
            self._fault_fired = True
            if active:
                raise CommunicationFailedError('no reply from the controller')
            raise HardwareError('controller can not be switched off')
        self._hwactive = bool(active)
        super().set_control_active(active)
        if self._safe and not active and self.output_module:
            self.output_module.write_target(0)


class ControlModel(Model):
    """one node with one or more output modules; output number g has spec['groups'][g] controllers attached
    (old specs: 'k' = controllers of the only output)"""
    family = 'control'

    def setup(self):
        s = self.spec
        sizes = s['groups'] if 'groups' in s else [s['k']]
        # group 0 keeps the historical names out / c1..; further outputs are out2 / d1.., out3 / e1..
        self.groups = []
        for g, k in enumerate(sizes):
            out = 'out' if g == 0 else f'out{g + 1}'
            self.groups.append((out, [f'{"cdefgh"[g]}{i + 1}' for i in range(k)]))
        self.ctrls = [c for _, cs in self.groups for c in cs]
        self.group_of = {}
        for g, (out, cs) in enumerate(self.groups):
            self.group_of[out] = g
            for c in cs:
                self.group_of[c] = g
        self.free = ['cfree'] if s['free'] else []
        # set_control_active overrides: 'safe' = every controller writes the output when switched off; 'fault' = which
        # switching direction(s) of which controllers can be made to fail by the history ('first' / 'all' controllers)
        self.safe = bool(s.get('safe'))
        self.fault = s.get('fault') or ''
        self.faulty = [] if not self.fault else self.ctrls if s.get('fault_on') == 'all' else self.ctrls[:1]
        ops = self.ops
        # the target values play no role in the hand-over: one value keeps the state space small
        for c in self.ctrls + self.free:
            ops.append(['c', 'w', c, 1])
            ops.append(['d', 'w', c, 1])
        for c in self.ctrls:
            ops.append(['d', 'u', c, 1])
        for out, cs in self.groups:
            ops.append(['c', 'w', out, 1])
            ops.append(['d', 'w', out, 1])
            ops.append(['c', 'r', out])
            ops.append(['c', 'r', cs[0]])
        for c in self.faulty:
            for direction in ('off', 'on'):
                if self.fault in (direction, 'both'):
                    ops.append(['e', 'fail', c, direction])

    def cfg(self):
        s = self.spec
        cfg = {}
        if s['out_first']:
            for out, _ in self.groups:
                cfg[out] = {'cls': _Out}
        first = True
        for out, cs in self.groups:
            for c in cs:
                cls = _CtrlX if (self.safe or self.fault) else _CtrlHW if (s['hwctrl'] and first) else _Ctrl
                cfg[c] = {'cls': cls, 'output_module': out}
                first = False
        for c in self.free:
            cfg[c] = {'cls': _Ctrl}
        if not s['out_first']:
            for out, _ in self.groups:
                cfg[out] = {'cls': _Out}
        return cfg

    def init_world(self, world):
        if self.safe:
            for c in self.ctrls:
                world.mods[c]._safe = True

    def fault_fired(self, world):
        return any(getattr(world.mods[c], '_fault_fired', False) for c in self.ctrls)

    def hidden(self, world):
        return [[getattr(world.mods[c], '_hwactive', None), getattr(world.mods[c], '_fail', '')] for c in self.ctrls] \
            + [self.fault_fired(world)]

    def opclass(self, op):
        if op[0] == 'e':
            return 'hw-fault-toggle'
        if op[1] == 'u':
            return 'update-target-by-active-controller'
        if op[1] == 'r':
            return 'read'
        if op[2] in self.group_of and op[2] not in self.ctrls:
            return 'write-output'
        return 'takeover' if op[2] in self.ctrls else 'write-unattached-controller'

    def applicable(self, world, op):
        if op[1] == 'u':
            return bool(world.mods[op[2]].control_active)
        return True

    def apply(self, world, op):
        who, what, target = op[0], op[1], op[2]
        mod = world.mods[target]
        if who == 'e':
            mod._fail = '' if mod._fail == op[3] else op[3]
            return ['ok', None, None]
        if what == 'u':
            out = self.groups[self.group_of[target]][0]
            return world.driver(world.mods[out].update_target, target, float(op[3]))
        if what == 'r':
            return world.client('read', target, 'control_active' if target in self.ctrls else 'controlled_by')
        if who == 'c':
            return world.client('change', target, 'target', op[3])
        return world.driver(mod.write_target, float(op[3]))

    def control_state(self, world, cache, where, out, cs):
        """(active controllers of this output, name shown by controlled_by or None when in error) as cached / as streamed"""
        # what the codes of controlled_by mean is taken from the datainfo a client gets in the description
        members = world.mods[out].parameters['controlled_by'].datatype.export_datatype()['members']
        names = {v: k for k, v in members.items()}
        if where == 'cache':
            active = [c for c in cs if cache[f'{c}:control_active'][0] is True]
            cb = cache[f'{out}:controlled_by']
            cbname = names.get(cb[0], f'<{cb[0]!r}>') if cb[1] is None else None
        else:
            vals = {c: world.seen(c, 'control_active') for c in cs}
            active = [c for c, v in vals.items() if v and v[0] == 'ok' and v[1] is True]
            v = world.seen(out, 'controlled_by')
            cbname = names.get(v[1], f'<{v[1]!r}>') if v and v[0] == 'ok' else None
        return active, cbname

    def invariants(self, world, pre, op, res):
        post = world.cache()
        found = []
        opc = self.opclass(op) if op else 'start'
        if res is not None and res[0] != 'ok':
            opc += ':failed'      # the operation raised: its own history class (and signature)
        faulted = self.fault_fired(world)
        # (1) an operation on one output or on one of its controllers leaves the control state of every other output alone
        if pre is not None and op and op[2] in self.group_of:
            g = self.group_of[op[2]]
            for h, (out, cs) in enumerate(self.groups):
                if h == g:
                    continue
                for key in [f'{out}:controlled_by'] + [f'{c}:control_active' for c in cs]:
                    if pre[key][:2] != post[key][:2]:
                        found.append((f'control:cache:control-state-of-another-output-changed:after-{opc}',
                                      f'{op!r} concerns {self.groups[g][0]} but changed {key} from {pre[key][:2]!r} '
                                      f'to {post[key][:2]!r}'))
                        return found
        # (2) per output: at most one controller active, controlled_by names exactly it
        for where in ('cache', 'stream'):
            for out, cs in self.groups:
                active, cbname = self.control_state(world, post, where, out, cs)
                if len(active) > 1:
                    prev = [c for c in cs if pre and pre[f'{c}:control_active'][0] is True]
                    what = 'previous-controller-left-on' if opc.startswith('takeover') and prev and prev[0] in active else 'two-active'
                    found.append((f'control:{where}:{what}:after-{opc}',
                                  f'{where}: controllers {active} of {out} are all marked control_active '
                                  f'(controlled_by = {cbname})'))
                elif cbname is None:
                    pass
                elif len(active) == 1 and cbname != active[0]:
                    found.append((f'control:{where}:output-names-{"self" if cbname == "self" else "another-module"}'
                                  f'-while-a-controller-is-active:after-{opc}',
                                  f'{where}: {active[0]} is marked control_active but {out}.controlled_by = {cbname}'))
                elif not active and cbname != 'self' and not faulted:
                    found.append((f'control:{where}:output-names-inactive-controller:after-{opc}',
                                  f'{where}: no controller of {out} is marked control_active but {out}.controlled_by = {cbname}'))
                if found:
                    return found
        if op and opc == 'takeover' and res[0] == 'ok':   # (a failed take-over has opc 'takeover:failed')
            j = op[2]
            cs = self.groups[self.group_of[j]][1]
            active = [c for c in cs if post[f'{c}:control_active'][0] is True]
            if active != [j]:
                found.append(('control:cache:takeover-accepted-but-taker-not-controlling',
                              f'write target on {j} accepted; active controllers afterwards: {active}'))
        return found


def control_specs(tier):
    rows = [([1], False, True, False), ([2], False, True, False), ([3], False, True, False), ([2], True, True, False),
            ([2], False, False, True), ([3], True, False, True),
            # several outputs in one node, each with its own controllers
            ([1, 1], False, True, False), ([2, 1], False, False, True)]
    if tier == 'thorough':
        rows += [([2, 2], False, True, False), ([1, 1, 1], False, False, False), ([1, 2], True, True, True)]
    rows = [r + ({},) for r in rows]
    # controllers with set_control_active overrides: safe-state write of the output on switch-off, failing switch-off / -on
    rows += [([2], False, True, False, {'safe': True}),
             ([2], False, True, False, {'fault': 'off'}),
             ([2], False, False, False, {'fault': 'on'}),
             ([2], False, True, False, {'safe': True, 'fault': 'off'})]
    if tier == 'thorough':
        rows += [([3], False, True, False, {'safe': True}),
                 ([3], False, True, False, {'fault': 'both'}),
                 ([2], False, True, False, {'safe': True, 'fault': 'both', 'fault_on': 'all'}),
                 ([2, 1], False, False, False, {'safe': True, 'fault': 'off'}),
                 ([1, 1], False, True, False, {'safe': True, 'fault': 'both'})]
    res = []
    for groups, free, of, hw, extra in rows:
        for c in ('slow', 'fast'):
            spec = dict(family='control', free=free, out_first=of, hwctrl=hw, clock=c)
            # one output keeps the historical spec key, so that recorded replay files stay valid
            spec.update({'k': groups[0]} if len(groups) == 1 else {'groups': groups})
            spec.update(extra)
            res.append(spec)
    return res


# ---------------------------------------------------------------------------------------------
# exploration

FAMILIES = {'struct': (StructModel, struct_specs), 'floatenum': (FloatEnumModel, floatenum_specs),
            'limits': (LimitsModel, limits_specs), 'control': (ControlModel, control_specs)}
_MODELS = {}


def get_model(spec):
    key = jkey(spec) + core.TIER
    model = _MODELS.get(key)
    if model is None:
        model = _MODELS[key] = FAMILIES[spec['family']][0](spec)
    return model


def all_specs(tier):
    res = []
    for fam in ('struct', 'floatenum', 'limits', 'control'):
        res += FAMILIES[fam][1](tier)
    return res


def bounds(tier):
    return dict(depth=4 if tier == 'quick' else 5)


def run_history(model, ops, part, check_all=False):
    """fresh objects, replay ops[:-1], apply ops[-1] with the oracle.
    -> (status, digest) with status in 'ok' | 'violation' | 'inapplicable' | 'prefix-diverged'"""
    world = World(model)
    try:
        pre = None
        if not ops:
            for sig, detail in model.invariants(world, None, None, None):
                part.violation(f'C18:{sig}', {'spec': model.spec, 'ops': []}, f'{describe(model.spec)}: initial state: {detail}')
                return 'violation', None
            return 'ok', world.canon()
        for k, op in enumerate(ops):
            last = k == len(ops) - 1
            if not model.applicable(world, op):
                return ('inapplicable' if last else 'prefix-diverged'), None
            if last or check_all:
                pre = world.cache()
                before = world.canon() if last else None
            res = model.apply(world, op)
            msgs = world.drain()
            if last or check_all:
                found = model.invariants(world, pre, op, res)
                if found:
                    sig, detail = found[0]
                    part.violation(f'C18:{sig}', {'spec': model.spec, 'ops': ops[:k + 1]},
                                   f'{describe(model.spec)}: after {ops[:k + 1]!r} (last -> {res[0]}'
                                   f'{" " + str(res[1]) if res[1] else ""}): {detail}')
                    part.transitions += world.steps
                    return 'violation', None
            if last:
                digest = world.canon()
                changed = digest != before
                part.outcomes[model.outcome(op, res, changed)] += 1
                if changed or msgs or res[0] != 'ok':
                    part.nontrivial += 1
                part.transitions += world.steps
                if part.evaluations % 4001 == 1:
                    part.sample({'model': describe(model.spec), 'history': ops, 'last': res[:2],
                                 'updates_sent': [m[1] for m in msgs][:6]})
                return 'ok', digest
    finally:
        world.close()
    raise core.Inconclusive('empty replay')


def describe(spec):
    return ' '.join(f'{k}={v}' for k, v in spec.items())


def expand_task(task):
    """(model index, spec, [history as tuple of op indices]) -> (Part, model index, [(history, digest)])"""
    mi, spec, hists = task
    model = get_model(spec)
    part = core.Part()
    succ = []
    for hist in hists:
        if hist is None:     # the initial state
            part.evaluations += 1
            part.traces += 1
            status, digest = run_history(model, [], part)
            if status == 'ok':
                succ.append(((), digest))
            continue
        for oi in range(len(model.ops)):
            ops = [model.ops[i] for i in hist] + [model.ops[oi]]
            part.evaluations += 1
            status, digest = run_history(model, ops, part)
            if status == 'prefix-diverged':
                raise core.Inconclusive(f'replay of {ops!r} diverged on {describe(spec)}')
            if status == 'inapplicable':
                part.extra['inapplicable_operations'] += 1
                continue
            part.traces += 1
            if status == 'ok':
                succ.append((hist + (oi,), digest))
            else:
                part.extra['violating_transitions'] += 1
    return part, mi, succ


def _call(task):
    try:
        return expand_task(task)
    except core.Inconclusive as e:
        return ('INCONCLUSIVE', str(e))
    except BaseException:
        import traceback
        return ('CRASH', f'{describe(task[1])}\n{traceback.format_exc()}')


def run(ctx):
    b = bounds(ctx.tier)
    specs = all_specs(ctx.tier)
    only = getattr(ctx, 'only', None)
    if only:
        specs = [s for s in specs if s['family'] in only]
    rng = random.Random(ctx.seed)
    parts = {fam: core.Part() for fam in FAMILIES}
    seen = [set() for _ in specs]
    frontier = [[None] for _ in specs]
    closed = {}
    witnesses = {}
    nops = [len(get_model(s).ops) for s in specs]
    per_level = []
    for depth in range(0, b['depth'] + 1):
        tasks = []
        for mi, spec in enumerate(specs):
            hists = frontier[mi]
            chunk = max(1, 240 // max(1, nops[mi]))
            for i in range(0, len(hists), chunk):
                tasks.append((mi, spec, hists[i:i + chunk]))
        if not tasks:
            break
        rng.shuffle(tasks)     # the seed only permutes the order in which work is handed out
        if ctx.workers <= 1:
            results = map(_call, tasks)
        else:
            results = ctx.pool().imap_unordered(_call, tasks)
        found = [[] for _ in specs]
        for r in results:
            if len(r) == 2:
                raise core.Inconclusive(f'{r[0]}: {r[1]}')
            part, mi, succ = r
            fam = specs[mi]['family']
            # witnesses are chosen here by a total order (shortest, then smallest JSON), not by arrival order
            for sig, (n, case, detail) in part.violations.items():
                ent = witnesses.setdefault((fam, sig), [0, case, detail])
                ent[0] += n
                if (len(jkey(case)), jkey(case)) < (len(jkey(ent[1])), jkey(ent[1])):
                    ent[1], ent[2] = case, detail
            part.violations = {}
            parts[fam].merge(part)
            found[mi] += succ
        new_total = 0
        for mi in range(len(specs)):
            nxt = []
            for hist, digest in sorted(found[mi]):    # deterministic representative: smallest history
                if digest not in seen[mi]:
                    seen[mi].add(digest)
                    nxt.append(hist)
            if not nxt and mi not in closed and frontier[mi]:
                closed[mi] = depth
            frontier[mi] = nxt
            new_total += len(nxt)
        per_level.append(new_total)
    for (fam, sig), ent in sorted(witnesses.items()):
        parts[fam].violations[sig] = ent
    for fam, part in parts.items():
        part.states = sum(len(seen[mi]) for mi, s in enumerate(specs) if s['family'] == fam)
        if any(s['family'] == fam for s in specs):
            part.extra[f'models_{fam}'] = sum(1 for s in specs if s['family'] == fam)
            part.extra[f'models_closed_before_bound_{fam}'] = sum(1 for mi, s in enumerate(specs)
                                                                 if s['family'] == fam and mi in closed)
            ctx.add(part, name=fam)
    ctx.rule = ('explicit-state BFS: every generated model (struct / float-enum / limits / control layout x clock mode) x every '
                f'operation sequence over the model\'s menu up to depth {b["depth"]}, states merged on the canonical key '
                '(exported cache + error state of all parameters, fake hardware registers, insideRW, client view of the '
                'update stream); every distinct state is expanded with every operation on fresh objects (history replayed). '
                'evaluations = (state, operation) executions; distinct_nontrivial = those whose operation changed the state, '
                'sent an update or was refused; states = distinct canonical states over all models; transitions = requests / '
                'driver calls executed including replayed prefixes')
    ctx.coverage.update(
        bound_completed=f'depth<={b["depth"]}', models=len(specs), operations_per_model=f'{min(nops)}..{max(nops)}',
        new_states_per_level=per_level,
        models_closed_before_bound=len(closed),
        closed_models_hold_for_unbounded_depth=True,
        deepest_closure_level=max(closed.values()) if closed else None,
        unclosed_models=[describe(s) for mi, s in enumerate(specs) if mi not in closed][:40])
    ctx.assume('one node, one activated connection, sequential requests (interleavings are C05 / C08)',
               'values, label sets, limit positions and layouts outside the menus of this file are not covered',
               'clock: either every clock reading is > omit_unchanged_within (0.1 s) after the previous one or all '
               'operations of a history fall within 0.1 s; mixed spacings are not covered',
               'driver-side assignments only to the primary side of a layout; deactivate_control() called directly and '
               'update_target() by a non-controlling module are not issued (outside documented use)',
               'the poller is not running (start=False): reads happen only where the history issues them')
    if not only or 'conc' in only:
        from vf.harness import c18conc
        c18conc.run_conc(ctx)       # two threads updating linked parameters at once (schedx)


def replay(case):
    if case.get('kind') == 'conc':
        from vf.harness import c18conc
        return c18conc.replay_conc(case)
    part = core.Part()
    model = get_model(case['spec'])
    part.evaluations += 1
    part.traces += 1
    status, _ = run_history(model, case['ops'], part, check_all=True)
    if status in ('inapplicable', 'prefix-diverged'):
        raise core.Inconclusive(f'recorded history is not applicable any more: {case["ops"]!r}')
    return part
