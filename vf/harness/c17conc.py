"""C17 concurrent part - the file on disk is a complete snapshot also while two threads change persistent parameters.

schedx + memfs: the real PersistentMixin module of C17 (one datatype kind) on the in-memory file system; two threads (a
request thread and a driver / poll thread) each change one auto-saved persistent parameter (one through its write
method, one by assignment), optionally a third calls saveParameters.  Scheduling points at every lock operation, at every
file-system operation (memfs hook) and at every source line of PersistentMixin.__save_params / saveParameters and
Module.announceUpdate; all schedules with <= bound preemptions.

Oracle: at EVERY file-system operation of the window the persistent file on disk (what a crash at that moment would
leave; unflushed data of open handles not counted) is absent or a complete JSON object holding a value for every
persistent parameter; no save raises; at quiescence the file holds the final value of every persistent parameter (a
restart would restore exactly the cache).
"""
import json

from vf import core

CASES = {
    'assign|assign': [[['assign', 'p', 0]], [['assign', 'r', 1]]],
    'write|assign': [[['write', 'p', 0]], [['assign', 'r', 1]]],
    'assign-twice|assign': [[['assign', 'p', 0], ['assign', 'p', 1]], [['assign', 'r', 1]]],
    'assign|save-command': [[['assign', 'p', 0]], [['save']]],
    'assign|assign|save-command': [[['assign', 'p', 0]], [['assign', 'r', 1]], [['save']]],
}


def execute(case, prefix):
    from vf.engines import schedx, memfs
    from vf.harness import c17
    from vf.harness import nodeconc as N     # noqa: F401  (rebinds threading inside frappy)
    import frappy.modulebase as MB
    e = c17.env()
    MB.time = e['clock']
    kind = c17.kinds('quick')['int']
    kinds = None if case['level'] == 'line' else {'acquire', 'tryacquire', 'release', 'spawn', 'join', 'yield'}
    sched = schedx.Scheduler(prefix, point_kinds=kinds, max_steps=8000)
    fs = memfs.MemFS()
    out = {'errors': [], 'bad': [], 'nops': 0}
    window = []

    def hook(op):
        if not window:
            return
        out['nops'] += 1
        sched.point('yield', f'fs:{op.kind}')
        data = c17.content(fs.image())
        if data is not None:
            try:
                d = json.loads(data.decode('utf-8'))
                ok = isinstance(d, dict) and all(k in d for k in ('p', 'r'))
            except Exception as exc:      # noqa
                ok, d = False, repr(exc)
            if not ok and len(out['bad']) < 3:
                out['bad'].append((op.brief(), data[:80], str(d)[:80]))

    def body():
        with c17.install(fs):
            node = c17.build_node(kind.cfg('plain'))
            out['node'] = node
            mod = node.secnode.modules['m']
            mod.writeInitParams()
            vals = {'p': kind.drv, 'r': kind.drv}
            fs.hook = hook
            window.append(1)
            sched.begin()

            def runner(ops):
                def run():
                    for op in ops:
                        try:
                            if op[0] == 'assign':
                                setattr(mod, op[1], vals[op[1]][op[2]])
                            elif op[0] == 'write':
                                getattr(mod, 'write_' + op[1])(vals[op[1]][op[2]])
                            else:
                                mod.saveParameters()
                        except Exception as exc:      # noqa
                            out['errors'].append((op, repr(exc)))
                return run
            ts = [schedx.Thread(target=runner(ops), name=f'w{i}') for i, ops in enumerate(case_threads(case))]
            for t in ts:
                t.start()
            for t in ts:
                t.join()
            del window[:]
            fs.hook = None
            out['final'] = {p: mod.parameters[p].export_value() for p in ('p', 'r', 'q')}
            out['file'] = c17.content(fs.final_image())
            out['log'] = [r[2][-200:] for r in node.loghandler.records if r[1] >= 30][:4]
    x = sched.run(body)
    viol = judge(case, x, out)
    if out.get('node') is not None:
        c17._drop(out['node'])
    return x, viol, (out.get('file') or b'')[:200]


def case_threads(case):
    return CASES[case['name']]


def judge(case, x, out):
    if x.deadlock:
        return [('conc:deadlock', x.deadlock)]
    if x.livelock:
        return [('conc:livelock', x.livelock)]
    for t in x.threads:
        if t.exc is not None:
            return [(f'conc:thread-died:{type(t.exc).__name__}', f'{t.name}: {t.exc!r}')]
    viol = []
    for op, e in out['errors']:
        viol.append((f'conc:{op[0]}-raised:{e.split("(")[0]}', f'{op}: {e}'))
    for brief, data, why in out['bad']:
        viol.append(('conc:file-on-disk-is-not-a-complete-snapshot:during-concurrent-saves',
                     f'at file-system operation {brief} the persistent file held {data!r} ({why})'))
    for text in out.get('log', []):
        if 'Error' in text or 'Traceback' in text:
            viol.append(('conc:save-failed:' + text.strip().splitlines()[-1].split(':')[0][-40:], text[-160:]))
    try:
        d = json.loads(out['file'].decode('utf-8')) if out.get('file') is not None else None
    except Exception as exc:      # noqa
        d = repr(exc)
    if d != out.get('final'):
        viol.append(('conc:file-differs-from-the-cache-at-quiescence', f'file {out.get("file")!r} ({d}) but the persistent parameters hold {out.get("final")}'))
    return viol


def cases(tier):
    return [{'kind': 'conc', 'name': n, 'level': 'line', 'bound': (1 if len(CASES[n]) > 2 else 2) + (0 if tier == 'quick' else 1)} for n in CASES]


def trace(case):
    from vf.engines import schedx
    import frappy.modulebase as MB
    import frappy.persistent as P
    M = P.PersistentMixin
    funcs = [f for n, f in vars(M).items() if n.startswith('_PersistentMixin__save') and callable(f)]    # (helpers a change may add)
    schedx.trace_lines(funcs + [M.saveParameters, MB.Module.announceUpdate])


def root_fn(case):
    from vf.engines import schedx
    trace(case)
    x1, _v, f1 = execute(case, [])
    x2, _v, f2 = execute(case, [])
    if x1.trace != x2.trace or f1 != f2:
        raise core.Inconclusive(f'C17 concurrent case {case["name"]}: the default schedule is not deterministic')
    part = core.Part()
    part.data.append([case['name'], schedx.first_level(x1, case['bound'], 0)])
    part.extra['points_in_default_schedule'] += len(x1.points)
    return part


def sub_fn(shard):
    from vf.engines import schedx
    case, prefix = shard
    part = core.Part()
    trace(case)

    def ex(pfx):
        x, viol, f = execute(case, pfx)
        part.evaluations += 1
        part.traces += 1
        part.transitions += x.steps
        part.fps |= x.fingerprints
        part.outcomes[case['name'] + ':' + f.decode('utf-8', 'replace')] += 1
        if x.preemptions:
            part.nontrivial += 1
        for sig, detail in viol:
            part.violation(f'C17:{sig}', dict(case, prefix=list(x.choices)), f'case {case["name"]} schedule {x.choices}: {detail}')
        if part.evaluations % 499 == 1:
            part.sample({'case': case['name'], 'schedule': list(x.choices), 'file': f.decode('utf-8', 'replace')})
        return x
    if prefix is None:
        ex([])
    else:
        schedx.explore(ex, case['bound'], prefix=prefix)
    part.extra['schedules'] += part.evaluations
    return part


def run_conc(ctx):
    cs = cases(ctx.tier)
    roots = ctx.pmap(root_fn, cs, name='conc_determinism')
    byname = {c['name']: c for c in cs}
    shards = []
    for name, prefixes in roots.data:
        shards.append((byname[name], None))
        shards += [(byname[name], p) for p in prefixes]
    ctx.total.data.clear()
    ctx.pmap(sub_fn, shards, name='concurrent_saves')
    ctx.coverage.update(concurrent_cases={c['name']: c['bound'] for c in cs})


def replay_conc(case):
    trace(case)
    part = core.Part()
    x, viol, f = execute(case, case['prefix'])
    for sig, detail in viol:
        part.violation(f'C17:{sig}', case, detail)
    part.notes.append(repr(f))
    part.evaluations = 1
    return part
