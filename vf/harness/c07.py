"""C07 - one well-formed reply per request line, for any bytes and any chunking (sequential part).

enumx: bounded exhaustive enumeration of  request-line catalogue (grammar of valid SECoP requests x byte-level
mutation catalogue) x sequences of 1-2 lines (3 thorough) x segmentations of the byte stream (all 2^(n-1) cut sets for
streams of <= 14 bytes (18 thorough); all cut sets with <= 2 cuts, one-byte chunks and the cuts around every newline for
longer ones; socket timeouts (None chunks) between chunks), driven through the REAL `TCPRequestHandler` (+ `RequestHandler`
loop, `Dispatcher.handle_request`, codec) of an in-process node (`vf.nodes.Node`) on a scripted socket object.

Sub-checks (named, so that the concurrent part can be added next to them):
  codec    decode_msg(encode_msg_frame(*t)) == t over a triple catalogue; encode_msg_frame(*decode_msg(l)) == l over
           canonical lines
  blanks   every "space look-alike" (characters that str.strip / split / isspace treat as white space, the wire format does
           not) x every position at the edges of line / action / specifier / data x base request; cuts around and inside
           the character, one-byte chunks
  oversize lines of 2^k + a bytes for k = 16..21 (22 thorough) and a around 0 and around the first 1024-byte delivery
           beyond 2^k: blanks up to a valid request at the end, filler with a valid request starting exactly at offset
           2^k + a, a valid long `change`; each followed by `ping y`; in one piece (1024-byte deliveries), 1000- and
           4099-byte chunks, cuts at 2^k
  lines    every catalogue line as a one-line stream (and followed by a partial line): all oracles; every single cut,
           all pairs of cuts (base lines; thorough: every line up to 160 bytes) resp. pairs of the cuts next to both
           ends / the middle / LF / 1024 boundaries, one-byte chunks, a timeout in the gaps
  short    every stream of <= FULLMAX bytes (14 quick / 18 thorough) made of 1-3 short lines (optionally + a partial
           line): ALL 2^(n-1) segmentations, + a timeout in every single gap of every segmentation with <= 2 cuts
  pairs    two-line streams (catalogue line, probe line) in both orders: all oracles, cuts next to both LFs and pairs
           of them, one-byte chunks, and the isolation oracle (answer alone == answer next to a garbage line)
  allpairs (thorough) all ordered pairs of the quick catalogue, cuts next to the first LF
  triples  (thorough) garbage, probe, garbage

Oracle (from the statement; the reference reading of a request line is `Req`, written from the SECoP framing rule
`action SP specifier SP data LF`, not from decode_msg):
  O1 every emitted line is valid UTF-8, its data part parses as strict JSON (NaN / Infinity refused), the output ends
     with LF
  O2 number of reply lines == number of LF-terminated request lines (a trailing partial line gets none), in order
  O3 the reply action is REQUEST2REPLY[action], the ident string for *IDN?, or error_<action>
  O4 an error reply carries [name, text, {}] with `name` registered in frappy.errors (SECoPError.name2class) and echoes
     the request's specifier
  O5 handle() ends only through ConnectionClose at EOF: all scripted chunks were consumed, EOF was read exactly once,
     nothing was logged at ERROR level (RequestHandler.__init__ logs an escaping exception there), socket closed,
     connection removed from the dispatcher
  O6 output bytes are identical for every segmentation of the same stream (differential; no expected value by hand)
  O7 the reply to a line is byte-identical when the line is sent alone and next to a garbage line
  O8 a second, activated connection receives nothing while the first sends only garbage; attaching it does not change
     the first connection's output
  O9 codec laws

Oracle calibration (weaker reading wherever the statement leaves latitude)
  * "garbage line" := a line whose answer, sent alone, is a single error_ reply without events (a refused request must
    have no effect); O7/O8 are only demanded for those - a successful `change` legitimately changes later answers.
  * the specifier echo is demanded for error replies of lines that decode (valid UTF-8, strict-JSON data); for positive
    replies the statement is ambiguous ("..., or error_<action> with a SECoP error class, echoing the request's
    specifier") - positive replies that carry no specifier (`deactivate m` -> `inactive`, `help x` -> `helping`) are
    only counted (`outcomes['positive-reply-without-echo:...']`), `describing .` is SECoP's answer to `describe`; but a
    positive reply that does carry a specifier must carry the request's, byte-exact (`ping nonce<US>` -> `pong nonce`
    answers a request that was not made).
  * for a line whose first token is not valid UTF-8 "the action" is undefined: only the prefix `error_` is demanded.
  * leading / trailing white space (frappy strips b' \\t\\r\\x0b\\x0c'): both readings (stripped / only a trailing CR
    removed) are accepted, for the action as well as for the specifier.
  * `_ <n> "text"` lines are not replies while a help request is pending; `update` / `log` lines are events;
    `error_update` is an event except while the pending request's action is `update` (then it is its error reply).
  * `InternalError` counts as a SECoP error class (whether the class fits is C04's business); accepting non-strict
    JSON tokens (`Infinity`) in a *request* is not judged here, only emitted bytes must be strict.
  * a positive reply to a request that SECoP would refuse (`ping x 0`: falsy data is not noticed) satisfies O3.
  * codec triples: action non-empty without blanks, specifier None or non-empty without blanks, data None or a JSON
    value without NaN/Infinity/tuples (those are not "message triples" of the protocol).
"""
import io
import itertools
import json
import logging
import socket
import sys
import time as _realtime

from vf import core, nodes

from frappy.datatypes import FloatRange, IntRange, StringType
from frappy.errors import SECoPError
from frappy.modules import Command, Parameter, Writable
from frappy.protocol.interface import decode_msg, encode_msg_frame
from frappy.protocol.interface.tcp import MESSAGE_READ_SIZE, TCPRequestHandler
from frappy.protocol.messages import ERRORPREFIX, HELPREQUEST, IDENTREPLY, IDENTREQUEST, REQUEST2REPLY

PROPERTY = 'C07'
T0 = 1700000000.0          # the constant clock
LF = b'\n'
WS = b' \t\r\x0b\x0c'       # what bytes.strip() removes (LF never occurs inside a line)
# every character that Python's str.strip() / str.split() / str.isspace() take for white space although the wire format
# does not (blank = 0x20, line end = LF, tolerated CR): VT FF, the separators FS GS RS US, NEL, NBSP, OGHAM SPACE,
# U+2000..U+200A, LS, PS, NNBSP, MMSP, IDEOGRAPHIC SPACE ...
SPACE_LOOKALIKES = (0x0b, 0x0c, 0x1c, 0x1d, 0x1e, 0x1f, 0x85, 0xa0, 0x1680) + tuple(range(0x2000, 0x200b)) + \
    (0x2028, 0x2029, 0x202f, 0x205f, 0x3000)
# ... and two controls that look like them but are no white space for Python either (ZWSP, BOM)
NO_SPACE_CONTROLS = (0x200b, 0xfeff)


# ---------------------------------------------------------------------------------------------
# clock

class ConstTime:
    """stands in for the `time` module inside frappy.modulebase: time() is constant, the rest is the real module"""
    def __init__(self, now=T0):
        self.now = now

    def time(self):
        return self.now

    def __getattr__(self, name):
        return getattr(_realtime, name)

    def __repr__(self):
        return 'ConstTime'


def _const_now():
    return T0


def bind_clock():
    """bind the clock names read by the dispatcher (ping / do qualifiers) and by Module.announceUpdate (timestamps)"""
    import frappy.modulebase
    import frappy.protocol.dispatcher
    frappy.protocol.dispatcher.currenttime = _const_now
    if not isinstance(frappy.modulebase.time, ConstTime):
        frappy.modulebase.time = ConstTime()


# ---------------------------------------------------------------------------------------------
# the node

class M07(Writable):
    """one Writable: float value / target (unlimited, so that NaN / Infinity tokens reach the datatype), a string
    parameter (wire name _s) and a command (wire name _c)"""
    value = Parameter('v', FloatRange(), default=1.5)
    target = Parameter('t', FloatRange(), default=2.0)
    s = Parameter('s', StringType(isUTF8=True), default='x', readonly=False)

    def read_value(self):
        return self.target

    def write_target(self, value):
        return value

    def write_s(self, value):
        return value

    @Command(IntRange(0, 5), result=IntRange())
    def c(self, arg):
        """a command"""
        return arg + 1


class Box:
    """keeps big objects out of frappy's extended stack traces (formatExtendedStack repr()s every local of every frame
    for every error reply)"""
    __slots__ = ('v',)

    def __init__(self, v):
        self.v = v

    def __repr__(self):
        return '<box>'


class Sock(nodes.FakeSock):
    """scripted socket: recv(n) never returns more than n bytes (a chunk longer than MESSAGE_READ_SIZE is delivered in
    pieces, like a real socket), None = timeout, end of script = EOF"""
    def __init__(self, chunks):
        super().__init__(chunks)
        self.eof = 0
        self.recvs = 0
        self.off = 0        # bytes of chunks[0] already delivered (no re-slicing of megabyte chunks)

    def recv(self, n):
        self.recvs += 1
        if not self.chunks:
            self.eof += 1
            return b''
        c = self.chunks[0]
        if c is None:
            self.chunks.pop(0)
            raise socket.timeout()
        off = self.off
        if len(c) - off > n:
            self.off = off + n
            return c[off:off + n]
        self.chunks.pop(0)
        self.off = 0
        return c[off:] if off else c

    def __repr__(self):
        return '<sock>'


class Run:
    __slots__ = ('out', 'problems', 'conn2')

    def __init__(self, out, problems, conn2):
        self.out, self.problems, self.conn2 = out, problems, conn2

    def __repr__(self):
        return '<run>'


class Rig:
    """a fresh node + the means to run byte streams through the real TCP handler and to put the node back into its
    initial state (parameter values / timestamps / errors) between executions"""
    def __init__(self):
        bind_clock()
        self.node = nodes.Node({'m': {'cls': M07}}, name='c07n')
        self.iface = nodes.InterfaceStub(self.node)
        # the connection / dispatcher loggers only feed the capture handler: keep ERROR (what O5 looks at), skip the
        # creation of four info/debug records per request (module loggers, which serve `logging` requests, are untouched)
        self.iface.log.setLevel(logging.ERROR)
        self.node.dispatcher.log.setLevel(logging.ERROR)
        self.mod = self.node.secnode.modules['m']
        self.snapshot = {n: (p.value, p.timestamp, p.readerror) for n, p in self.mod.parameters.items()}
        self.executions = 0

    def __repr__(self):
        return '<rig>'

    def reset(self):
        for n, (v, t, e) in self.snapshot.items():
            p = self.mod.parameters[n]
            p.value, p.timestamp, p.readerror = v, t, e
        self.node.loghandler.records.clear()

    def run(self, chunks, watch=False):
        """one connection: feed the chunks, return what was sent back and what went wrong around it (O5)"""
        self.reset()
        disp = self.node.dispatcher
        conn2 = None
        if watch:
            conn2 = self.node.connect()
            self.node.request(conn2, 'activate')
            conn2.take()
        nconn = len(disp._connections)
        sock = Sock(chunks)
        stdout = sys.stdout
        sys.stdout = io.StringIO()      # the handler prints tracebacks
        try:
            handler = TCPRequestHandler(sock, ('127.0.0.1', 12345), self.iface)
        finally:
            sys.stdout = stdout
        self.executions += 1
        problems = []
        if sock.chunks:
            problems.append('handler-stopped-before-EOF')
        elif sock.eof != 1:
            problems.append('EOF-not-read-once')
        errs = self.node.errors_logged()
        if errs:
            last = errs[0][2].strip().splitlines()[-1] if errs[0][2].strip() else ''
            problems.append('error-logged:' + norm(last.split(':')[0])[:40])
        if not sock.closed:
            problems.append('socket-not-closed')
        if len(disp._connections) != nconn or handler in disp._connections:
            problems.append('connection-not-removed')
        seen2 = None
        if watch:
            seen2 = conn2.take()
            self.node.disconnect(conn2)
        return Run(b''.join(sock.out), problems, seen2)

    def close(self):
        self.node.close()


# ---------------------------------------------------------------------------------------------
# reference reading of requests and replies

ERRNAMES = frozenset(SECoPError.name2class)
EVENTS = ('update', 'log')
KNOWN_ACTIONS = (IDENTREQUEST,) + tuple(REQUEST2REPLY)


def norm(text):
    import re
    text = re.sub(r"'[^']*'|\"[^\"]*\"", 'Q', str(text))
    text = re.sub(r'0x[0-9a-f]+', 'H', text)
    text = re.sub(r'-?\d+(\.\d+)?(e[-+]?\d+)?', 'N', text)
    text = re.sub(r'[^A-Za-z0-9<>\[\].:=_*?]+', '-', text).strip('-')
    return text[:70]


def _fields(body):
    f = body.split(b' ', 2)
    return f[0], (f[1] if len(f) > 1 else b''), (f[2] if len(f) > 2 else b'')


def _utf8(b):
    try:
        return b.decode('utf-8')
    except UnicodeDecodeError:
        return None


class Req:
    """what a request line (bytes without the LF) is, read by the framing rule alone"""
    __slots__ = ('raw', 'readings', 'is_help', 'decodes', 'jsonclass', 'actions', 'specs', 'lookalike')

    def __init__(self, raw):
        self.raw = raw
        self.lookalike = any(m in raw for m in lookalike_bytes()[0][2:])      # VT / FF are plain ASCII white space
        bodies = []
        for body in (raw[:-1] if raw.endswith(b'\r') else raw, raw.strip(WS)):
            if body not in bodies:
                bodies.append(body)
        self.readings = [_fields(b) for b in bodies]
        self.is_help = any(b == b'' or _fields(b)[0] == HELPREQUEST.encode() for b in bodies)
        self.actions = []      # str or None (first token not UTF-8)
        self.specs = []
        rank = {'ok': 0, 'nonstrict-json': 1, 'broken-json': 2, 'invalid-utf8': 3}
        best = 'invalid-utf8'
        for (a, s, d), body in zip(self.readings, bodies):
            if body == b'':
                a = HELPREQUEST.encode()
            self.actions.append(_utf8(a))
            self.specs.append(_utf8(s))
            jc = 'ok'
            if _utf8(body) is None:
                jc = 'invalid-utf8'
            elif d.strip(WS) != b'':
                try:
                    nodes.strict_loads(d.decode('utf-8'))
                except (ValueError, RecursionError):
                    try:
                        json.loads(d.decode('utf-8'))
                        jc = 'nonstrict-json'
                    except (ValueError, RecursionError):
                        jc = 'broken-json'
            if rank[jc] < rank[best]:
                best = jc
        # a line decodes when one of its readings is valid UTF-8 with a strict-JSON data part
        self.decodes = best == 'ok'
        self.jsonclass = best

    def allowed(self):
        """the set of permitted reply actions (None: only the prefix error_ is demanded)"""
        res = set()
        for a in self.actions:
            if a is None:
                return None
            if a == IDENTREQUEST:
                res.add(IDENTREPLY)
            if a in REQUEST2REPLY:
                res.add(REQUEST2REPLY[a])
            res.add(ERRORPREFIX + a)
        return res

    def acls(self):
        """action class for signatures"""
        a = self.actions[-1]
        if a is None:
            ac = 'non-utf8-action'
        elif a in KNOWN_ACTIONS:
            ac = a
        elif _is_handler_name(a):
            ac = 'handler-name-' + a
        else:
            ac = 'unknown-action'
        return ac

    def lcls(self):
        """line class for signatures"""
        lc = self.jsonclass
        if len(self.readings) > 1:
            lc += '+blank-padded'
        if self.lookalike:
            lc += '+space-lookalike'
        if len(self.raw) >= 1 << 16:
            lc += '+huge'
        elif len(self.raw) >= MESSAGE_READ_SIZE:
            lc += '+long'
        return lc

    def cls(self):
        return f'{self.acls()}:{self.lcls()}'

    def __repr__(self):
        return '<req>'


_LOOKALIKE = []


def lookalike_bytes():
    """-> (UTF-8 encodings of SPACE_LOOKALIKES, of NO_SPACE_CONTROLS); checks that the table is what this Python's str
    methods take for white space (else the catalogue would silently miss a class)"""
    if not _LOOKALIKE:
        want = tuple(c for c in range(0x3100) if chr(c).isspace() and c not in (0x09, 0x0a, 0x0d, 0x20))
        if want != SPACE_LOOKALIKES or any(chr(c).isspace() for c in NO_SPACE_CONTROLS):
            raise core.Inconclusive(f'str.isspace() of this interpreter disagrees with SPACE_LOOKALIKES: {[hex(c) for c in want]}')
        _LOOKALIKE.append(tuple(chr(c).encode('utf-8') for c in SPACE_LOOKALIKES))
        _LOOKALIKE.append(tuple(chr(c).encode('utf-8') for c in NO_SPACE_CONTROLS))
    return _LOOKALIKE


def _is_handler_name(a):
    from frappy.protocol.dispatcher import Dispatcher
    return a.isidentifier() and hasattr(Dispatcher, 'handle_' + a)


def stream_class(reqs):
    """input class of a whole stream for signatures: number of lines + the worst line class in it"""
    if not reqs:
        return 'only-a-partial-line'
    rank = {'ok': 0, 'nonstrict-json': 1, 'broken-json': 2, 'invalid-utf8': 3}
    worst = max((r.jsonclass for r in reqs), key=rank.get)
    long = '+huge' if any(len(r.raw) >= 1 << 16 for r in reqs) else \
        '+long' if any(len(r.raw) >= MESSAGE_READ_SIZE for r in reqs) else ''
    return f'{min(len(reqs), 3)}-line-stream:{worst}{long}'


def split_stream(stream):
    """-> (list of complete request lines without LF, trailing partial line)"""
    parts = stream.split(LF)
    return parts[:-1], parts[-1]


def read_output(out):
    """-> (list of (raw, action, spec, data) or (raw, None, problem, None), unterminated: bool)"""
    res = []
    unterminated = bool(out) and not out.endswith(LF)
    for raw in out.split(LF)[:-1] if not unterminated else out.split(LF):
        try:
            a, s, d = nodes.split_line(raw)
            res.append((raw, a, s, d))
        except UnicodeDecodeError:
            res.append((raw, None, 'not-utf8', None))
        except (ValueError, RecursionError):
            res.append((raw, None, 'data-not-strict-json', None))
    return res, unterminated


def is_event(entry, pending):
    _raw, a, s, _d = entry
    if a in EVENTS:
        return True
    if a == ERRORPREFIX + 'update':
        return pending is None or 'update' not in pending.actions
    if a == '_' and pending is not None and pending.is_help and s.isdigit():
        return True
    return False


def judge_output(reqs, out, part, case, where):
    """O1-O4 on the output of one execution.  Returns the list of reply lines (raw bytes) per request or None"""
    lines, unterminated = read_output(out)
    if unterminated:
        part.violation(f'C07:O1:output-does-not-end-with-LF', case, f'output {out[-80:]!r}')
        return None
    bad = [e for e in lines if e[1] is None]
    if bad:
        first = stream_class(reqs)
        part.violation(f'C07:O1:emitted-line-{bad[0][2]}:{first}', case,
                       f'requests {[r.raw[:60] for r in reqs]!r}: emitted line {bad[0][0][:200]!r} is {bad[0][2]}')
        return None
    replies = []
    nev = 0
    for e in lines:
        pending = reqs[len(replies)] if len(replies) < len(reqs) else None
        if is_event(e, pending):
            nev += 1
            continue
        replies.append(e)
    part.transitions += len(lines)
    if len(replies) != len(reqs):
        how = 'fewer' if len(replies) < len(reqs) else 'more'
        rc = stream_class(reqs)
        part.violation(f'C07:O2:{how}-replies-than-request-lines:{rc}', case,
                       f'{len(reqs)} request lines {[r.raw[:60] for r in reqs]!r} got {len(replies)} replies '
                       f'{[e[0][:80] for e in replies]!r} (+{nev} events)')
        return None
    for req, (raw, a, s, d) in zip(reqs, replies):
        allowed = req.allowed()
        iserr = a.startswith(ERRORPREFIX) and a not in REQUEST2REPLY.values()
        if allowed is None:
            if not iserr:
                part.violation(f'C07:O3:{req.acls()}:answered-with-{norm(a)}', case,
                               f'request {req.raw[:80]!r} (action is not UTF-8) answered {raw[:120]!r}, expected error_...')
                continue
        elif a not in allowed:
            got = 'ident-reply' if a == IDENTREPLY else a if a in REQUEST2REPLY.values() else 'an-unknown-action'
            # an error reply naming another action: the framing / decoding lost the request's action - one class for all actions
            latin = [ERRORPREFIX + f[0].decode('latin-1') for f in req.readings if not f[0].isascii()]
            sig = f'C07:O3:error-reply-spells-a-non-ascii-action-in-latin-1:{req.jsonclass}' if a in latin else \
                f'C07:O3:error-reply-names-a-different-action:{req.lcls()}' if iserr else \
                f'C07:O3:{req.acls()}:answered-with-{got}' + (':space-lookalike' if req.lookalike else '')
            part.violation(sig, case,
                           f'request {req.raw[:80]!r} answered {raw[:120]!r}, expected one of {sorted(allowed)}')
            continue
        if a == IDENTREPLY:
            if s or d is not None:
                part.violation(f'C07:O3:{req.acls()}:ident-reply-with-extra-fields', case,
                               f'request {req.raw[:80]!r} answered {raw[:120]!r}')
            part.outcomes['ident'] += 1
            continue
        if iserr:
            # the handler has three places that build error replies: undecodable line, SECoPError, any other exception (the
            # last two differ in the class name); the signature names the place + the line class, not the action
            path = 'internal-error-path' if isinstance(d, list) and d and d[0] == 'InternalError' else 'secop-error-path'
            if not (isinstance(d, list) and len(d) == 3 and isinstance(d[0], str) and isinstance(d[1], str)
                    and isinstance(d[2], dict)):
                part.violation(f'C07:O4:malformed-error-report:{req.lcls()}', case,
                               f'request {req.raw[:80]!r} answered {raw[:160]!r}: not [name, text, {{}}]')
                continue
            if d[0] not in ERRNAMES:
                part.violation(f'C07:O4:error-class-{norm(d[0])}-not-registered:{req.acls()}', case,
                               f'request {req.raw[:80]!r} answered {raw[:160]!r}')
                continue
            if req.decodes and s not in req.specs:
                part.violation(f'C07:O4:specifier-not-echoed:{path}:{req.lcls()}', case,
                               f'request {req.raw[:80]!r} answered {raw[:160]!r}: specifier {s!r}, expected '
                               f'{" or ".join(repr(x) for x in req.specs)}')
                continue
            part.outcomes[f'{req.cls()}->error:{d[0]}'] += 1
        else:
            if req.decodes and s not in req.specs:
                if s and not (a == REQUEST2REPLY['describe'] and s == '.'):
                    part.violation(f'C07:O4:positive-reply-carries-a-different-specifier:{a}:{req.lcls()}', case,
                                   f'request {req.raw[:80]!r} answered {raw[:160]!r}: specifier {s!r}, the request\'s is '
                                   f'{" or ".join(repr(x) for x in req.specs)}')
                    continue
                part.outcomes[f'positive-reply-without-echo:{a}'] += 1
            part.outcomes[f'{req.cls()}->{a}'] += 1
    return [e[0] for e in replies]


def judge_run(run, reqs, part, case, where):
    """O5 + O1-O4"""
    part.traces += 1
    for p in run.problems:
        rc = stream_class(reqs)
        part.violation(f'C07:O5:{p}:{rc}', case,
                       f'requests {[r.raw[:60] for r in reqs]!r}: {p}; output {run.out[-160:]!r}')
    return judge_output(reqs, run.out, part, case, where)


# ---------------------------------------------------------------------------------------------
# segmentations

def chunks_of(stream, cuts, nones=()):
    """cuts: sorted offsets 0 < c < len(stream); nones: gap indices (0 = before the first chunk ... k = after the last)
    where a timeout happens; 'all' = everywhere"""
    pieces = []
    last = 0
    for c in list(cuts) + [len(stream)]:
        if c > last:
            pieces.append(stream[last:c])
            last = c
    res = []
    for i, p in enumerate(pieces):
        if nones == 'all' or i in nones:
            res.append(None)
        res.append(p)
    if nones == 'all' or len(pieces) in nones:
        res.append(None)
    return res


def all_cutsets(n):
    for mask in range(1 << max(n - 1, 0)):
        yield tuple(i + 1 for i in range(n - 1) if mask >> i & 1)


def le2_cutsets(positions):
    positions = sorted(set(positions))
    yield ()
    for a in positions:
        yield (a,)
    for a, b in itertools.combinations(positions, 2):
        yield (a, b)


def newline_positions(stream, radius):
    """offsets within `radius` of every LF and of every multiple of MESSAGE_READ_SIZE"""
    n = len(stream)
    marks = [i + 1 for i in range(n) if stream[i:i + 1] == LF]
    marks += list(range(MESSAGE_READ_SIZE, n, MESSAGE_READ_SIZE))
    res = set()
    for m in marks:
        for c in range(m - radius, m + radius + 1):
            if 0 < c < n:
                res.add(c)
    return sorted(res)


def seg_class(stream, cuts, nones):
    """segmentation class for signatures"""
    if nones:
        return 'with-timeouts'
    if len(cuts) == len(stream) - 1 and len(stream) > 1:
        return 'one-byte-chunks'
    if any(stream[c - 1:c] == LF for c in cuts):
        return 'a-chunk-ends-with-LF'
    return 'cuts-inside-lines' if cuts else 'one-piece'


def explore_segmentations(rig, stream, base, segs, part, stream_case):
    """O6 (+O5) for every segmentation in segs = iterable of (cuts, nones)"""
    for cuts, nones in segs:
        part.evaluations += 1
        run = rig.run(chunks_of(stream, cuts, nones))
        part.transitions += run_steps(cuts, nones)
        part.traces += 1
        case = dict(stream_case, cuts=list(cuts), nones=nones if nones == 'all' else list(nones))
        sc = seg_class(stream, cuts, nones)
        for p in run.problems:
            part.violation(f'C07:O5:segmented:{p}:{sc}', case, f'stream {stream[:120]!r} cuts {list(cuts)[:20]}: {p}')
        if run.out != base:
            got = run.out.count(LF)
            exp = base.count(LF)
            how = 'fewer-lines' if got < exp else 'more-lines' if got > exp else 'different-lines'
            part.violation(f'C07:O6:output-depends-on-segmentation:{how}:{sc}', case,
                           f'stream {stream[:120]!r} ({len(stream)} bytes) cut at {list(cuts)[:20]} timeouts {nones}: '
                           f'output {run.out[:300]!r}, in one piece {base[:300]!r}')
            part.outcomes['segmentation:differs'] += 1
        else:
            part.outcomes['segmentation:same'] += 1


def run_steps(cuts, nones):
    return len(cuts) + 2 + (len(nones) if nones != 'all' else len(cuts) + 2)


# ---------------------------------------------------------------------------------------------
# the catalogue of request lines

def base_lines():
    """(name, action, specifier, data) - valid requests (every action) and well-formed but refused ones"""
    B = []
    add = lambda *a: B.append(a)
    add('ident', b'*IDN?', b'', b'')
    add('describe', b'describe', b'', b'')
    add('describe.', b'describe', b'.', b'')
    add('activate', b'activate', b'', b'')
    add('activate-m', b'activate', b'm', b'')
    add('activate-mp', b'activate', b'm:value', b'')
    add('deactivate', b'deactivate', b'', b'')
    add('deactivate-m', b'deactivate', b'm', b'')
    add('ping', b'ping', b'', b'')
    add('ping-x', b'ping', b'x', b'')
    add('read-m', b'read', b'm', b'')
    add('read-value', b'read', b'm:value', b'')
    add('read-target', b'read', b'm:target', b'')
    add('read-s', b'read', b'm:_s', b'')
    add('read-status', b'read', b'm:status', b'')
    add('change-m', b'change', b'm', b'3')
    add('change-target', b'change', b'm:target', b'4.5')
    add('change-s', b'change', b'm:_s', b'"abc"')
    add('change-s-utf8', b'change', b'm:_s', '"\u00e4\u20ac"'.encode())
    add('change-poll', b'change', b'm:pollinterval', b'1')
    add('do', b'do', b'm:_c', b'2')
    add('logging-m', b'logging', b'm', b'"debug"')
    add('logging-off', b'logging', b'.', b'"off"')
    add('logging-all', b'logging', b'', b'"info"')
    add('empty', b'', b'', b'')
    add('help', b'help', b'', b'')
    # well-formed, to be refused
    add('read-nomodule', b'read', b'x', b'')
    add('read-noparam', b'read', b'm:nosuch', b'')
    add('read-command', b'read', b'm:_c', b'')
    add('read-nospec', b'read', b'', b'')
    add('change-readonly', b'change', b'm:value', b'1')
    add('change-badtype', b'change', b'm:target', b'"a"')
    add('change-nodata', b'change', b'm:target', b'')
    add('change-nomodule', b'change', b'x:target', b'1')
    add('do-range', b'do', b'm:_c', b'99')
    add('do-nocommand', b'do', b'm:nosuch', b'')
    add('do-module-only', b'do', b'm', b'')
    add('do-noarg', b'do', b'm:_c', b'')
    add('activate-nomodule', b'activate', b'x', b'')
    add('activate-command', b'activate', b'm:_c', b'')
    add('logging-nomodule', b'logging', b'x', b'"debug"')
    add('logging-badlevel', b'logging', b'm', b'"nolevel"')
    add('logging-nolevel', b'logging', b'm', b'')
    return B


CORE = ('ident', 'describe', 'activate', 'deactivate-m', 'ping-x', 'read-value', 'change-target', 'change-s', 'do',
        'logging-m', 'help', 'read-nomodule')
QUICK_PROBES = ('ident', 'activate', 'read-value', 'read-target', 'read-s', 'change-target', 'do', 'empty')
PROBES = ('ident', 'describe', 'activate', 'activate-m', 'deactivate', 'ping-x', 'read-m', 'read-value', 'read-target',
          'read-s', 'read-status', 'change-m', 'change-target', 'change-s', 'change-poll', 'do', 'logging-m', 'logging-off',
          'empty', 'help', 'read-noparam', 'change-readonly', 'do-range', 'change-badtype')


def join(a, s, d):
    if d:
        return a + b' ' + s + b' ' + d
    if s:
        return a + b' ' + s
    return a


def heavy_mutants(a, s, d):
    """byte-level mutation catalogue applied to the core bases: (tag, line)"""
    line = join(a, s, d)
    sp = s or b'm:value'
    M = []
    add = lambda tag, l: M.append((tag, l))
    # invalid UTF-8
    add('utf8-in-action', a[:1] + b'\xff' + a[1:] + line[len(a):])
    add('utf8-in-spec', join(a, sp + b'\xfe', d))
    add('utf8-in-data', join(a, sp, b'"\xff"'))
    add('utf8-truncated-at-end', line + b' \xc3' if not d else line[:-1] + b'\xc3' + line[-1:])
    add('utf8-overlong', join(a, b'm:\xc0\xaf', d))
    add('utf8-surrogate-bytes', join(a, sp, b'"\xed\xa0\x80"'))
    add('utf8-only-action', b'\xff\xfe ' + s + (b' ' + d if d else b''))
    # broken / truncated JSON
    if d:
        add('json-truncated', line[:-1])
        add('json-truncated-2', join(a, s, d[:1]))
    for i, bad in enumerate((b'{', b'[1,', b'{"a":}', b"'single'", b'tru', b'1 2', b'"open', b'[1]]', b'{"a":1,}', b'01')):
        add(f'json-broken-{i}', join(a, sp, bad))
    # NaN / Infinity tokens
    for i, tok in enumerate((b'NaN', b'Infinity', b'-Infinity', b'[NaN]', b'{"a": NaN}', b'[1, {"t": Infinity}]')):
        add(f'json-nonstrict-{i}', join(a, sp, tok))
    # exotic but valid JSON
    for i, tok in enumerate((b'null', b'1e999', b'-1e999', b'1' + b'0' * 400, b'{"a":1,"a":2}', b'"\\ud800"', b'"\\u0000"',
                             b' [ 1 , 2 ] ', b'0', b'false', b'""', b'[]', b'{}', b'"a b  c"', b'1.0', b'-0.0', b'"x"')):
        add(f'json-exotic-{i}', join(a, sp, tok))
    add('json-deep', join(a, sp, b'[' * 3000 + b']' * 3000))
    # missing / extra fields
    if d:
        add('drop-spec', a + b' ' + d)
        add('drop-spec-keep-gap', a + b'  ' + d)
        add('drop-data', join(a, s, b''))
    if s:
        add('drop-spec-and-data', a)
        add('spec-colon-only', join(a, b':', d))
        add('spec-trailing-colon', join(a, s + b':', d))
        add('spec-double-colon', join(a, s.replace(b':', b'::') if b':' in s else s + b'::x', d))
        add('spec-dot', join(a, b'.', d))
    add('extra-field', join(a, sp, (d or b'1') + b' 2'))
    add('extra-data-string', join(a, sp, (d or b'') + b' "x"'))
    # blanks
    add('double-space-1', line.replace(b' ', b'  ', 1) if b' ' in line else line + b'  ')
    add('double-space-2', a + b' ' + s + b'  ' + d if d else line + b'  x')
    add('lead-space', b' ' + line)
    add('trail-space', line + b' ')
    add('tab-separator', line.replace(b' ', b'\t', 1) if b' ' in line else line + b'\t')
    add('trail-tab', line + b'\t')
    add('lead-tab', b'\t' + line)
    add('only-blank-after-action', a + b' ')
    # CR / control characters
    add('cr-end', line + b'\r')
    add('crcr-end', line + b'\r\r')
    add('cr-after-action', a + b'\r' + line[len(a):])
    add('cr-lead', b'\r' + line)
    add('nul-in-spec', join(a, sp + b'\x00', d))
    add('nul-lead', b'\x00' + line)
    add('vt-ff', line + b'\x0b\x0c')
    add('del-esc', join(a, sp + b'\x7f\x1b[0m', d))
    # action variants
    add('upper-action', a.upper() + line[len(a):] if a.upper() != a else a.lower() + line[len(a):])
    add('action-truncated', a[:-1] + line[len(a):])
    add('action-extended', a + b's' + line[len(a):])
    add('action-with-colon', a + b':' + line[len(a):])
    # long lines
    add('long-spec', join(a, sp + b'a' * 1100, d))
    add('long-data', join(a, sp, b'"' + b'a' * 1100 + b'"'))
    add('long-action', a + b'a' * 1100 + line[len(a):])
    add('long-blank-tail', line + b' ' * 1100)
    add('long-utf8-broken', join(a, sp, b'"' + b'\xc3\xa4' * 600 + b'\xc3"'))
    return M


def light_mutants(a, s, d):
    line = join(a, s, d)
    return [('cr-end', line + b'\r'), ('trail-space', line + b' '),
            ('double-space-1', line.replace(b' ', b'  ', 1) if b' ' in line else line + b'  '),
            ('extra-field', join(a, s or b'm', (d or b'1') + b' 2')),
            ('utf8-truncated-at-end', line + b'\xc3')]


def special_lines():
    S = []
    add = lambda tag, l: S.append((tag, l))
    for i, l in enumerate((b'x', b'foo m:value 1', b'request', b'request m:value 1', b'_ident', b'_ident x 1', b'help x',
                           b'help x 1', b'help  1', b'_', b'_ 1 "x"', b'update m:value [1,{}]', b'update',
                           b'error_update m:value ["HardwareError","x",{}]', b'error_read m:value ["x","y",{}]',
                           b'log m:debug "x"', b'reply', b'changed m:target [1,{}]', IDENTREPLY.encode(), b'*IDN?x',
                           b'*idn?', b'*IDN? x', b'*IDN? x 1', b'*IDN?  1', b'__class__', b'handle_read', b'_lock',
                           b'help\r', b'Help', b'helping', b'\xff', b'\xff\xfe\xfd', b'\x00', b' ', b'\r', b'\t', b'  ',
                           b'\r\r', b' \t ', b'\x0b', b'"', b'{}', b'[', b'1', b'null', b':', b'.', b'm:value',
                           b'read m:value m:target', b'read m:value\\n', b'describe x', b'describe m', b'describe . 1',
                           b'ping ' + b'n' * 40, b'ping \xc3\xa4', b'ping x null', b'ping x 0', b'ping x 1',
                           b'read m:value 0', b'read m:value []', b'read m:value null', b'read m:value 1',
                           b'activate m:value 1', b'deactivate m:value', b'deactivate x', b'deactivate . 1',
                           b'deactivate m 0', b'activate m:', b'activate :value', b'activate .', b'read :', b'read m:',
                           b'read :value', b'read .', b'change . 1', b'do .', b'do :', b'do m:', b'do m:_c:',
                           b'do m:stop', b'do m:_c "2"', b'do m:_c [2]', b'do m:_c 2.5', b'do m:_c null', b'do m:_c true',
                           b'change m:_s 5', b'change m:_s null', b'change m:_s ["a"]', b'change m:status [100,""]',
                           b'change m:target true', b'change m:target [1]', b'change m:target {"a":1}',
                           b'change m:pollinterval 0', b'change m:pollinterval 1e9', b'change m:_c 1',
                           b'logging', b'logging m', b'logging . 5', b'logging . null', b'logging m "DEBUG"',
                           b'logging m ["debug"]', b'logging m:value "debug"', b'logging . {"a":1}',
                           b'change m:_s "' + b'a' * 6000 + b'"', b'a' * 6000, b'read m:' + b'\xff' * 5000,
                           b'change m:_s "' + b'a' * 1010 + b'"', b'change m:_s "' + b'a' * 1009 + b'"',
                           b'change m:_s "' + b'a' * 1008 + b'"', b'change m:_s "' + b'a' * 2033 + b'"',
                           b'ping nonce\x1f', b'ping \xc2\xa0x', b'deactivate\x1c', b'\xc2\xa0deactivate',
                           b'read m:value\xe2\x80\xa8', b'*IDN?\xe3\x80\x80', b'\xc2\x85read m:value',
                           b'\xc3\xa4ction m:value {', b'read m:\xc3\xa4 {', b'\xc3\xa4ction m:value 1')):
        add(f'special-{i}', l)
    return S


LOOKALIKE_BASES_QUICK = ('ident', 'ping-x', 'read-value', 'deactivate', 'deactivate-m', 'change-target', 'help', 'describe')


def lookalike_lines(tier, ci):
    """the request lines of space look-alike number `ci` (index into SPACE_LOOKALIKES + NO_SPACE_CONTROLS): the character
    alone, and for every base request at the start and the end of the line, on both sides of each separating blank
    (end of action, start / end of specifier, start of data), instead of the first blank, and at both ends at once"""
    spaces, controls = lookalike_bytes()
    ch = (spaces + controls)[ci]
    out, seen = [], set()

    def put(tag, l):
        if l not in seen and LF not in l:
            seen.add(l)
            out.append((tag, l))
    put('alone', ch)
    put('twice', ch + ch)
    put('between-blanks', b' ' + ch + b' ')
    for name, a, s, d in base_lines():
        if tier == 'quick' and name not in LOOKALIKE_BASES_QUICK:
            continue
        line = join(a, s, d)
        put(f'lead@{name}', ch + line)
        put(f'trail@{name}', line + ch)
        put(f'lead+trail@{name}', ch + line + ch)
        put(f'trail-before-cr@{name}', line + ch + b'\r')
        put(f'end-of-action@{name}', a + ch + line[len(a):])
        if s:
            put(f'start-of-specifier@{name}', join(a, ch + s, d))
            put(f'end-of-specifier@{name}', join(a, s + ch, d))
            put(f'instead-of-blank@{name}', a + ch + line[len(a) + 1:])
        else:
            put(f'as-specifier@{name}', join(a, ch, d))
        if d:
            put(f'start-of-data@{name}', join(a, s, ch + d))
    return out


def lookalike_segs(stream, ch):
    """in one piece is the base; cuts on both sides of every occurrence of the character and inside it (multi-byte
    encodings), one-byte chunks"""
    n = len(stream)
    pos = set()
    i = stream.find(ch)
    while i >= 0:
        pos.update(range(i, i + len(ch) + 1))
        i = stream.find(ch, i + 1)
    for c in sorted(p for p in pos if 0 < p < n):
        yield (c,), ()
    if n > 2:
        yield tuple(range(1, n)), ()


def shard_blanks(shard):
    """sub-check `blanks`: shard = index of one space look-alike"""
    tier = core.TIER
    part = core.Part()
    spaces, controls = lookalike_bytes()
    ch = (spaces + controls)[shard]
    rig = Rig()
    solo = Solo(rig, tier)
    try:
        for tag, line in lookalike_lines(tier, shard):
            stream = line + LF
            part.states += 1
            part.nontrivial += 1
            base = check_stream(rig, stream, part, 'space-lookalike', solo)
            segs = lookalike_segs(stream, ch) if tier == 'quick' else line_segs(stream, tier, full=False)
            explore_segmentations(rig, stream, base, segs, part, {'sub': 'stream', 'stream': hexs(stream),
                                                                   'where': 'space-lookalike'})
            if part.states % 61 == 1:
                part.sample({'stream': repr(stream), 'tag': f'U+{ord(ch.decode()):04X} {tag}', 'output': repr(base[:120])})
    finally:
        rig.close()
    return part


# --- very long lines: sizes around every power of two from 64 KiB to 4 MiB

OVERSIZE_TAILS = (b'ping x', b'deactivate', b'change m 7')


def oversize_specs(tier):
    """(k, form, a, tail index): a line of about 2^k bytes.
      form 'blank'  : b'describe' + blanks + tail, line length 2^k + a  - whatever a buffer limit cuts off, the rest of the
                      line reads as the valid request `tail`
      form 'aligned': b'describe ' + b'x' * .. + tail with the tail starting exactly at offset 2^k + a (the offsets at which
                      1024-byte deliveries first exceed 2^k, and 2^k itself)
      form 'valid'  : a valid `change m:_s "aaa..."` request of length 2^k + a
    every line is followed by the line `ping y` (the next line must be answered normally).  The largest sizes (quadratic
    buffer handling in the handler) take a reduced set in the quick tier; the thorough tier takes all."""
    res = []
    kmax = 21 if tier == 'quick' else 22
    for k in range(16, kmax + 1):
        full = tier == 'thorough' or k <= 19
        some = full or k == 20
        for ti in range(len(OVERSIZE_TAILS)):
            if ti and not some:
                continue
            for a in ((-1, 0, 1, 1024, 1025, 3000) if full else (1, 1025) if some else (1025,)):
                res.append((k, 'blank', a, ti))
            for a in ((0, 1, 1024, 2048) if full else (0, 1024) if some else (1024,)):
                res.append((k, 'aligned', a, ti))
        for a in ((-1, 0, 1, 1025) if full else (1,) if some else ()):
            res.append((k, 'valid', a, 0))
    return res


def oversize_stream(spec):
    k, form, a, ti = spec
    n = 1 << k
    tail = OVERSIZE_TAILS[ti]
    if form == 'blank':
        line = b'describe' + b' ' * (n + a - 8 - len(tail)) + tail
    elif form == 'aligned':
        line = b'describe ' + b'x' * (n + a - 9) + tail
    else:
        line = b'change m:_s "' + b'a' * (n + a - 14) + b'"'
    return line + LF + b'ping y' + LF


def oversize_segs(stream, spec, tier):
    """in one piece (= 1024-byte deliveries) is the base; 1000-byte and 4096-byte chunks (the latter delivered in 1024-byte
    pieces, i.e. with a different phase), single cuts at 2^k and next to it"""
    k, form, _a, _ti = spec
    n = 1 << k
    size = len(stream)
    yield tuple(range(1000, size, 1000)), ()
    if tier == 'thorough' or k <= 19 or form != 'valid':
        yield tuple(c for c in (n, n + 1) if 0 < c < size), ()
    if tier == 'thorough' or k <= 19:
        yield tuple(range(4099, size, 4099)), ()
        yield tuple(c for c in (n - 1, n + 1024) if 0 < c < size), ()


def shard_oversize(shard):
    """shard = index range into oversize_specs"""
    tier = core.TIER
    part = core.Part()
    rig = Rig()
    try:
        for spec in oversize_specs(tier)[shard[0]:shard[1]]:
            box = Box(oversize_stream(spec))        # kept out of the frames' locals as far as possible (see Box)
            case = {'sub': 'oversize', 'spec': list(spec)}
            part.states += 1
            part.nontrivial += 1
            base = check_stream(rig, box.v, part, 'oversize', None, case)
            explore_segmentations(rig, box.v, base, oversize_segs(box.v, spec, tier), part, case)
            part.sample({'line': f'{spec[1]} line of 2^{spec[0]}{spec[2]:+d} bytes ending in {OVERSIZE_TAILS[spec[3]]!r}, then ping y',
                         'output': repr(base[:70] + b' ... ' + base[-40:])})
    finally:
        rig.close()
    return part


_CAT = {}


def catalogue(tier):
    """-> Box([(tag, line bytes without LF)]) deduplicated by bytes, deterministic order"""
    if tier in _CAT:
        return _CAT[tier]
    out = []
    seen = set()

    def put(tag, l):
        if LF in l or l in seen:
            return
        seen.add(l)
        out.append((tag, l))
    bases = base_lines()
    for name, a, s, d in bases:
        put('base:' + name, join(a, s, d))
    for tag, l in special_lines():
        put(tag, l)
    for name, a, s, d in bases:
        if name in CORE or tier == 'thorough':
            for tag, l in heavy_mutants(a, s, d):
                put(f'{tag}@{name}', l)
        else:
            for tag, l in light_mutants(a, s, d):
                put(f'{tag}@{name}', l)
    _CAT[tier] = Box(out)
    return _CAT[tier]


def probe_indices(tier):
    cat = catalogue(tier).v
    names = {'base:' + n for n in (QUICK_PROBES if tier == 'quick' else PROBES)}
    return [i for i, (tag, _l) in enumerate(cat) if tag in names]


# ---------------------------------------------------------------------------------------------
# solo answers (for O7 / the definition of garbage)

class Solo:
    """answers of every catalogue line sent alone on a fresh-state node"""
    def __init__(self, rig, tier):
        self.rig = rig
        self.cat = catalogue(tier)
        self.memo = {}

    def __repr__(self):
        return '<solo>'

    def get(self, line):
        """-> (reply line bytes or None, is_garbage)"""
        r = self.memo.get(line)
        if r is None:
            run = self.rig.run([line + LF], watch=True)
            lines, unterminated = read_output(run.out)
            req = Req(line)
            replies = [e for e in lines if e[1] is None or not is_event(e, req)]
            nev = len(lines) - len(replies)
            if unterminated or len(replies) != 1 or replies[0][1] is None:
                r = (None, False)
            else:
                _raw, a, _s, _d = replies[0]
                iserr = a.startswith(ERRORPREFIX) and a not in REQUEST2REPLY.values()
                r = (replies[0][0], iserr and nev == 0 and not run.problems)
            self.memo[line] = r
        return r


# ---------------------------------------------------------------------------------------------
# checking one stream

def hexs(b):
    return b.hex()


def check_stream(rig, stream, part, where, solo=None, case=None):
    """base execution (stream in one piece - recv() still delivers at most MESSAGE_READ_SIZE bytes at a time), with and
    without a watching second connection: O1-O5, O7, O8.  Returns the base output."""
    lines, _partial = split_stream(stream)
    reqs = [Req(l) for l in lines]
    case = case or {'sub': 'stream', 'stream': hexs(stream), 'where': where}
    part.evaluations += 2
    part.transitions += 2 * (len(stream) // MESSAGE_READ_SIZE + 2)
    run = rig.run([stream] if stream else [])
    replies = judge_run(run, reqs, part, case, where)
    run2 = rig.run([stream] if stream else [], watch=True)
    part.traces += 1
    if run2.out != run.out or run2.problems != run.problems:
        part.violation(f'C07:O8:output-changes-when-another-connection-is-active:{stream_class(reqs)}',
                       case, f'stream {stream[:120]!r}: alone {run.out[:200]!r}, with an activated second connection '
                       f'{run2.out[:200]!r}')
    if replies is not None and solo is not None:
        garb = [solo.get(l)[1] for l in lines]
        if lines and all(garb):
            part.outcomes['watcher:garbage-only-stream'] += 1
            if run2.conn2:
                part.violation(f'C07:O8:second-connection-receives-{norm(run2.conn2[0][0])}:{stream_class(reqs)}', case,
                               f'stream {stream[:120]!r} (every line refused) made another, activated connection receive '
                               f'{run2.conn2[:3]!r}')
        elif run2.conn2:
            part.outcomes['watcher:sees-updates-of-accepted-requests'] += 1
        if len(lines) > 1:
            for i, l in enumerate(lines):
                others = [g for j, g in enumerate(garb) if j != i]
                if not all(others):
                    continue
                alone = solo.get(l)[0]
                if alone is None:
                    continue
                part.outcomes['isolation:compared'] += 1
                if replies[i] != alone:
                    pos = 'after' if i == len(lines) - 1 else 'before' if i == 0 else 'between'
                    gi = 0 if i else 1
                    part.violation(f'C07:O7:answer-changes-{pos}-garbage:{reqs[i].acls()}:next-to:{reqs[gi].lcls()}',
                                   case, f'line {l[:80]!r} alone -> {alone[:160]!r}; in {[x[:60] for x in lines]!r} -> '
                                   f'{replies[i][:160]!r}')
    return run.out


def line_segs(stream, tier, full=False):
    """segmentations for a one-line stream: every single cut; all pairs of cuts when `full` (base lines; every line up to
    64 bytes in the thorough tier), else pairs from the offsets next to both ends, the middle, every LF and every 1024
    boundary; one-byte chunks; timeouts in the gaps of the single cuts"""
    n = len(stream)
    lim = 64 if tier == 'quick' else 160
    special = set(newline_positions(stream, 2)) | {c for c in (1, 2, n // 2, n - 3) if 0 < c < n}
    if n <= lim:
        singles = list(range(1, n))
    else:
        singles = sorted(special | set(range(1, 12)))
    pairpos = singles if (full and n <= lim) else sorted(special)
    if len(pairpos) > 24:
        pairpos = sorted(set(newline_positions(stream, 1)) | {1, n // 2})
    yield (), ()
    yield (), 'all'
    for c in singles:
        yield (c,), ()
        yield (c,), (1,)
    for c in sorted(special):
        yield (c,), 'all'
        yield (c,), (0,)
        yield (c,), (2,)
    for a, b in itertools.combinations(pairpos, 2):
        yield (a, b), ()
    if n > 3:
        yield tuple(range(1, n)), ()
        if n <= 200:
            yield tuple(range(1, n)), 'all'


def pair_segs(stream, tier):
    """segmentations for a stream of several lines: single cuts next to every LF, pairs of them, a timeout at each LF,
    one-byte chunks"""
    radius = 1 if tier == 'quick' else 2
    n = len(stream)
    pos = newline_positions(stream, radius)
    if len(pos) > 16:
        pos = newline_positions(stream, 1)
    for c in pos:
        yield (c,), ()
    near = set(newline_positions(stream, 1))
    for a, b in itertools.combinations(pos, 2):
        if b - a > 2 * radius and a in near and b in near:      # pairs of cuts next to different LFs
            yield (a, b), ()
    for c in (i + 1 for i in range(n - 1) if stream[i:i + 1] == LF):
        yield (c,), (1,)
    if n <= 400:
        yield tuple(range(1, n)), ()


# ---------------------------------------------------------------------------------------------
# shards

def shard_lines(shard):
    lo, hi = shard
    tier = core.TIER
    part = core.Part()
    cat = catalogue(tier)
    rig = Rig()
    solo = Solo(rig, tier)
    try:
        for idx in range(lo, hi):
            tag, line = cat.v[idx]
            for tail in (b'', b'rea'):
                stream = line + LF + tail
                part.states += 1
                part.nontrivial += 1 if not tag.startswith('base:') else 0
                base = check_stream(rig, stream, part, 'one-line' if not tail else 'line+partial', solo)
                if part.states % 97 == 1:
                    part.sample({'stream': repr(stream[:80]), 'bytes': len(stream), 'tag': tag, 'output': repr(base[:120])})
                segs = line_segs(stream, tier, full=tag.startswith('base:') or tier == 'thorough') if not tail \
                    else pair_segs(stream, tier)
                explore_segmentations(rig, stream, base, segs, part, {'sub': 'stream', 'stream': hexs(stream),
                                                                       'where': 'one-line'})
    finally:
        rig.close()
    return part


def short_atoms(tier):
    """(atoms combined into 1-3 line streams, lines used alone) for the exhaustive-segmentation streams"""
    atoms = [b'', b'\r', b'help', b'*IDN?', b'ping x']
    singles = [b'read m:value', b'change m 1', b'do m:_c 2', b'read m:_s', b'activate', b'ping x 1', b'read m {',
               b'change m NaN', b'rea\xc3', b'read  m', b'read m\r', b'help x', b'_ident', b'request', b'read x', b'read m',
               b'\xff', b'update']
    if tier == 'thorough':
        atoms += [b'read m']
        singles += [b'read m:target', b'change m:_s "a"', b'change m:_s "\xc3\xa4"', b'activate m', b'logging m "off"',
                    b'describe .', b'change m:target 1', b'read m:value {', b'read m:nosuch', b'deactivate', b'describe',
                    b'logging', b'read m NaN', b'*IDN? x', b'a b c', b'ping \xc3\xa4', b'do m']
    return atoms, singles


def short_streams(tier):
    """all streams of <= FULLMAX bytes: 1-3 atoms (or one of the single lines), each LF-terminated, optionally followed
    by a partial line"""
    fullmax = 14 if tier == 'quick' else 18
    atoms, singles = short_atoms(tier)
    partials = [b''] if tier == 'quick' else [b'', b'r']
    spartials = [b'', b'r'] if tier == 'quick' else [b'', b'r', b'\xff']
    seen = set()
    for k in (1, 2, 3):
        for combo in itertools.product(atoms, repeat=k):
            body = b''.join(a + LF for a in combo)
            if len(body) > fullmax:
                continue
            for p in partials:
                if len(body + p) <= fullmax:
                    seen.add(body + p)
    for a in singles:
        for p in spartials:
            if len(a + LF + p) <= fullmax:
                seen.add(a + LF + p)
    seen.update(p for p in spartials if p)     # no complete line at all
    return sorted(seen, key=lambda s: (len(s), s)), fullmax


def shard_short(shard):
    part = core.Part()
    tier = core.TIER
    rig = Rig()
    solo = Solo(rig, tier)
    try:
        for stream in short_streams(tier)[0][shard[0]:shard[1]]:
            h = stream.hex()
            part.states += 1
            part.nontrivial += 1
            base = check_stream(rig, stream, part, 'short-stream', solo)
            n = len(stream)
            segs = ((cuts, ()) for cuts in all_cutsets(n))
            explore_segmentations(rig, stream, base, segs, part, {'sub': 'stream', 'stream': h, 'where': 'short-stream'})
            # timeouts: in every single gap of every segmentation with <= 2 cuts, and everywhere for all of them <= 10 bytes
            tsegs = []
            for cuts in le2_cutsets(range(1, n)):
                for g in range(len(cuts) + 2):
                    tsegs.append((cuts, (g,)))
            if n <= 10:
                tsegs += [(cuts, 'all') for cuts in all_cutsets(n)]
            explore_segmentations(rig, stream, base, tsegs, part, {'sub': 'stream', 'stream': h, 'where': 'short-stream'})
            if part.states % 41 == 1:
                part.sample({'stream': repr(stream), 'segmentations': 1 << max(n - 1, 0), 'output': repr(base[:100])})
    finally:
        rig.close()
    return part


def shard_pairs(shard):
    """shard = (lo, hi, mode).  mode 'probes': streams [A, B] and [B, A] for A in range, B in the probe lines (catalogue
    of the tier); mode 'full' (thorough): [A, B] for A in range, B in the whole quick catalogue, fewer segmentations"""
    lo, hi, mode = shard
    tier = core.TIER
    part = core.Part()
    cat = catalogue(tier if mode == 'probes' else 'quick')
    rig = Rig()
    solo = Solo(rig, tier)
    others = probe_indices(tier) if mode == 'probes' else range(len(cat.v))
    try:
        for i in range(lo, hi):
            for j in others:
                # (probe, line) is enumerated by the probe's own shard when the line is a probe, too
                orders = ((i, j), (j, i)) if mode == 'probes' and i not in others else ((i, j),)
                for x, y in orders:
                    stream = cat.v[x][1] + LF + cat.v[y][1] + LF
                    part.states += 1
                    part.nontrivial += 1
                    base = check_stream(rig, stream, part, 'two-lines', solo)
                    if mode == 'probes':
                        segs = pair_segs(stream, tier)
                    else:
                        c = len(cat.v[x][1]) + 1
                        segs = [((c,), ()), ((c - 1, c + 1), ())]
                    explore_segmentations(rig, stream, base, segs, part,
                                          {'sub': 'stream', 'stream': hexs(stream), 'where': 'two-lines'})
                    if part.states % 1999 == 1:
                        part.sample({'stream': repr(stream[:100]), 'output': repr(base[:160])})
    finally:
        rig.close()
    return part


def garbage_reps(tier):
    """one representative per mutation tag (applied to `read m:value`) + the specials answered by an error"""
    cat = catalogue(tier).v
    res = [i for i, (tag, _l) in enumerate(cat) if tag.endswith('@read-value') or tag.endswith('@change-target')]
    res += [i for i, (tag, l) in enumerate(cat) if tag.startswith('special-') and len(l) < 100]
    return res


def shard_triples(shard):
    """[G1, L, G2] for G1 in shard, L in probes, G2 in garbage representatives"""
    tier = core.TIER
    g1s = garbage_reps(tier)[shard[0]:shard[1]]
    part = core.Part()
    cat = catalogue(tier)
    rig = Rig()
    solo = Solo(rig, tier)
    reps = [g for g in garbage_reps(tier) if len(cat.v[g][1]) < 200 and solo.get(cat.v[g][1])[1]
            and (cat.v[g][0].endswith('@read-value') or cat.v[g][0].startswith('special-'))][::4]
    try:
        for g1 in g1s:
            if not solo.get(cat.v[g1][1])[1]:
                continue
            for l in probe_indices(tier):
                for g2 in reps:
                    stream = cat.v[g1][1] + LF + cat.v[l][1] + LF + cat.v[g2][1] + LF
                    part.states += 1
                    part.nontrivial += 1
                    base = check_stream(rig, stream, part, 'three-lines', solo)
                    segs = [((c,), ()) for c in newline_positions(stream, 1)] + [(tuple(range(1, len(stream))), ())]
                    explore_segmentations(rig, stream, base, segs, part,
                                          {'sub': 'stream', 'stream': hexs(stream), 'where': 'three-lines'})
    finally:
        rig.close()
    return part


# ---------------------------------------------------------------------------------------------
# codec laws

def codec_triples(tier):
    actions = ['read', 'update', 'error_read', '*IDN?', '_', 'x', IDENTREPLY, 'describing', '\u00e4ction', 'a:b', '"', '[1]']
    specs = [None, 'm', 'm:value', '.', 'm:_s', '\u00e4:\u20ac', ':', 'a:b:c', '"q"', '{}', '0', 'null']
    datas = [None, 0, 1, -1, 1.5, -0.0, 1e308, 5e-324, 10 ** 30, True, False, '', ' ', 'a b', ' a ', 'a  b', '\n', 'a\nb', '\t',
             '\u00e4', '\u20ac\U0001f600', '\ud800', '"', '\\', 'null', '[1]', [], {}, [None], [[]], [1, 'a', None, True],
             {'a': 1}, {'': ''}, {'a b': ' '}, {'t': 1.5}, [1.5, {'t': 1700000000.123456}], ['a', {'t': 1, 'e': [1, 2]}],
             ['HardwareError', 'text with  two blanks', {}], {'modules': {'m': {'accessibles': {}}}}, [[1, [2, [3, [4]]]]],
             'x' * 2000, list(range(300))]
    if tier == 'thorough':
        datas += [{'k%d' % i: [i, str(i), None] for i in range(50)}, [[[]]], [{}], {'a': {'b': {'c': []}}}, 0.1, 1 / 3, 2 ** 63,
                  -2 ** 63, 1e-7, 123456789.123456789, '\x00', '\x7f', '\u2028']
    return actions, specs, datas


def jeq(a, b):
    """equality of JSON values that distinguishes 1 from True and 1 from 1.0 (== does not) and -0.0 from 0.0"""
    if type(a) is not type(b):
        return False
    if isinstance(a, list):
        return len(a) == len(b) and all(jeq(x, y) for x, y in zip(a, b))
    if isinstance(a, dict):
        return list(a) == list(b) and all(jeq(a[k], b[k]) for k in a)
    if isinstance(a, float):
        return repr(a) == repr(b)
    return a == b


def check_triple(t, part):
    part.evaluations += 1
    part.transitions += 2
    part.traces += 1
    case = {'sub': 'codec-triple', 'triple': json.dumps(list(t))}
    dcls = type(t[2]).__name__
    try:
        frame = encode_msg_frame(*t)
        if not frame.endswith(LF) or frame.count(LF) != 1:
            part.violation(f'C07:O9:encode:frame-is-not-one-line:data-{dcls}', case, f'{t!r} -> {frame[:200]!r}')
            return
        frame.decode('utf-8')
        back = decode_msg(frame[:-1])
    except Exception as e:
        part.violation(f'C07:O9:codec-raises-{type(e).__name__}:data-{dcls}', case, f'{t!r}: {e!r}')
        return
    if not (isinstance(back, tuple) and len(back) == 3 and back[0] == t[0] and back[1] == t[1] and jeq(back[2], t[2])):
        which = 'action' if back[0] != t[0] else 'specifier' if back[1] != t[1] else 'data'
        part.violation(f'C07:O9:decode-of-encode-differs-in-{which}:spec-{"none" if t[1] is None else "given"}:data-{dcls}',
                       case, f'{t!r} -> {frame[:200]!r} -> {back!r}')
        part.outcomes['codec:triple-differs'] += 1
    else:
        part.outcomes[f'codec:triple-ok:{dcls}'] += 1


def canonical_line(t):
    """the canonical line of a triple, written from the framing rule (not with encode_msg_frame)"""
    a, s, d = t
    if d is not None:
        return f'{a} {s or ""} {json.dumps(d)}'.encode('utf-8')
    if s:
        return f'{a} {s}'.encode('utf-8')
    return a.encode('utf-8')


def check_canonical(line, part):
    part.evaluations += 1
    part.transitions += 2
    part.traces += 1
    case = {'sub': 'codec-line', 'line': line.hex()}
    try:
        t = decode_msg(line)
        again = encode_msg_frame(*t)
    except Exception as e:
        part.violation(f'C07:O9:codec-raises-{type(e).__name__}:canonical-line', case, f'{line[:200]!r}: {e!r}')
        return
    if again != line + LF:
        part.violation(f'C07:O9:encode-of-decode-differs:{len(line.split(b" ", 2))}-fields', case,
                       f'{line[:200]!r} -> {t!r} -> {again[:200]!r}')
        part.outcomes['codec:line-differs'] += 1
    else:
        part.outcomes['codec:line-ok'] += 1


def shard_codec(shard):
    part = core.Part()
    actions, specs, datas = codec_triples(core.TIER)
    for ai in shard:
        a = actions[ai]
        for s in specs:
            for d in datas:
                t = (a, s, d)
                part.states += 1
                part.nontrivial += 1 if (s is not None or d is not None) else 0
                check_triple(t, part)
                check_canonical(canonical_line(t), part)
    if shard[0] == 0:
        part.sample({'triple': repr((actions[0], specs[2], datas[35])), 'frame': repr(encode_msg_frame(actions[0], specs[2], datas[35]))})
    return part


# ---------------------------------------------------------------------------------------------

def short_shards(tier):
    """index ranges into short_streams(tier), balanced by 2^(len-1)"""
    streams, fullmax = short_streams(tier)
    shards, lo, cost = [], 0, 0
    for i, s in enumerate(streams):
        cost += 1 << max(len(s) - 1, 0)
        if cost >= (1 << (fullmax - 1)) * 2:
            shards.append((lo, i + 1))
            lo, cost = i + 1, 0
    if lo < len(streams):
        shards.append((lo, len(streams)))
    return shards, len(streams), fullmax


def run(ctx):
    _run_sequential(ctx)
    only = getattr(ctx, 'only', None) or set()
    if not only or 'conc' in only:
        from vf.harness import c07conc
        c07conc.run_conc(ctx)


def _run_sequential(ctx):
    # note: no big objects may live in this frame - the pool workers are forked below it, and frappy's error replies
    # repr() every local of every frame of the stack (formatExtendedStack)
    tier = ctx.tier
    only = getattr(ctx, 'only', None) or set()
    n = len(catalogue(tier).v)

    def want(name):
        return not only or name in only

    if want('codec'):
        ctx.pmap(shard_codec, [[i] for i in range(len(codec_triples(tier)[0]))], name='codec')
    if want('blanks'):
        ctx.pmap(shard_blanks, list(range(len(SPACE_LOOKALIKES) + len(NO_SPACE_CONTROLS))), name='blanks')
    if want('oversize'):
        nover = len(oversize_specs(tier))
        ctx.pmap(shard_oversize, [(i, i + 1) for i in range(nover)], name='oversize')
    if want('lines'):
        ctx.pmap(shard_lines, [(i, min(i + 4, n)) for i in range(0, n, 4)], name='lines')
    sshards, nstreams, fullmax = short_shards(tier)
    if want('short'):
        ctx.pmap(shard_short, sshards, name='short')
    if want('pairs'):
        ctx.pmap(shard_pairs, [(i, min(i + 4, n), 'probes') for i in range(0, n, 4)], name='pairs')
    if tier == 'thorough' and want('allpairs'):
        nq = len(catalogue('quick').v)
        ctx.pmap(shard_pairs, [(i, i + 1, 'full') for i in range(nq)], name='allpairs')
    if tier == 'thorough' and want('triples'):
        nrep = len(garbage_reps(tier))
        ctx.pmap(shard_triples, [(i, min(i + 2, nrep)) for i in range(0, nrep, 2)], name='triples')
    ctx.rule = (
        'enumeration: request-line catalogue = grammar of valid/refused SECoP requests (every action) + byte-level mutation '
        'catalogue (invalid UTF-8, broken/truncated/non-strict JSON, missing/extra fields, blanks, CR, control bytes, unknown and '
        'handler-colliding actions, lines > 1024 and > 4096 bytes), deduplicated by bytes. blanks: every character that Python str '
        'methods take for white space but the wire format does not (VT FF FS GS RS US NEL NBSP U+1680 U+2000-200A LS PS U+202F U+205F '
        'U+3000; + ZWSP, BOM as controls) x position (alone, start / end of line, both, before CR, end of action, start / end of '
        'specifier, instead of the blank, start of data) x base request (8 quick, all thorough) x cuts around and inside the '
        'character + one-byte chunks. oversize: lines of 2^k + a bytes (k = 16..21/22; a in -1..3000) whose end / whose bytes from '
        'offset 2^k + a on spell a valid request, and valid long requests, followed by another line; 1024-, 1000-, 4099-byte '
        'deliveries. lines: every catalogue line (and line + '
        'partial line) x all cut sets with <= 2 cuts (all offsets up to 64/160 bytes, else offsets around LF / 1024 boundaries) + '
        'one-byte chunks + a timeout in every gap. short: every stream of <= FULLMAX bytes made of 1-3 short lines (+ partial line) '
        'x all 2^(n-1) cut sets + timeouts. pairs: (line, probe) and (probe, line) two-line streams (thorough: + all ordered pairs of the quick catalogue) x '
        'cuts around both LFs + one-byte chunks. triples (thorough): garbage, probe, garbage. codec: action x specifier x data '
        'catalogue. states = distinct byte streams (codec: triples); distinct_nontrivial = streams containing a mutated line or more '
        'than one line; evaluations = executions of the real TCPRequestHandler (one per stream x segmentation) resp. codec round '
        'trips; transitions = recv() deliveries + emitted lines judged; traces = executions compared with the oracle')
    ctx.coverage.update(
        bound_completed=f'lines<={2 if tier == "quick" else 3} per stream; all segmentations for streams<={fullmax} bytes; '
                        f'<=2 cuts + one-byte chunks beyond',
        catalogue_lines=n, short_streams=nstreams, fullmax=fullmax,
        longest_line=max(len(l) for _t, l in catalogue(tier).v))
    ctx.assume('detailed_errors is False (the default of the TCP interface)',
               'no poller / other threads run: asynchronous messages arise only inside the handling of the connection\'s own '
               'requests (the concurrent sub-check covers the send lock)',
               'the clock is constant (dispatcher.currenttime, modulebase.time.time)',
               'one Writable module with float / string parameters and one command; other modules\' drivers are C04\'s business',
               'kernel TCP is not modelled: recv(n) returns any non-empty prefix of the pending bytes of at most n bytes')


def replay(case):
    if case.get('kind') == 'conc':
        from vf.harness import c07conc
        return c07conc.replay_conc(case)
    part = core.Part()
    sub = case.get('sub')
    if sub == 'codec-triple':
        check_triple(tuple(json.loads(case['triple'])), part)
        return part
    if sub == 'codec-line':
        check_canonical(bytes.fromhex(case['line']), part)
        return part
    if sub == 'oversize':
        stream = oversize_stream(tuple(case['spec']))
        stream_case = {'sub': 'oversize', 'spec': case['spec']}
    else:
        stream = bytes.fromhex(case['stream'])
        stream_case = {'sub': 'stream', 'stream': case['stream'], 'where': case.get('where', 'stream')}
    rig = Rig()
    solo = Solo(rig, core.TIER) if sub != 'oversize' else None
    try:
        base = check_stream(rig, stream, part, case.get('where', 'stream'), solo, stream_case)
        if 'cuts' in case:
            nones = case.get('nones') or ()
            nones = 'all' if nones == 'all' else tuple(nones)
            explore_segmentations(rig, stream, base, [(tuple(case['cuts']), nones)], part, stream_case)
    finally:
        rig.close()
    return part
