"""C01 - datatype validation is sound, canonical and total.

enumx: exhaustive product  type catalogue x candidates (valid values with <= k positions replaced by bad ones)
x previous values, through the two entry points of the real code:
  wire: dt.validate(dt.import_value(x), previous)     (exactly what Dispatcher._setParameterValue does)
  drv : dt.validate(x, previous) and the bare conversion dt(x)
Oracle: vf.catalog.refmodel.judge (value set S, denotation F) + totality T (only RangeError/WrongTypeError) +
idempotence I + independence of `previous` for struct-free types P.
"""
import math
import re

from vf import core
from vf.catalog import types as T, values as V, refmodel as R

PROPERTY = 'C01'


def norm(text):
    text = re.sub(r'^((\[\d+\]|\.\w+): )+', '', str(text))   # the signature names the failing kind, not the path to it
    text = re.sub(r"'[^']*'|\"[^\"]*\"", 'Q', str(text))
    text = re.sub(r'-?\d+(\.\d+)?(e[-+]?\d+)?', 'N', text)
    text = re.sub(r'[^A-Za-z0-9<>\[\].:=]+', '-', text).strip('-')
    return text[:90]


def same(a, b):
    """structural equality that treats NaN as equal to itself and distinguishes True from 1.0 only by ==
    (frappy results compare with ==)"""
    try:
        if a == b:
            return True
    except Exception:
        pass
    if isinstance(a, float) and isinstance(b, float) and math.isnan(a) and math.isnan(b):
        return True
    return False


def safe_export(dt, v):
    try:
        return repr(dt.export_value(v))
    except Exception as e:      # exportability of valid values is judged by C02, not here
        return f'exc:{type(e).__name__}'


class Runner:
    def __init__(self, part):
        self.part = part
        from frappy.errors import RangeError, WrongTypeError
        self.ok_errors = (RangeError, WrongTypeError)

    def call(self, fn, *args):
        """-> ('ok', result) | ('err', None) | ('exc', exception)"""
        self.part.transitions += 1
        try:
            return 'ok', fn(*args)
        except self.ok_errors:
            return 'err', None
        except Exception as e:     # totality clause
            return 'exc', e

    def wire(self, dt, x, prev):
        def f():
            return dt.validate(dt.import_value(x), prev)
        return self.call(f)

    def drv(self, dt, x, prev):
        return self.call(dt.validate, x, prev)

    def conv(self, dt, x):
        return self.call(dt, x)


def unfreeze(v):
    """plain python containers for the reference model (an ImmutableDict is a dict for it)"""
    if isinstance(v, dict):
        return {k: unfreeze(w) for k, w in v.items()}
    if isinstance(v, tuple):
        return tuple(unfreeze(w) for w in v)
    if isinstance(v, list):
        return [unfreeze(w) for w in v]
    return v


def case_json(spec, entry, x, prev_idx):
    return {'spec': T.tojson(spec), 'entry': entry, 'x': V.enc(x), 'prev': prev_idx}


def internal_values(dt, spec):
    """values the parameter may currently hold: the implementation's own results for the valid wire catalogue"""
    res = []
    for v in V.valid(spec, 'wire'):
        try:
            r = dt.validate(dt.import_value(v))
        except Exception:
            continue
        if not any(repr(r) == repr(o) for o in res):
            res.append(r)
    return res


def pick_prevs(spec, ivals):
    """None + previous values of different shapes (shorter / longer / equal containers, complete / partial structs)"""
    prevs = [None]
    if spec[0] in ('array', 'tuple', 'struct'):
        by_len = {}
        for v in ivals:
            by_len.setdefault(len(v), v)
        for n in sorted(by_len):
            prevs.append(by_len[n])
        if len(ivals) > 1 and ivals[-1] not in prevs:
            prevs.append(ivals[-1])
    elif ivals:
        prevs.append(ivals[0])
    return prevs[:6]


def reconfigure(dt, old, new, forward=True):
    """change the properties of the live datatype `dt` (built from spec `old`) so that it declares spec `new`, the way a
    configuration override does it: Parameter.setProperty -> DataType.setProperty (an array forwards to its members)"""
    kind = old[0]
    assert kind == new[0]
    names = {'double': ((1, 'min'), (2, 'max')), 'int': ((1, 'min'), (2, 'max')), 'scaled': ((2, 'min'), (3, 'max')),
             'string': ((1, 'minchars'), (2, 'maxchars')), 'blob': ((1, 'minbytes'), (2, 'maxbytes')),
             'array': ((2, 'minlen'), (3, 'maxlen'))}.get(kind, ())
    for idx, name in names:
        if old[idx] != new[idx]:
            dt.setProperty(name, new[idx])
    if kind == 'array' and old[1] != new[1]:
        if forward and old[1][0] in ('double', 'int', 'scaled'):
            # through the array, as a cfg entry `max=20` on an array parameter arrives
            for idx, name in {'double': ((1, 'min'), (2, 'max')), 'int': ((1, 'min'), (2, 'max')),
                              'scaled': ((2, 'min'), (3, 'max'))}[old[1][0]]:
                if old[1][idx] != new[1][idx]:
                    dt.setProperty(name, new[1][idx])
        else:
            reconfigure(dt.members, old[1], new[1], forward)
    elif kind == 'tuple':
        for m, o, n in zip(dt.members, old[1], new[1]):
            reconfigure(m, o, n, forward)
    elif kind == 'struct':
        for (name, o), (_n, n) in zip(old[1], new[1]):
            reconfigure(dt.members[name], o, n, forward)
    return dt


def reconf_pairs():
    """(old spec, new spec): the same type with widened and with narrowed limits, top level and as member"""
    leaf = [(('double', 0.0, 10.0, None, None), ('double', 0.0, 20.0, None, None)),
            (('double', -5.0, 5.0, None, None), ('double', -2.0, 2.0, None, None)),
            (('int', 0, 9), ('int', 0, 20)), (('int', -3, 3), ('int', 1, 2)),
            (('scaled', 0.1, 0.0, 10.0), ('scaled', 0.1, 0.0, 20.0)), (('scaled', 2.0, -10.0, 10.0), ('scaled', 2.0, -4.0, 6.0)),
            (('string', 0, 3, False), ('string', 0, 5, False)), (('string', 0, 3, False), ('string', 1, 2, False)),
            (('blob', 0, 4), ('blob', 0, 6)), (('blob', 0, 4), ('blob', 2, 3))]
    res = list(leaf)
    for o, n in leaf:
        res.append((('array', o, 0, 3), ('array', n, 0, 3)))
        res.append((('array', o, 0, 3), ('array', n, 1, 2)))
        res.append((('tuple', (('int', 0, 9), o)), ('tuple', (('int', 0, 9), n))))
        res.append((('struct', (('a', o), ('b', ('bool',))), ('b',)), ('struct', (('a', n), ('b', ('bool',))), ('b',))))
        res.append((('array', ('array', o, 0, 2), 0, 2), ('array', ('array', n, 0, 2), 0, 2)))
    return res


def check_type(spec, part, k, only_case=None, reconf_from=None):
    run = Runner(part)
    if reconf_from is None:
        dt = T.build(spec)
    else:
        dt = reconfigure(T.build(reconf_from), reconf_from, spec)
        dt.checkProperties()         # what Parameter.checkProperties does after the configuration was applied
    ivals = internal_values(dt, spec)
    prevs = pick_prevs(spec, ivals)
    structfree = not R.has_struct(spec)
    top = spec[0]
    seen = set()
    for entry in ('wire', 'drv'):
        for x, nbad in V.cands(spec, entry, k):
            key = (entry, repr(x))
            if key in seen:
                continue
            seen.add(key)
            part.states += 1
            if nbad:
                part.nontrivial += 1
            base = None
            for pi, prev in enumerate(prevs):
                if only_case is not None and (only_case['entry'] != entry or only_case['prev'] != pi
                                              or repr(V.dec(only_case['x'])) != repr(x)):
                    continue
                part.evaluations += 1
                kind, r = run.wire(dt, x, prev) if entry == 'wire' else run.drv(dt, x, prev)
                part.traces += 1
                part.outcomes[f'{top}:{entry}:{kind}'] += 1
                if part.evaluations % 9973 == 1:
                    part.sample({'type': T.sstr(spec), 'entry': entry, 'x': V.enc(x), 'previous': repr(prev)[:60],
                                 'outcome': kind, 'result': repr(r)[:80]})
                if pi == 0:
                    base = (kind, r)
                case = case_json(spec, entry, x, pi)
                if reconf_from is not None:
                    case['reconf_from'] = T.tojson(reconf_from)
                if kind == 'exc':
                    part.violation(f'C01:{entry}:T:{type(r).__name__}:{norm(r)}', case,
                                   f'{T.sstr(spec)} {entry} x={x!r} previous={prev!r}: unexpected {type(r).__name__}: {r}')
                    continue
                if kind == 'ok':
                    res = R.judge(spec, x, r, prev, entry)
                    if res:
                        part.violation(f'C01:{entry}:{res[2]}:{res[0]}:{norm(res[1])}', case,
                                       f'{T.sstr(spec)} {entry} x={x!r} previous={prev!r} -> {r!r}: {res[1]}')
                        continue
                    # idempotence
                    k2, r2 = run.drv(dt, r, None)
                    if k2 != 'ok' or not same(r2, r) or safe_export(dt, r2) != safe_export(dt, r):
                        part.violation(f'C01:{entry}:{top}:I:revalidation-{k2}', case,
                                       f'{T.sstr(spec)} {entry} x={x!r} -> {r!r}; validating that again gives {k2} {r2!r}')
                if structfree and pi and base is not None and only_case is None:
                    if base[0] != kind or (kind == 'ok' and not same(base[1], r)):
                        part.violation(f'C01:{entry}:{top}:P:outcome-depends-on-previous', case,
                                       f'{T.sstr(spec)} {entry} x={x!r}: with previous=None {base[0]} {base[1]!r}, '
                                       f'with previous={prev!r} {kind} {r!r}')
            if entry == 'drv' and not structfree and only_case is None or \
                    only_case is not None and only_case['entry'] == 'frozen' and repr(V.dec(only_case['x'])) == repr(x):
                # the result of the bare conversion (frozen structs, members converted but limits unchecked: what module code
                # holds after reading such a value) handed to validate: being frozen is no proof of having been validated
                kc, fx = run.conv(dt, x)
                if kc == 'ok' and repr(fx) != repr(x):
                    part.evaluations += 1
                    kind, r = run.drv(dt, fx, None)
                    part.traces += 1
                    part.outcomes[f'{top}:frozen:{kind}'] += 1
                    case = case_json(spec, 'frozen', x, 0)
                    if reconf_from is not None:
                        case['reconf_from'] = T.tojson(reconf_from)
                    plain = unfreeze(fx)
                    if kind == 'exc':
                        part.violation(f'C01:frozen:T:{type(r).__name__}:{norm(r)}', case,
                                       f'{T.sstr(spec)} validate of the converted value {fx!r}: unexpected {type(r).__name__}: {r}')
                    elif kind == 'ok':
                        res = R.judge(spec, plain, r, None, 'drv')
                        if res:
                            part.violation(f'C01:frozen:{res[2]}:{res[0]}:{norm(res[1])}', case,
                                           f'{T.sstr(spec)} validate of the converted (frozen) value {fx!r} of x={x!r} -> {r!r}: {res[1]}')
            if entry == 'drv':
                if only_case is not None and (only_case['entry'] != 'conv' or repr(V.dec(only_case['x'])) != repr(x)):
                    continue
                part.evaluations += 1
                kind, r = run.conv(dt, x)
                part.traces += 1
                part.outcomes[f'{top}:conv:{kind}'] += 1
                case = case_json(spec, 'conv', x, 0)
                if reconf_from is not None:
                    case['reconf_from'] = T.tojson(reconf_from)
                if kind == 'exc':
                    part.violation(f'C01:conv:T:{type(r).__name__}:{norm(r)}', case,
                                   f'{T.sstr(spec)} conversion of x={x!r}: unexpected {type(r).__name__}: {r}')
                elif kind == 'ok':
                    res = R.judge(spec, x, r, None, 'drv', validate=False)
                    if res:
                        part.violation(f'C01:conv:{res[2]}:{res[0]}:{norm(res[1])}', case,
                                       f'{T.sstr(spec)} conversion of x={x!r} -> {r!r}: {res[1]}')


def shard_fn(shard):
    specs, k = shard
    part = core.Part()
    for spec in specs:
        # quick: two bad positions in types up to depth 2, one in depth-3 types; thorough: two everywhere
        check_type(spec, part, k if (T.depth(spec) <= 2 or core.TIER == 'thorough') else 1)
    return part


def reconf_fn(shard):
    part = core.Part()
    for old, new in shard:
        n0 = len(part.violations)
        check_type(new, part, 2, reconf_from=old)
        part.extra['reconfigured_types'] += 1
    return part


def bounds(tier):
    return dict(k=2, maxdepth=3)


def run(ctx):
    b = bounds(ctx.tier)
    types = T.all_types(ctx.tier, b['maxdepth'])
    shards = [(types[i:i + 4], b['k']) for i in range(0, len(types), 4)]
    ctx.pmap(shard_fn, shards, name='validate')
    # the same questions to datatypes whose limits were changed after construction (configuration overrides)
    pairs = reconf_pairs()
    ctx.pmap(reconf_fn, [pairs[i:i + 4] for i in range(0, len(pairs), 4)], name='reconfigured')
    ctx.rule = ('enumeration: every type of the catalogue (all leaf kinds with boundary limits, containers to depth 3) x every '
                f'candidate = valid value with <= {b["k"]} positions replaced from the bad/boundary catalogue (quick: 1 in depth-3 types) x up to 6 previous '
                'values x entry points {wire: validate(import_value(x), prev); drv: validate(x, prev); conv: dt(x)}. '
                'distinct_nontrivial = distinct (type, entry, candidate) triples carrying at least one bad/boundary position; '
                'states = distinct (type, entry, candidate) triples; transitions = calls into frappy.datatypes')
    ctx.coverage.update(types=len(types), bound_completed='depth<=3; bad positions <=2 (quick: <=1 in depth-3 types)',
                        depth_histogram={d: sum(1 for t in types if T.depth(t) == d) for d in (1, 2, 3)})
    ctx.assume('values and limits outside the catalogues are not covered',
               'generalConfig.lazy_number_validation is False (the default)',
               'refusing a candidate with RangeError/WrongTypeError is always allowed here (completeness is C02)')


def replay(case):
    part = core.Part()
    spec = T.fromjson(case['spec'])
    check_type(spec, part, 2, only_case=case, reconf_from=T.fromjson(case['reconf_from']) if case.get('reconf_from') else None)
    return part
