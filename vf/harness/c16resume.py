"""C16 "polling resumes" part - after EVERY successful reconnect the reconnect callbacks run once and the polls of the
modules using the communicator are re-triggered.

schedx, virtual time: a real node started for real (Server._processCfg, real poll threads): a StringIO communicator `io`
(pollinterval 3 s) and a Readable `m` using it (HasIO, pollinterval 20 s, its read_value talks to the device).  The scripted
device closes the connection at given times (k = 1..3 closes, every reconnect accepted or the first attempt refused);
default schedule plus all schedules with <= bound preemptions of the threads involved (poll thread of io/m).

Oracle per execution:
  resume      after every successful reconnect (device accepts connection number k >= 2 at time T) the module's value is
              read again within 2 poll intervals of the communicator (the poll that reconnects re-triggers all polls: the
              module's own 20 s interval does not have to elapse first)
  callbacks   a registered reconnect callback (returning True) has run exactly once per successful reconnect
  visible     while the device is gone is_connected is False after the first failing call
"""
from vf import core

IO_INTERVAL = 3.0
MOD_INTERVAL = 20.0
SLOW_INTERVAL = 60.0
SCRIPTS = {
    'one-close': {'closes': [25.0], 'refuse': []},
    'two-closes': {'closes': [25.0, 70.0], 'refuse': []},
    'three-closes': {'closes': [25.0, 70.0, 115.0], 'refuse': []},
    'two-closes-first-attempt-refused': {'closes': [25.0, 70.0], 'refuse': [2, 4]},
}
_cls = {}


def classes():
    if _cls:
        return _cls
    from frappy.core import Readable, Parameter, FloatRange
    from frappy.io import HasIO, StringIO

    class Dev(HasIO, Readable):
        ioClass = StringIO
        value = Parameter('v', FloatRange(), default=0.0)
        log = None

        aux = Parameter('a further polled parameter (slow poll)', FloatRange(), default=0.0)

        def read_value(self):
            from vf.engines import schedx
            LOG.append(('read', schedx.vtime()))
            self.communicate('V')
            return 1.0

        def read_aux(self):
            from vf.engines import schedx
            LOG.append(('read-aux', schedx.vtime()))
            self.communicate('X')
            return 2.0
    _cls['Dev'] = Dev
    return _cls


LOG = []


class Device:
    def __init__(self, world):
        self.world = world
        self.buf = b''

    def on_connect(self, sock):
        from vf.engines.fakesock import Refused
        w = self.world
        w['attempts'] += 1
        if w['attempts'] in w['refuse']:
            LOG.append(('refused', w['sched'].now))
            raise Refused()
        w['nconn'] += 1
        LOG.append(('connected', w['nconn'], w['sched'].now))
        # this connection is closed by the device at the next scripted time
        later = [t for t in w['closes'] if t > w['sched'].now - w['t0']]
        if later:
            sock.peer_close(delay=later[0] - (w['sched'].now - w['t0']))
            LOG.append(('will-close', later[0] + w['t0']))

    def on_close(self, sock):
        pass

    def on_data(self, sock, data):
        self.buf += data
        while b'\n' in self.buf:
            cmd, self.buf = self.buf.split(b'\n', 1)
            sock.deliver(b'R:' + cmd + b'\n')


def execute(case, prefix):
    from vf.engines import schedx, fakesock
    import frappy.io
    from vf import nodes
    fakesock.install()
    frappy.io.HasIO.ioDict.clear()
    del LOG[:]
    script = SCRIPTS[case['name']]
    sched = schedx.Scheduler(list(prefix), max_steps=40000, horizon=170.0, tick=1e-4)   # every clock reading costs 0.1 ms (a poll loop must see time pass)
    net = fakesock.Net()
    fakesock.set_net(net)
    world = {'sched': sched, 'attempts': 0, 'nconn': 0, 'closes': script['closes'], 'refuse': script['refuse'], 't0': 0.0}
    net.listen('dev', 5000, lambda: Device(world))
    out = {'callbacks': 0, 'late': 0}

    def body():
        world['t0'] = sched.now
        sched.begin()
        C = classes()
        node = nodes.Node({'io': {'cls': frappy.io.StringIO, 'uri': 'tcp://dev:5000', 'timeout': {'value': 2.0},
                                  'pollinterval': {'value': IO_INTERVAL}},
                           'm': {'cls': C['Dev'], 'io': 'io', 'pollinterval': {'value': MOD_INTERVAL}, 'slowinterval': SLOW_INTERVAL}}, start=True)
        out['node'] = node
        io = node.secnode.modules['io']

        def late():
            out['late'] += 1
            return True

        def cb():
            out['callbacks'] += 1
            LOG.append(('callback', sched.now))
            if out['callbacks'] == 1:
                # a callback registered while the callbacks of a reconnect are running (from inside a callback, as a
                # module re-initialising itself after the reconnect does) is a registered callback from then on
                io.registerReconnectCallback('late', late)
                out['late_registered_at'] = len([e for e in LOG if e[0] == 'connected'])
            return True
        io.registerReconnectCallback('verif', cb)
        schedx.vsleep(150.0)
        out['is_connected'] = io.is_connected
        out['registered'] = sorted(io._reconnectCallbacks)
        node.secnode.shutdown_modules()
    x = sched.run(body)
    if out.get('node') is not None:
        out['node'].close()
    for s in net.socks:
        s.closed = True
    return x, judge(case, x, out, world), list(LOG)


def judge(case, x, out, world):
    if x.deadlock:
        return [('resume:deadlock', x.deadlock)]
    if x.livelock:
        return [('resume:hang', x.livelock)]
    main = x.threads[0]
    if main.exc is not None:
        return [(f'resume:harness-died:{type(main.exc).__name__}', repr(main.exc))]
    viol = []
    reads = [e[1] for e in LOG if e[0] == 'read']
    conns = [e for e in LOG if e[0] == 'connected']
    for k, (_c, n, t) in enumerate(conns):
        if n < 2:
            continue
        nxt = [r for r in reads if r >= t]
        if not nxt or nxt[0] > t + 2 * IO_INTERVAL + 1e-6:
            viol.append((f'resume:polls-not-retriggered-after-reconnect:reconnect-{min(n - 1, 2)}{"" if n == 2 else "-or-later"}',
                         f'the device accepted connection {n} at {t - world["t0"]:g} s; the next read of m came at '
                         f'{(nxt[0] - world["t0"]) if nxt else None} s (module poll interval {MOD_INTERVAL:g} s, communicator {IO_INTERVAL:g} s); '
                         f'registered callbacks at the end {out.get("registered")}'))
    # the other polled parameters are re-read as well (not only at their next regular slow-poll slot, up to slowinterval later)
    aux = [e[1] for e in LOG if e[0] == 'read-aux']
    for k, (_c, n, t) in enumerate(conns):
        if n < 2:
            continue
        nxt = [r for r in aux if r >= t]
        before = [r for r in aux if r < t]
        if before and t - before[-1] <= 0.5 * SLOW_INTERVAL + 1.0:
            continue        # read (or tried) less than half a slow interval ago: the poll loop treats it as fresh, by design
        if not nxt or nxt[0] > t + 2 * IO_INTERVAL + 1e-6:
            viol.append(('resume:slow-polls-not-retriggered-after-reconnect',
                         f'the device accepted connection {n} at {t - world["t0"]:g} s; the next read of m.aux came at '
                         f'{(nxt[0] - world["t0"]) if nxt else None} s (slow interval {SLOW_INTERVAL:g} s)'))
    nrec = len([c for c in conns if c[1] >= 2])
    if out['callbacks'] != nrec:
        viol.append(('resume:reconnect-callback-count', f'{nrec} successful reconnects, callback ran {out["callbacks"]} times'))
    if out.get('late_registered_at'):
        # registered during reconnect number k (connection k+1): it may or may not run for that one, and runs once for every later one
        later = len([c for c in conns if c[1] > out['late_registered_at']])
        if not later <= out['late'] <= later + 1:
            viol.append(('resume:callback-registered-during-a-reconnect-lost' if out['late'] < later else 'resume:callback-registered-during-a-reconnect-runs-too-often',
                         f'registered while connection {out["late_registered_at"]} was being announced; {later} later reconnects, it ran {out["late"]} times; '
                         f'registered at the end: {out.get("registered")}'))
    return viol


def cases(tier):
    return [{'kind': 'resume', 'name': n, 'bound': 1 if tier == 'quick' else 2} for n in SCRIPTS]


def resume_fn(case):
    from vf.engines import schedx
    schedx.untrace_all()
    part = core.Part()
    x1, v1, l1 = execute(case, [])
    x2, v2, l2 = execute(case, [])
    if x1.trace != x2.trace or l1 != l2:
        raise core.Inconclusive(f'C16 resume case {case["name"]}: the default schedule is not deterministic')

    def ex(pfx):
        x, viol, log = execute(case, pfx)
        part.evaluations += 1
        part.traces += 1
        part.transitions += x.steps
        part.fps |= x.fingerprints
        part.outcomes[str([(e[0], round(e[-1] - log[0][-1], 1)) for e in log if e[0] in ('connected', 'refused')])] += 1
        if x.preemptions or case['name'] != 'one-close':
            part.nontrivial += 1
        for sig, detail in viol:
            part.violation(f'C16:{sig}', dict(case, prefix=list(x.choices)), f'case {case["name"]} schedule {x.choices}: {detail}')
        return x
    if case['bound']:
        schedx.explore(ex, case['bound'], 0, free_bound=1)
    else:
        ex([])
    part.sample({'case': case['name'], 'events': [(e[0], round(e[-1] - l1[0][-1], 2)) for e in l1][:40]})
    return part


def run_resume(ctx):
    cs = cases(ctx.tier)
    ctx.pmap(resume_fn, cs, name='polling_resumes')
    ctx.coverage.update(resume_cases={c['name']: c['bound'] for c in cs})


def replay_resume(case):
    part = core.Part()
    x, viol, log = execute(case, case['prefix'])
    for sig, detail in viol:
        part.violation(f'C16:{sig}', case, detail)
    part.notes.append(repr(log[:60]))
    part.evaluations = 1
    return part
