"""C16 - communicator: atomic request/reply pairing, stale data discarded, self-healing.

schedx + fault choices: the real StringIO / BytesIO module (IOBase reconnect logic, locks, flush) on the real AsynTcp
(readline / readbytes framing, flush_recv) over an in-memory socket whose other end is a scripted device answering
f(cmd) = 'R:' + cmd, so that pairing is decidable.  2-3 caller threads do communicate / multicomm (with delays) /
writeline; the device's behaviour per command is an environment choice (answer now = default / reply later than the
time-out / first part in time, rest late / unsolicited line after the reply / silence / close before answering / close
after answering) and so is the fate of every reconnect attempt (accept / refuse).  All thread schedules with <= bound
preemptions and <= dev deviations, in virtual time.  A sequential sub-check feeds every segmentation of the device's
reply bytes (all 2^(n-1) cut sets for short replies).

Oracle (from the statement):
  pairing     a call that returns, returns f(own command) - never a late, unsolicited or foreign reply
  atomic      the device sees the commands of one multicomm back to back, and each delay elapsed (virtual time) before the
              next command of the transaction
  chunking    the reply is the same for every segmentation of the device's bytes
  fails       under silence / disconnect every call returns or raises a communication error (SilentError /
              CommunicationFailedError) within (number of callers) x (time-out + 2 s) + delays
  visible     after a detected disconnect is_connected is False
  rate        reconnect attempts triggered by callers are >= pollinterval apart
  callbacks   after a successful reconnect every registered reconnect callback ran exactly once per reconnect
Oracle calibration: a caller arriving while the communicator is disconnected may be refused immediately ('disconnected');
the poll thread is not running in this harness, so every connect attempt is caller-triggered.
"""
from vf import core

PROPERTY = 'C16'

ANSWERS = ['now', 'late', 'late-split', 'garbage-after', 'silent', 'close-before', 'close-after', 'late-short', 'trickle']
TIMEOUT = 2.0
POLLINTERVAL = 10.0
BURSTS = [5, 8185, 8190, 8195, 16380, 16390, 24580, 40000]      # bytes of stale input (5-byte lines): around multiples of the receive size

CASES = {
    'two-comm': [[['comm', 'A1']], [['comm', 'B1']]],
    'multi-vs-comm': [[['multi', [['M1', True, 0.5], ['M2', True, 0]]]], [['comm', 'B1']]],
    'write-vs-comm': [[['write', 'W1'], ['comm', 'A2']], [['comm', 'B1']]],
    'faults-seq': [[['comm', 'A1'], ['sleep', 1.0], ['comm', 'A2'], ['sleep', 1.0], ['comm', 'A3']]],
    'faults-two': [[['comm', 'A1'], ['sleep', 1.0], ['comm', 'A2']], [['sleep', 0.5], ['comm', 'B1'], ['sleep', 1.0], ['comm', 'B2']]],
    # the poll thread polls is_connected while callers talk (its connect attempts are not rate limited)
    'poller-vs-comm': [[['sleep', 1.0], ['pollconn', None], ['sleep', 1.0], ['pollconn', None]],
                       [['comm', 'A1'], ['sleep', 1.0], ['comm', 'A2'], ['sleep', 1.0], ['comm', 'A3']]],
    # self-healing, sequential: after a fault a no-reply command (writeline) is the first traffic, then calls until well
    # after the reconnect interval: the last one must succeed again when the device is reachable
    'heal-seq': [[['comm', 'A1'], ['sleep', 1.0], ['write', 'W1'], ['sleep', 1.0], ['comm', 'A2'], ['sleep', 11.0], ['comm', 'A3'],
                  ['sleep', 11.0], ['comm', 'A4']]],
    # stale input of every size around the receive buffer of the connection (8192 bytes) behind a reply
    'stale-burst': [[['comm', 'A1'], ['sleep', 0.5], ['comm', 'A2'], ['sleep', 0.5], ['comm', 'A3']]],
    'three': [[['comm', 'A1']], [['multi', [['M1', True, 0.2], ['M2', False, 0], ['M3', True, 0]]]], [['comm', 'C1']]],
}


class Device:
    """scripted device; one instance per connection; f(cmd) = R:cmd"""
    def __init__(self, world):
        self.world = world
        self.buf = b''
        self.hung = False

    def on_connect(self, sock):
        from vf.engines.fakesock import Refused
        w = self.world
        w.attempts.append(w.sched.now)
        if w.nconn > 0 and w.window:
            fate = w.sched.choose(3, 'reconnect:accept/refuse/refuse-slowly')
            if fate:
                if fate == 2:           # the attempt blocks for a while before it fails (connect time-out)
                    from vf.engines import schedx
                    schedx.vsleep(1.0)
                w.events.append(('refused', w.sched.now))
                raise Refused()
        w.nconn += 1
        w.events.append(('connected', w.nconn, w.sched.now))

    def on_close(self, sock):
        pass

    def on_data(self, sock, data):
        w = self.world
        self.buf += data
        while w.eol in self.buf:
            cmd, self.buf = self.buf.split(w.eol, 1)
            self.command(sock, cmd)

    def command(self, sock, cmd):
        w = self.world
        w.events.append(('dev-got', cmd.decode(), w.sched.now))
        if cmd.startswith(b'W') or cmd == b'M2' and w.no_reply_for_m2:
            return          # write-only commands are not answered by this device
        if self.hung:
            w.answers.append((cmd.decode(), 'hung'))
            return          # a device that started to dribble never answers properly again on this connection
        if cmd.decode() in w.scripted:      # the case fixes this command's fate: no deviation spent on it
            answer = w.scripted[cmd.decode()] if w.window else 'now'
        else:
            answer = ANSWERS[w.sched.choose(w.nanswers, f'dev:{cmd.decode()}')] if w.window else 'now'
        w.answers.append((cmd.decode(), answer))
        rep = b'R:' + cmd + w.eol

        def deliver(data, delay=0.0):
            sock.deliver(data, delay)
            w.events.append(('deliver', data.decode(), w.sched.now + delay))
        if answer == 'now':
            deliver(rep)
        elif answer == 'late':
            deliver(rep, delay=TIMEOUT + 0.7)
        elif answer == 'late-short':
            deliver(rep, delay=TIMEOUT + 0.2)       # just after the time-out: inside a wait_before pause of the next command
        elif answer == 'late-split':
            deliver(rep[:2], delay=0.5)
            deliver(rep[2:], delay=TIMEOUT + 0.7)
        elif answer == 'garbage-after':
            deliver(rep)
            deliver(b'R:JUNK' + w.eol)      # unsolicited line right behind the reply: it is there before the next command
        elif answer.startswith('garbage-burst:'):
            # the reply, then n bytes of unsolicited lines right behind it (a device streaming status lines): all of it is
            # there before the next command is sent - however much it is, none of it may be taken for a later reply
            deliver(rep)
            n, k, junk = int(answer.split(':')[1]), 0, b''
            while len(junk) < n:
                junk += b'R:J' + bytes([97 + k % 26]) + w.eol
                k += 1
            deliver(junk)
        elif answer == 'silent':
            pass
        elif answer == 'trickle':
            # an incomplete reply dribbling in with pauses shorter than the time-out, never an end-of-line
            self.hung = True
            for k in range(40):
                deliver(b'R:'[k:k + 1] if k < 2 else b'x', delay=1.5 * k)
        elif answer == 'close-before':
            sock.peer_close()
            w.events.append(('dev-closed', w.sched.now))
        elif answer == 'close-after':
            deliver(rep)
            sock.peer_close(delay=0.1)
            w.events.append(('dev-closed', w.sched.now))


class World:
    def __init__(self, sched, nanswers):
        self.sched, self.nanswers = sched, nanswers
        self.window = False
        self.events = []
        self.answers = []
        self.attempts = []
        self.nconn = 0
        self.eol = b'\n'
        self.no_reply_for_m2 = False
        self.scripted = {}


_var = {}


def var_bytes_io():
    """a byte communicator with replies of variable length, as the BytesIO documentation prescribes: communicate() is
    called with the length of the reply header, getFullReply reads the rest (here: as many bytes as the request had)"""
    if not _var:
        from frappy.io import BytesIO

        class VarBytesIO(BytesIO):
            def getFullReply(self, request, replyheader):
                return replyheader + self.readBytes(len(request))
        _var['cls'] = VarBytesIO
    return _var['cls']


def make_node(kind, wait_before=0, eol=None):
    from vf import nodes
    from frappy.io import StringIO, BytesIO
    cls = StringIO if kind == 'string' else (var_bytes_io() if kind == 'bytesvar' else BytesIO)
    cfg = {'cls': cls, 'uri': 'tcp://dev:5000', 'timeout': {'value': TIMEOUT}, 'pollinterval': {'value': POLLINTERVAL}}
    if wait_before:
        cfg['wait_before'] = {'value': wait_before}
    if eol is not None:
        cfg['end_of_line'] = eol
    node = nodes.Node({'io': cfg})
    return node, node.secnode.modules['io']


def do_op(io, kind, op, sched, eol='\n'):
    """one caller operation; returns (what, own command(s), result | exception name)"""
    name, arg = op
    if name == 'sleep':
        from vf.engines import schedx
        schedx.vsleep(arg)
        return None
    if name == 'pollconn':          # what the poll thread does every pollinterval of the communicator
        try:
            io.read_is_connected()
        except Exception:           # noqa  (callPollFunc swallows SECoP errors)
            pass
        return None
    t0 = sched.now
    try:
        if name == 'comm':
            res = io.communicate(arg) if kind == 'string' else \
                io.communicate(arg.encode() + eol.encode(), 2 if kind == 'bytesvar' else len(arg) + 2 + len(eol))
            res = res if kind == 'string' else res.decode()[:-len(eol)]
        elif name == 'write':
            if kind == 'string':
                io.writeline(arg)
            else:
                io.communicate(arg.encode() + eol.encode(), 0)      # a byte communicator writes without reply this way
            res = None
        elif name == 'multi':
            if kind == 'string':
                res = io.multicomm([tuple(r) for r in arg])
            else:
                res = [r.decode().rstrip('\n') for r in io.multicomm([(r[0].encode() + b'\n', 2 if kind == 'bytesvar' else len(r[0]) + 3, r[2])
                                                                      for r in arg])]
        return (name, arg, 'ok', res, t0, sched.now)
    except Exception as e:      # noqa
        from frappy.errors import CommunicationFailedError
        cls = 'communication-error' if isinstance(e, CommunicationFailedError) else type(e).__name__
        return (name, arg, 'exc', cls, t0, sched.now, f'{type(e).__name__}: {e}'[:120])


def execute(case, prefix):
    from vf.engines import schedx, fakesock
    import frappy.io  # noqa: F401  (must be loaded before the rebinding scan)
    from vf import nodes  # noqa: F401
    fakesock.install()
    kinds = {'acquire', 'tryacquire', 'release', 'recv', 'send', 'connect', 'select', 'spawn', 'join',
             'set', 'clear', 'wait', 'put', 'get', 'poll', 'sleep', 'yield'}
    sched = schedx.Scheduler(prefix, point_kinds=kinds, max_steps=4000, horizon=120.0)
    net = fakesock.Net()
    fakesock.set_net(net)
    world = World(sched, case['nanswers'])
    world.no_reply_for_m2 = case['name'].startswith('three')
    world.scripted = dict(case.get('scripted') or {})
    net.listen('dev', 5000, lambda: Device(world))
    out = {'results': [[] for _ in case['threads']], 'callbacks': 0}

    def body():
        node, io = make_node(case['kind'], case.get('wait_before', 0))
        out['node'], out['io'] = node, io

        def cb():
            out['callbacks'] += 1
            return True
        io.registerReconnectCallback('verif', cb)
        io.read_is_connected()          # what the poll thread does at start-up
        out['connected0'] = io.is_connected
        world.window = True
        sched.begin()

        def caller(i, ops):
            def run():
                for op in ops:
                    r = do_op(io, case['kind'], op, sched)
                    if r is not None:
                        out['results'][i].append(r)
            return run
        ts = [schedx.Thread(target=caller(i, ops), name=f'caller{i}') for i, ops in enumerate(case['threads'])]
        for t in ts:
            t.start()
        for t in ts:
            t.join()
        # snapshot for the rate-limit / callback oracles, then one poll of the connection state (what the poll thread
        # does every pollinterval): the visible state must be consistent afterwards (self-healing)
        out['attempts'] = list(world.attempts)
        out['nconn'] = world.nconn
        out['callbacks_before_poll'] = out['callbacks']
        world.window = False
        try:
            io.read_is_connected()
        except Exception:       # noqa
            pass
        out['is_connected'] = io.is_connected
        out['conn_is_none'] = io._conn is None
    x = sched.run(body)
    viol = judge(case, sched, x, world, out, net)
    if out.get('node') is not None:
        out['node'].close()
    for s in net.socks:
        s.closed = True
    return x, viol, sched, world, out


def judge(case, sched, x, world, out, net):
    if x.deadlock:
        return [('deadlock', x.deadlock)]
    if x.livelock:
        return [('livelock', x.livelock)]
    viol = []
    for t in x.threads:
        if t.exc is not None:
            return [(f'thread-died:{type(t.exc).__name__}', f'{t.name}: {t.exc!r}')]
    if not out.get('connected0'):
        return [('initial-connect-failed', '')]
    ncallers = len(case['threads'])
    total_delay = sum(r[2] for ops in case['threads'] for op in ops if op[0] == 'multi' for r in op[1]) + \
        sum(op[1] for ops in case['threads'] for op in ops if op[0] == 'sleep')
    ncalls = sum(1 if op[0] != 'multi' else len(op[1]) for ops in case['threads'] for op in ops if op[0] not in ('sleep', 'pollconn'))
    if case['kind'] == 'bytesvar':
        ncalls *= 2         # header and tail are two reads, each with the time-out of its own
    limit = ncalls * (TIMEOUT + 2.0) + total_delay + 1e-6
    disturbed = any(a != 'now' for _c, a in world.answers)
    for i, results in enumerate(out['results']):
        for r in results:
            name, arg, status = r[0], r[1], r[2]
            if r[5] - r[4] > limit:
                viol.append(('call-exceeds-timeout', f'caller {i} {name} {arg} took {r[5] - r[4]:g} s (limit {limit:g})'))
            if status == 'ok':
                pairs = []
                if name == 'comm':
                    pairs = [(arg, r[3])]
                elif name == 'multi':
                    pairs = list(zip([q[0] for q in arg if q[1]], r[3]))
                    if len(r[3]) != len([q for q in arg if q[1]]):
                        viol.append(('multicomm-reply-count', f'caller {i} multicomm({arg}) returned {r[3]}'))
                for cmd, rep in pairs:
                    if rep == 'R:' + cmd:
                        continue
                    why = stale_class(world, cmd, rep)
                    if why.endswith('(not judged)'):
                        continue
                    viol.append((why, f'caller {i} {name}: command {cmd!r} got {rep!r}; device answers {world.answers}; '
                                      f'events {[e for e in world.events if e[0] in ("deliver", "dev-got")]}'))
            else:
                if r[3] != 'communication-error':
                    viol.append((f'call-raised-{r[3]}', f'caller {i} {name} {arg} raised {r[3]}: {r[6]}'))
                elif not disturbed and world.nconn == 1:
                    viol.append(('call-failed-without-fault', f'caller {i} {name} {arg} raised {r[3]} ({r[6]}) although the device answered everything'))
    # self-healing: a call issued more than a reconnect interval after the last fault, with every reconnect attempt accepted
    # and its own command answered at once, succeeds
    if case['name'].startswith('heal-seq'):
        refused = any(e[0] == 'refused' for e in world.events)
        for i, results in enumerate(out['results']):
            comms = [r for r in results if r[0] == 'comm']
            if comms and not refused:
                last = comms[-1]
                own = [a for c, a in world.answers if c == last[1]]
                earlier_faults = [a for c, a in world.answers if c != last[1] and a != 'now']
                prev = comms[-2] if len(comms) > 1 else None
                prev_own = [a for c, a in world.answers if prev and c == prev[1]]
                # the last two calls are 11 s apart: whatever went wrong before, the one before last has triggered (or found) a
                # working connection or the last one does
                if last[2] != 'ok' and (not own or own == ['now']) and (not prev_own or prev_own == ['now']) and \
                        not any(a == 'trickle' for _c, a in world.answers):
                    viol.append(('not-healed-after-the-reconnect-interval',
                                 f'caller {i}: {last[1]} failed with {last[3]} ({last[6] if len(last) > 6 else ""}) {last[4] - comms[0][4]:g} s after the start '
                                 f'although the device accepts connections and answers; device answers {world.answers}; '
                                 f'connections {world.nconn}, attempts {[round(a - world.attempts[0], 1) for a in world.attempts]}'))
    # atomicity and delays of multicomm, from the device's receive log
    got = [(e[1], e[2]) for e in world.events if e[0] == 'dev-got']
    for ops in case['threads']:
        for op in ops:
            if op[0] != 'multi':
                continue
            cmds = [q[0] for q in op[1]]
            names = [c for c, _t in got]
            pos = [names.index(c) for c in cmds if c in names]
            if pos:
                inside = names[min(pos):max(pos) + 1]
                foreign = [c for c in inside if c not in cmds]
                if foreign:
                    viol.append(('multicomm-interleaved', f'device saw {names}: {foreign} inside the transaction {cmds}'))
            for j in range(1, len(cmds)):
                if cmds[j] in names and cmds[j - 1] in names and op[1][j - 1][2]:
                    dt = got[names.index(cmds[j])][1] - got[names.index(cmds[j - 1])][1]
                    if dt + 1e-9 < op[1][j - 1][2]:
                        viol.append(('multicomm-delay-not-respected', f'{cmds[j]} sent {dt:g} s after {cmds[j - 1]}, delay {op[1][j - 1][2]}'))
    # visibility
    closed = [e for e in world.events if e[0] == 'dev-closed']
    if closed and world.nconn == 1 and any(r[2] == 'exc' for rs in out['results'] for r in rs) and out.get('is_connected') \
            and not out.get('conn_is_none'):
        pass    # a close not yet noticed by any call (e.g. close-after on the last command) is legitimately invisible
    if out.get('conn_is_none') and out.get('is_connected'):
        viol.append(('is_connected-true-without-connection-after-a-poll', 'after a further poll of is_connected it is True but the connection object is gone: no reconnect will ever be tried'))
    # reconnect rate limit: every attempt after the first is caller-triggered
    att = out.get('attempts', world.attempts)[1:]
    prev = None
    if any(op[0] == 'pollconn' for ops in case['threads'] for op in ops):
        att = []        # the poll thread's own attempts come every pollinterval of the communicator by construction
    for t in att:
        if prev is not None and t - prev < POLLINTERVAL - 1e-9:
            viol.append(('reconnect-attempts-closer-than-pollinterval', f'connect attempts at {[round(a - world.attempts[0], 2) for a in world.attempts]} (pollinterval {POLLINTERVAL})'))
            break
        prev = t
    # reconnect callbacks: exactly once per successful reconnect
    reconnects = out.get('nconn', world.nconn) - 1
    ncb = out.get('callbacks_before_poll', out['callbacks'])
    if ncb != reconnects:
        viol.append(('reconnect-callbacks-not-run-once' if ncb < reconnects else 'reconnect-callbacks-run-too-often',
                     f'{reconnects} successful reconnect(s) but the callback ran {ncb} time(s); events {world.events[-6:]}'))
    return viol


def stale_class(world, cmd, rep):
    """a wrong reply is a violation of the statement when its bytes had arrived before the command was sent (they must
    have been flushed); bytes arriving after the send can not be told from the real reply by any communicator"""
    if rep and ('R:' + cmd in rep or rep in 'R:' + cmd):
        return 'reply-mis-framed'       # the right bytes, cut at the wrong place
    sent = next((k for k, e in enumerate(world.events) if e[0] == 'dev-got' and e[1] == cmd), None)
    t_sent = world.events[sent][2] if sent is not None else None
    # the device's output as one byte stream, every byte with its arrival time and the index of its delivery event
    stream, meta = '', []
    for k, e in sorted(((k, e) for k, e in enumerate(world.events) if e[0] == 'deliver'), key=lambda ke: ke[1][2]):
        stream += e[1]
        meta += [(e[2], k)] * len(e[1])
    pos = stream.find(rep) if rep else -1
    if pos < 0:
        return 'reply-invented'
    ready, k = meta[pos]
    if sent is not None and k < sent and ready <= t_sent:
        return 'stale-data-returned-as-reply'     # its first byte was there before the command was sent
    return 'wrong-reply:arrived-after-send(not judged)'


def cases(tier):
    quick = tier == 'quick'
    res = []
    for kind in (('string', 'bytes') if quick else ('string', 'bytes', 'bytesvar')):
        for n in BURSTS:
            res.append({'name': f'stale-burst-{n}/{kind}', 'kind': kind, 'threads': CASES['stale-burst'], 'bound': 0, 'dev': 1, 'total': None,
                        'nanswers': len(ANSWERS), 'scripted': {'A1': f'garbage-burst:{n}'}})
    for name, threads in CASES.items():
        if quick and name == 'three' or name == 'stale-burst':
            continue
        seq = name in ('faults-seq', 'heal-seq')
        res.append({'name': f'{name}/string', 'kind': 'string', 'threads': threads,
                    'bound': 0 if seq else 2, 'dev': 3 if seq else 2,
                    'total': None if seq else (3 if quick else 4), 'nanswers': len(ANSWERS)})
    res.append({'name': 'wait-before/string', 'kind': 'string', 'wait_before': 0.5,
                'threads': [[['comm', 'A1'], ['comm', 'A2'], ['comm', 'A3']]], 'bound': 0, 'dev': 2, 'total': None, 'nanswers': len(ANSWERS)})
    res.append({'name': 'wait-before-two/string', 'kind': 'string', 'wait_before': 0.5,
                'threads': [[['comm', 'A1'], ['comm', 'A2']], [['comm', 'B1']]], 'bound': 1, 'dev': 1, 'total': 2, 'nanswers': len(ANSWERS)})
    for name in (['two-comm', 'multi-vs-comm', 'heal-seq'] if quick else ['two-comm', 'multi-vs-comm', 'faults-seq', 'faults-two', 'heal-seq']):
        seq = name in ('faults-seq', 'heal-seq')
        res.append({'name': f'{name}/bytes', 'kind': 'bytes', 'threads': CASES[name],
                    'bound': 0 if seq else 2, 'dev': 3 if seq else (1 if quick else 2), 'total': None if seq else (2 if quick else 3),
                    'nanswers': len(ANSWERS)})
    # variable-length replies (header + tail read by getFullReply)
    for name in (['two-comm'] if quick else ['two-comm', 'multi-vs-comm', 'faults-two']):
        res.append({'name': f'{name}/bytesvar', 'kind': 'bytesvar', 'threads': CASES[name],
                    'bound': 2, 'dev': 1 if quick else 2, 'total': 2 if quick else 3, 'nanswers': len(ANSWERS)})
    return res


def root_fn(case):
    from vf.engines import schedx
    schedx.untrace_all()
    x1, _v, s1, w1, o1 = execute(case, [])
    x2, _v, s2, w2, o2 = execute(case, [])
    if x1.trace != x2.trace or w1.events != w2.events:
        raise core.Inconclusive(f'case {case["name"]}: the default schedule is not deterministic')
    part = core.Part()
    part.data.append([case['name'], schedx.first_level(x1, case['bound'], case['dev'])])
    part.extra['points_in_default_schedule'] += len(x1.points)
    return part


def sub_fn(shard):
    from vf.engines import schedx
    case, prefix = shard
    part = core.Part()

    def ex(pfx):
        x, viol, sched, world, out = execute(case, pfx)
        part.evaluations += 1
        part.traces += 1
        part.transitions += x.steps
        part.fps |= x.fingerprints
        summary = tuple((r[0], str(r[1]), r[2], str(r[3])) for rs in out['results'] for r in rs)
        part.outcomes[hash(summary)] += 1
        if x.deviations or x.preemptions:
            part.nontrivial += 1
        for sig, detail in viol:
            part.violation(f'C16:{case["kind"]}:{sig}', dict(case, prefix=list(x.choices)), f'case {case["name"]} choices {x.choices}: {detail}')
        if part.evaluations % 499 == 1:
            part.sample({'case': case['name'], 'choices': list(x.choices), 'device': world.answers,
                         'results': [[r[0], str(r[1]), r[2], str(r[3])] for rs in out['results'] for r in rs]})
        return x
    if prefix is None:
        ex([])
    else:
        schedx.explore(ex, case['bound'], case['dev'], prefix=prefix, total_bound=case.get('total'))
    part.extra['schedules'] += part.evaluations
    return part


# ---- chunking: every segmentation of the device's reply (sequential, no schedule exploration)

def chunk_fn(shard):
    from vf.engines import schedx, fakesock
    kind, cmd, lo, hi = shard[:4]
    eol = shard[4] if len(shard) > 4 else '\n'
    import frappy.io  # noqa: F401
    from vf import nodes  # noqa: F401
    fakesock.install()
    part = core.Part()
    reply = b'R:' + cmd.encode() + eol.encode()
    n = len(reply)
    for mask in range(lo, hi):
        cuts = [i + 1 for i in range(n - 1) if mask >> i & 1]
        pieces = [reply[a:b] for a, b in zip([0] + cuts, cuts + [n])]
        sched = schedx.Scheduler([], max_steps=3000, horizon=60.0)
        net = fakesock.Net()
        fakesock.set_net(net)
        res = {}

        class Dev:
            buf = b''

            def on_connect(self, sock):
                pass

            def on_data(self, sock, data):
                self.buf += data
                while eol.encode() in self.buf:
                    _c, self.buf = self.buf.split(eol.encode(), 1)
                    for k, piece in enumerate(pieces):
                        sock.deliver(piece, delay=0.01 * k)     # every piece is a separate recv
        net.listen('dev', 5000, Dev)

        def body():
            node, io = make_node(kind, eol=eol if kind == 'string' and eol != '\n' else None)
            res['node'] = node
            io.read_is_connected()
            sched.begin()
            r = do_op(io, kind, ['comm', cmd], sched, eol)
            res['r'] = r
        x = sched.run(body)
        part.evaluations += 1
        part.traces += 1
        part.transitions += x.steps
        part.states += 1
        if cuts:
            part.nontrivial += 1
        r = res.get('r')
        ok = r is not None and r[2] == 'ok' and r[3] == 'R:' + cmd
        part.outcomes['ok' if ok else 'bad'] += 1
        if not ok:
            part.violation(f'C16:{kind}:reply-depends-on-chunking', {'chunk': [kind, cmd, mask, mask + 1, eol]},
                           f'{kind} communicate({cmd!r}) with the reply delivered as {pieces} gave {r}')
        if mask % 97 == 0:
            part.sample({'kind': kind, 'cmd': cmd, 'pieces': [p.decode() for p in pieces], 'result': str(r[3]) if r else None})
        if res.get('node'):
            res['node'].close()
    return part


def run(ctx):
    cs = cases(ctx.tier)
    roots = ctx.pmap(root_fn, cs, name='determinism')
    byname = {c['name']: c for c in cs}
    shards = []
    for name, prefixes in roots.data:
        shards.append((byname[name], None))
        shards += [(byname[name], p) for p in prefixes]
    ctx.total.data.clear()
    ctx.pmap(sub_fn, shards, name='schedules')
    cmd = 'ABCDE' if ctx.tier == 'quick' else 'ABCDEFGH'
    nmask = 1 << (len(cmd) + 2)
    step = max(nmask // 32, 1)
    shards = [(k, cmd, lo, min(lo + step, nmask), '\n') for k in ('string', 'bytes', 'bytesvar') for lo in range(0, nmask, step)]
    for eol in ('\r\n', ';;;'):       # multi-byte end-of-line markers: a chunk boundary may fall inside the marker
        nm = 1 << (len(cmd) + 1 + len(eol))
        st = max(nm // 32, 1)
        shards += [(k, cmd, lo, min(lo + st, nm), eol) for k in ('string', 'bytes') for lo in range(0, nm, st)]
    ctx.pmap(chunk_fn, shards, name='chunking')
    from vf.harness import c16resume
    c16resume.run_resume(ctx)
    ctx.rule = ('schedules: for every case (caller operations x communicator kind) all executions with <= bound preemptions and <= dev '
                'environment deviations (device answers: now / late / late-split / garbage after / silent / close before / close after; '
                'reconnect accept / refuse); chunking: all 2^(n-1) segmentations of the reply bytes; evaluations = complete executions '
                'judged; distinct_nontrivial = executions with a preemption, a deviation or a cut')
    ctx.coverage.update(cases={c['name']: {'preemptions': c['bound'], 'deviations': c['dev'], 'total': c['total']} for c in cs},
                        chunking=f'reply of {len(cmd) + 3} bytes, {nmask} segmentations per communicator kind')
    ctx.assume('CPython; granularity = lock / socket operations; virtual time, computation instantaneous; the poll thread is not running '
               '(every reconnect attempt is caller-triggered); kernel TCP not modelled')


def replay(case):
    part = core.Part()
    if 'chunk' in case:
        return chunk_fn(tuple(case['chunk']))
    if case.get('kind') == 'resume':
        from vf.harness import c16resume
        return c16resume.replay_resume(case)
    x, viol, sched, world, out = execute(case, case['prefix'])
    for sig, detail in viol:
        part.violation(f'C16:{case["kind"]}:{sig}', case, detail)
    part.notes.append(repr({'device': world.answers, 'events': world.events, 'results': out['results']}))
    part.evaluations = 1
    return part
