"""C12 - client cache and callbacks mirror the node (sequential part: the receive logic against message histories).

enumx: explicit enumeration (BFS by length) of message histories fed to the REAL receive loop of `SecopClient`
(`_SecopClient__rxthread`, run in the exploring thread) x callback registration patterns.

What is real: `SecopClient` / `ProxyClient` (construction, `_init_descriptive_data`, the body of `__rxthread`,
`updateValue`, `callback`, `register_callback`, `unregister_callback`, `disconnect`), `decode_msg`, the datatypes'
`import_value`, `errors.make_secop_error`.  The description is the `describe` answer of a generated in-process node
(`vf.nodes.Node`), sent through JSON as on the wire.
What is replaced: `client.io` (a scripted object: `readline()` returns the history's lines - None = 1 s without data - and
then raises `ConnectionClosed`, so that the real loop body returns through its own `finally`), the name `time` inside
`frappy.client` (virtual clock: +1 s per `readline()`), the logger (recording).  No thread is started: `_shutdown` is
set, so the `finally` of the loop does not spawn the reconnect thread.  Callback (un)registrations scheduled "between
messages" are executed by the scripted `readline()`, i.e. exactly at message boundaries of the receive loop.

Sub-checks
  histories  focus description (Writable m: value/target double, status, pollinterval, custom string `_s`, command;
             Readable n) x all histories of length <= 3 (4 thorough) over the message alphabet (update / error_update /
             reply / changed / error_read / error_change for known parameters, the same for unknown modules and
             parameters, module-only identifiers, `.`, malformed JSON / arity / types, timestamps past / future /
             missing, other module, custom parameter, unrelated replies, silence) x 7 callback bundles (one with callers
             waiting for the replies) that together realise every pattern (level in {node, module, parameter, other
             module, other parameter}) x (updateItem, updateEvent) x {registered before; registered after k messages;
             unregistered after k messages; raising an exception; raising UnregisterCallback at its 1st / 2nd call;
             UnregisterCallback at registration}, and the grouped registrations: several callbacks handed to ONE
             register_callback call (keyword form / positional form) x key level {None, module, (module, parameter)} x
             boundary 0, 1 (thorough: 0..depth-1; cache for the key empty / populated) x shape {a one-shot (at its 1st / 2nd call), a
             raising or a nodeStateChange one-shot member in every position among recording neighbours; two one-shots;
             one of several / all in one call unregistered at the next boundary}: a member never affects its neighbours
  interact   callbacks whose body calls unregister_callback / register_callback for another callback (same list, own entry,
             other key) while the round of a message is under way, combined with one-shots and with one function registered
             twice (10 scenarios, each on all six (callback name, key level) lists) x all histories of length <= 3 over 6
             messages; reference = plain lists with in-place semantics: a round runs over a snapshot, unregister removes one
             occurrence, a one-shot leaves when it says so, register calls back with the cached state and appends
  proxy      a real ProxyModule (frappy.proxy.proxy_class of the focus module class) whose SecopClient is fed by the scripted
             stream x all histories of length <= 3 over 12 messages with non-monotonic timestamps (older than the previous,
             equal, missing = stamped locally, future; values / error states alternating): after every message the proxy
             parameter's value / readerror equal the last message's, its timestamp is that of the message that brought the
             present state (an unchanged value may keep the timestamp it first came with: omit_unchanged_within)
  reconnect  <= 1 (thorough 2) messages, then the connection is lost (the scripted readline raises ConnectionClosed, the real
             loop ends through its finally) and the client is connected again to a node whose description is {the same;
             only node properties changed; a module added; a module removed; a parameter added; a parameter removed; a
             datatype changed} - the harness does what SecopClient.connect() does with the `describe` answer: the real
             _init_descriptive_data - then <= 2 messages from {update for old / added / removed modules and parameters,
             error_update, module-only changed, reply}.  Oracle: cache and callbacks mirror the NEW node (same reference as
             above with the identifier / type tables of the new description; cached entries survive until replaced);
             descriptiveDataChange of node scope called exactly once iff anything changed, of an old module exactly once
             iff its description changed
  datatypes  generated nodes with one parameter per catalogue type (vf.catalog.types) x all valid wire values of the
             type (vf.catalog.values) x message kinds x timestamps, and all pairs over the first values (depth 2)

Oracle (reference written from the statement, not from the client code; `Ref`):
  * effect of a message: only update, error_update, reply, changed, error_read carry a parameter state; the identifier
    `mod:acc` names the accessible with that wire name (custom accessibles `_x` are known to the client as `x`); a
    module-only identifier means `mod:value` (`mod:target` for changed); unknown identifiers, `.`, malformed and
    unimportable messages and every other action have no effect;
  * cache entry after the history == effect of the last message for that parameter: value == reference import of the wire
    value for the catalogue's own type spec, timestamp == min(now, t) (now when t is missing), readerror == None; or value
    None and the error rebuilt from [name, text]: a SECoPError whose `name` is the SECoP name and whose text is `text`;
    no cache entries for anything else;
  * every registered callback got exactly one call per effective message matching its level, in arrival order, with
    those values (updateItem: the cache item; updateEvent: value, timestamp, readerror); nothing after it was
    unregistered or raised UnregisterCallback; a callback raising an exception keeps being called and does not disturb
    others; registration calls back immediately with the cached state of its scope.

Oracle calibration
  * the order of the immediate calls at registration (several cached parameters) is not specified: compared as a set.
  * calls made within the same registration after the callback raised UnregisterCallback are tolerated (the statement
    only speaks about messages); what is demanded: never called for a later message.
  * unknown SECoP error name: only "a SECoPError carrying the text" is demanded (the class to use is not specified).
    A text of the form `ClassName: text` may be rebuilt into that frappy class (make_secop_error's documented behaviour):
    demanded is only that the text after the prefix is preserved.
  * an update whose value cannot be imported, or whose qualifier is not a number, counts as malformed (ignored); that it
    is reported through handleError is not demanded.
  * error_change is not in the statement's list: it must leave the cache alone (read error != change error).
"""
import base64
import contextlib
import itertools
import json
import math
import threading

from vf import core, nodes
from vf.catalog import types as T, values as V

import frappy.client
from frappy.client import SecopClient, UnregisterCallback
from frappy.errors import SECoPError
from frappy.lib.asynconn import ConnectionClosed

PROPERTY = 'C12'
NOW0 = 1000.0
PAST = 990.5
FUTURE = 5000.25


# ---------------------------------------------------------------------------------------------
# seams

class VClock:
    """stands in for the name `time` inside frappy.client"""
    def __init__(self):
        self.now = NOW0

    def time(self):
        return self.now

    def __repr__(self):
        return f'VClock({self.now})'


@contextlib.contextmanager
def virtual_clock():
    clock = VClock()
    saved = frappy.client.time
    frappy.client.time = clock
    try:
        yield clock
    finally:
        frappy.client.time = saved


class RecLog:
    def __init__(self):
        self.records = []

    def _rec(self, level):
        def log(fmt, *args, **kwds):
            self.records.append((level, fmt, args))
        return log

    def __getattr__(self, name):
        if name in ('debug', 'info', 'warning', 'error', 'exception', 'critical'):
            return self._rec(name)
        raise AttributeError(name)


class ConnectionLoss:
    """an entry of the script at which the connection breaks (readline raises ConnectionClosed); the harness then plays
    the part of SecopClient.connect(): it hands the description the node gives now to the real _init_descriptive_data
    and lets the receive loop run on"""
    def __init__(self, variant):
        self.variant = variant


class ScriptIO:
    """client.io: delivers the scripted lines; `ops[k]` are run at the boundary before line k (ops[len] after the last)"""
    def __init__(self, lines, ops, clock):
        self.lines = lines
        self.ops = ops
        self.clock = clock
        self.pos = 0            # number of lines handed out
        self.in_op = False
        self.closed = 0
        self.lost = None

    def readline(self, timeout=None):
        self.in_op = True
        try:
            for op in self.ops.get(self.pos, ()):
                op()
        finally:
            self.in_op = False
        if self.pos >= len(self.lines):
            raise ConnectionClosed()
        line = self.lines[self.pos]
        self.pos += 1
        self.clock.now += 1.0
        if isinstance(line, ConnectionLoss):
            self.lost = line
            raise ConnectionClosed()
        return line

    def shutdown(self):
        pass

    def disconnect(self):
        self.closed += 1


def wire_description(node):
    return json.loads(json.dumps(node.describe()))


def make_client(desc, log=None):
    """a SecopClient that has its descriptive data but no connection and no threads"""
    client = SecopClient('verif://scripted', log or RecLog())
    client._init_descriptive_data(desc)
    return client


def run_receive_loop(client, io, on_loss=None):
    """the real body of SecopClient.__rxthread, in this thread, until the scripted connection closes; at a ConnectionLoss
    entry the loop ends through its own ConnectionClosed path, on_loss(entry) reconnects, and the loop is entered again"""
    while True:
        io.lost = None
        client.io = io
        client._running = True
        client._shutdown.set()       # the loop's finally must not spawn the reconnect thread
        client._SecopClient__rxthread()
        if io.lost is None or on_loss is None:
            break
        on_loss(io.lost)
    if io.pos != len(io.lines):
        raise core.Inconclusive(f'receive loop ended after {io.pos} of {len(io.lines)} lines')


# ---------------------------------------------------------------------------------------------
# reference

STD_ERRORS = ('ProtocolError', 'NoSuchModule', 'NoSuchParameter', 'NoSuchCommand', 'ReadOnly', 'WrongType', 'RangeError',
              'BadJSON', 'NotImplemented', 'HardwareError', 'CommandFailed', 'CommandRunning', 'CommunicationFailed',
              'TimeoutError', 'IsBusy', 'IsError', 'Disabled', 'Impossible', 'ReadFailed', 'OutOfRange', 'InternalError')
PREDEFINED = ('value', 'status', 'target', 'pollinterval', 'ramp', 'setpoint', 'time_to_target', 'unit', 'loglevel',
              'mode', 'ctrlpars', 'stop', 'reset', 'go', 'abort', 'shutdown', 'communicate', 'controlled_by', 'control_active',
              'prepare', 'hold', 'finish')


def ref_import(spec, w):
    """the value a wire (JSON) value of type `spec` denotes"""
    k = spec[0]
    if k == 'double':
        return float(w)
    if k == 'int':
        return int(w)
    if k == 'scaled':
        return w * spec[1]
    if k == 'bool':
        return bool(w)
    if k == 'enum':
        return int(w)
    if k == 'string':
        return w
    if k == 'blob':
        return base64.b64decode(w)
    if k == 'array':
        return [ref_import(spec[1], x) for x in w]
    if k == 'tuple':
        return [ref_import(m, x) for m, x in zip(spec[1], w)]
    if k == 'struct':
        members = dict(spec[1])
        return {n: ref_import(members[n], x) for n, x in w.items()}
    raise ValueError(spec)


def wire_clean(spec, w):
    """is w a plain wire value of the type (enum by number, bool as JSON boolean, ints as ints)?"""
    k = spec[0]
    if k == 'enum':
        return isinstance(w, int) and not isinstance(w, bool)
    if k == 'bool':
        return isinstance(w, bool)
    if k in ('int', 'scaled'):
        return isinstance(w, int) and not isinstance(w, bool)
    if k == 'double':
        return isinstance(w, (int, float)) and not isinstance(w, bool)
    if k == 'array':
        return all(wire_clean(spec[1], x) for x in w)
    if k == 'tuple':
        return all(wire_clean(m, x) for m, x in zip(spec[1], w))
    if k == 'struct':
        members = dict(spec[1])
        return all(wire_clean(members[n], x) for n, x in w.items())
    return True


def veq(ref, got):
    """does the client's value denote the reference value?"""
    if ref is None or got is None:
        return ref is None and got is None
    if isinstance(ref, list):
        try:
            return len(got) == len(ref) and not isinstance(got, (str, bytes, dict)) and all(veq(r, g) for r, g in zip(ref, got))
        except TypeError:
            return False
    if isinstance(ref, dict):
        try:
            return set(got) == set(ref) and all(veq(ref[k], got[k]) for k in ref)
        except TypeError:
            return False
    if isinstance(ref, bool):
        return isinstance(got, (bool, int)) and bool(got) == ref and got in (0, 1)
    if isinstance(ref, float):
        try:
            return got == ref or math.isclose(float(got), ref, rel_tol=1e-12, abs_tol=0.0)
        except (TypeError, ValueError):
            return False
    if isinstance(ref, int):
        try:
            return not isinstance(got, (str, bytes, float)) and int(got) == ref
        except (TypeError, ValueError):
            return False
    return type(got) is type(ref) and got == ref


def erreq(ref, got):
    """ref = (name, text) of the error report; got = the client's readerror"""
    if ref is None or got is None:
        return ref is None and got is None
    name, text = ref
    if not isinstance(got, SECoPError):
        return False
    prefix, sep, rest = text.partition(': ')
    if sep and prefix.isidentifier():
        return rest in str(got)
    if name in STD_ERRORS and got.name != name:
        return False
    return got.args == (text,) and str(got) == text


def internal_name(wire):
    if wire.startswith('_') and wire[1:] not in PREDEFINED:
        return wire[1:]
    return wire


class Ref:
    """reference client state for a node given by {module: {wire accessible name: type spec or None (command)}}"""
    KINDS = ('update', 'error_update', 'reply', 'changed', 'error_read')

    def __init__(self, modules):
        self.cache = {}     # key -> (value, timestamp, err)
        self.redescribe(modules)

    def redescribe(self, modules):
        """the node is described anew (reconnect): identifiers and types are those of the new description, what is cached
        stays until a message replaces it"""
        self.idents = {}
        self.specs = {}
        for mod, accs in modules.items():
            for wire, spec in accs.items():
                if spec is not None:
                    self.idents[f'{mod}:{wire}'] = (mod, internal_name(wire))
                    self.specs[mod, internal_name(wire)] = spec

    def effect(self, msg, now):
        """-> None or (module, param, value, timestamp, err)"""
        if msg.get('malformed') or msg.get('reconnect') or msg['action'] not in self.KINDS:
            return None
        ident = msg['ident']
        key = self.idents.get(ident)
        if key is None and ident is not None and ':' not in ident and ident != '.':
            key = self.idents.get(ident + (':target' if msg['action'] == 'changed' else ':value'))
        if key is None:
            return None
        t = msg.get('t')
        ts = now if t is None else min(now, t)
        if msg['action'].startswith('error_'):
            return key + (None, ts, (msg['errname'], msg['errtext']))
        return key + (ref_import(self.specs[key], msg['value']), ts, None)

    def apply(self, eff):
        if eff is not None:
            self.cache[eff[0], eff[1]] = eff[2:]


def render(msg):
    """the line of a symbolic message, written from the SECoP framing rule"""
    if msg.get('raw') is not None:
        return msg['raw']
    if msg.get('reconnect'):
        return ConnectionLoss(msg['reconnect'])
    if msg['action'] is None:
        return None      # silence
    t = msg.get('t')
    q = {} if t is None else {'t': t}
    if msg['action'].startswith('error_'):
        data = [msg['errname'], msg['errtext'], q]
    else:
        data = [msg['value'], q]
    return f"{msg['action']} {msg['ident']} {json.dumps(data)}".encode('utf-8')


def M(action, ident, value=None, t=None, err=None, tag=None):
    msg = {'action': action, 'ident': ident, 't': t}
    if err:
        msg['errname'], msg['errtext'] = err
    else:
        msg['value'] = value
    msg['tag'] = tag or f'{action}:{ident_class(ident)}:{"t-past" if t == PAST else "t-future" if t == FUTURE else "t-missing" if t is None else "t"}'
    return msg


def sigclass(msg, what):
    """input class of a message for signatures: action + identifier class (+ what the defect is about)"""
    base = f"{msg['action']}:{ident_class(msg['ident'])}"
    if what == 'value':
        return base + ':' + msg.get('kind', 'double')
    if what == 'timestamp':
        t = msg.get('t')
        return base + (':t-missing' if t is None else ':t-future' if t >= FUTURE else ':t-past-or-near')
    if what == 'readerror':
        return base + ':' + ('std-error-name' if msg.get('errname') in STD_ERRORS else 'unknown-error-name') + \
            (':prefixed-text' if ': ' in msg.get('errtext', '') else '')
    return base


def RAW(raw, tag, action='update', ident='m:value'):
    return {'action': action, 'ident': ident, 'raw': raw, 'malformed': True, 'tag': 'malformed:' + tag}


def OTHER(raw, tag):
    """a well-formed message of an action that carries no parameter state"""
    a, _, rest = raw.partition(b' ')
    return {'action': a.decode(), 'ident': rest.split(b' ')[0].decode() or None, 'raw': raw, 'tag': 'other:' + tag}


def ident_class(ident):
    if ident in ('m:value', 'm:target'):
        return 'known-' + ident[2:]
    if ident == 'm':
        return 'module-only'
    if ident == '.':
        return 'dot'
    if ident == 'm:_s':
        return 'custom-param'
    if ident is None:
        return 'none'
    if ident.startswith('n'):
        return 'other-module'
    if ident.startswith('k'):
        return 'added-module'
    if ident == 'm:_q':
        return 'added-param'
    if ident.startswith('g:_p'):
        return 'generated-param'
    if ident.startswith('m:'):
        return 'unknown-or-other-param'
    return 'unknown-module'


# ---------------------------------------------------------------------------------------------
# focus node and alphabet

FOCUS = {
    'm': {'value': ('double', None, None, None, None), 'status': ('tuple', (('enum', (('IDLE', 100), ('WARN', 200), ('ERROR', 400))),
                                                                           ('string', 0, None, True))),
          'target': ('double', None, None, None, None), 'pollinterval': ('double', 0.1, 120.0, None, None),
          '_s': ('string', 0, None, True), '_c': None},
    'n': {'value': ('double', None, None, None, None), 'status': ('tuple', (('enum', (('IDLE', 100), ('WARN', 200), ('ERROR', 400))),
                                                                           ('string', 0, None, True))),
          'pollinterval': ('double', 0.1, 120.0, None, None)},
}


_CLASSES = {}


def node_classes():
    """the module classes of the focus node and of its variants (one set per process: the same class object must give the
    same description)"""
    if not _CLASSES:
        from frappy.datatypes import FloatRange, IntRange, StringType
        from frappy.modules import Command, Parameter, Readable, Writable

        class M12(Writable):
            value = Parameter('v', FloatRange(), default=0.0)
            target = Parameter('t', FloatRange(), default=0.0)
            s = Parameter('s', StringType(isUTF8=True), default='', readonly=False)

            @Command(IntRange(0, 5), result=IntRange())
            def c(self, arg):
                """a command"""
                return arg

        class N12(Readable):
            value = Parameter('v', FloatRange(), default=0.0)

        class M12q(M12):        # a parameter more
            q = Parameter('q', IntRange(0, 100), default=0, readonly=False)

        class M12i(M12):        # value and target have another datatype
            value = Parameter('v', IntRange(0, 100), default=0)
            target = Parameter('t', IntRange(0, 100), default=0)

        class M12r(Writable):   # the custom parameter is gone
            value = Parameter('v', FloatRange(), default=0.0)
            target = Parameter('t', FloatRange(), default=0.0)

            @Command(IntRange(0, 5), result=IntRange())
            def c(self, arg):
                """a command"""
                return arg

        _CLASSES.update(M12=M12, N12=N12, M12q=M12q, M12i=M12i, M12r=M12r)
    return _CLASSES


def _edit(base, **changes):
    res = {k: dict(v) for k, v in base.items()}
    for mod, accs in changes.items():
        if accs is None:
            res.pop(mod)
        else:
            res.setdefault(mod, {}).update(accs)
            for k in [k for k, v in res[mod].items() if v == 'absent']:
                del res[mod][k]
    return res


INT100 = ('int', 0, 100)
# what the node is after the connection came back: (module -> class name, node description text, reference table, modules of
# the OLD description whose description changed, anything changed at all)
VARIANTS = {
    'same': ({'m': 'M12', 'n': 'N12'}, None, FOCUS, (), False),
    'node-properties-changed': ({'m': 'M12', 'n': 'N12'}, 'the node was renamed', FOCUS, (), True),
    'module-added': ({'m': 'M12', 'n': 'N12', 'k': 'N12'}, None, _edit(FOCUS, k=FOCUS['n']), (), True),
    'module-removed': ({'m': 'M12'}, None, _edit(FOCUS, n=None), ('n',), True),
    'parameter-added': ({'m': 'M12q', 'n': 'N12'}, None, _edit(FOCUS, m={'_q': INT100}), ('m',), True),
    'parameter-removed': ({'m': 'M12r', 'n': 'N12'}, None, _edit(FOCUS, m={'_s': 'absent'}), ('m',), True),
    'datatype-changed': ({'m': 'M12i', 'n': 'N12'}, None, _edit(FOCUS, m={'value': INT100, 'target': INT100}), ('m',), True),
}
VARIANT_NAMES = tuple(VARIANTS)


def variant_description(name):
    classes = node_classes()
    modcls, text, refmodules, _changed, _any = VARIANTS[name]
    node = nodes.Node({m: {'cls': classes[c]} for m, c in modcls.items()}, node_cfg={'description': text} if text else None,
                      name='c12f')
    try:
        desc = wire_description(node)
    finally:
        node.close()
    # the reference's idea of the node must be what the node says about itself (names only; types are the harness's own)
    for mod, accs in refmodules.items():
        if set(desc['modules'][mod]['accessibles']) != set(accs):
            raise core.Inconclusive(f'node variant {name} describes {sorted(desc["modules"][mod]["accessibles"])} for {mod}')
    if set(desc['modules']) != set(refmodules):
        raise core.Inconclusive(f'node variant {name} describes modules {sorted(desc["modules"])}')
    return desc


def focus_description():
    return variant_description('same')


def alphabet(tier):
    A = [
        M('update', 'm:value', 1.5, PAST),
        M('update', 'm:value', 2.5, FUTURE),
        M('update', 'm:value', 3.5, None),
        M('error_update', 'm:value', err=('HardwareError', 'hw fail'), t=PAST),
        M('error_update', 'm:value', err=('CommunicationFailed', 'no answer'), t=FUTURE),
        M('reply', 'm:value', 4.5, PAST),
        M('changed', 'm:target', 5.5, PAST),
        M('error_read', 'm:value', err=('ReadFailed', 'rf'), t=None),
        M('error_change', 'm:target', err=('RangeError', 'too big'), t=None),
        M('update', 'm', 6.5, PAST),
        M('changed', 'm', 7.5, None),
        M('reply', 'm', 8.5, FUTURE),
        M('error_read', 'm', err=('Disabled', 'off'), t=PAST),
        M('update', 'x:value', 1, None),
        M('update', 'm:nosuch', 1, None),
        M('changed', 'x', 1, None),
        M('update', '.', 1, None),
        RAW(b'update m:value [1,', 'json-truncated'),
        RAW(b'update m:value [1]', 'arity-1'),
        RAW(b'update m:value', 'no-data'),
        RAW(b'update m:value ["notanumber", {}]', 'unimportable-value'),
        RAW(b'error_update m:value ["HardwareError"]', 'error-arity-1', action='error_update'),
        RAW(b'update m:value [\xff, {}]', 'invalid-utf8'),
        M('update', 'n:value', 9.5, PAST),
        M('update', 'm:_s', 'abc', None),
        OTHER(b'pong x [null, {"t": 995.0}]', 'pong'),
        {'action': None, 'ident': None, 'tag': 'silence'},
    ]
    if tier == 'thorough':
        A += [
            M('update', 'm:value', 1.5, NOW0 + 2.0, tag='update:known-value:t-near'),
            M('error_update', 'm:value', err=('NoSuchErrorName', 'odd'), t=None, tag='error_update:known-value:unknown-error-name'),
            M('error_update', 'm:value', err=('HardwareError', 'RangeError: nested'), t=PAST,
              tag='error_update:known-value:prefixed-text'),
            M('error_update', 'm', err=('IsBusy', 'busy'), t=PAST),
            M('reply', 'x', 1, None),
            M('error_read', 'x:value', err=('NoSuchModule', 'x'), t=None),
            M('error_update', 'm:nosuch', err=('HardwareError', 'h'), t=None),
            M('reply', '.', 1, None),
            M('update', 'm:status', [100, 'ok'], PAST, tag='update:status'),
            M('update', 'm:value', 0, 0, tag='update:known-value:t-zero'),
            RAW(b'update m:value 5', 'data-not-a-list'),
            RAW(b'update m:value [1, 5]', 'qualifiers-not-an-object'),
            RAW(b'update m:value [1, {"t": "soon"}]', 'timestamp-not-a-number'),
            RAW(b'error_update m:value ["HardwareError", 5, {}]', 'error-text-not-a-string', action='error_update'),
            RAW(b'update m:_c [1, {}]', 'update-for-a-command'),
            RAW(b'', 'empty-line', action='', ident=None),
            OTHER(b'done m:_c [3, {"t": 995.0}]', 'done'),
            OTHER(b'active', 'active'),
            OTHER(b'error_do m:_c ["CommandFailed", "x", {}]', 'error_do'),
        ]
    return A


LEVELS = (('node', None), ('module', 'm'), ('param', ('m', 'value')), ('othermodule', 'n'), ('otherparam', ('m', 'target')))
CBNAMES = ('updateItem', 'updateEvent')


def level_matches(key, mod, par):
    return key is None or key == mod or key == (mod, par)


class CbSpec:
    """one callback of a pattern: registered at boundary `reg` (0 = before the first message), unregistered at boundary
    `unreg` (None = never), behaviour: 'record' | 'raise' (every call) | 'raise1' (an exception at its first call only) | 'oneshot1' / 'oneshot2' (UnregisterCallback at
    its 1st / 2nd call)"""
    def __init__(self, level, cbname, reg=0, unreg=None, behaviour='record'):
        self.levelname, self.key = level
        self.cbname, self.reg, self.unreg, self.behaviour = cbname, reg, unreg, behaviour
        self.group = None           # (group id, style): registered together with the other members in ONE register_callback call
        self.ungroup = None         # id: unregistered together with the other members carrying the same id in one call
        self.earlier = ''           # the members registered before this one in the same call (for signatures)
        self.act = None             # (call number, 'unregister' | 'register', other CbSpec): done inside that call of this one
        self.client = None
        self.__name__ = cbname      # frappy names a failing callback by its __name__ when logging
        self.calls = []     # (phase 'reg'|'msg', boundary/message index, (module, param, value, timestamp, readerror))
        self.io = None

    def pattern(self):
        res = (f'{self.levelname}:{self.cbname}:{self.behaviour}:' +
               ('before' if self.reg == 0 else 'after-messages') + (':unregistered-midway' if self.unreg is not None else ''))
        if self.group is not None:
            res += f':one-call-{self.group[1]}:' + (f'after-{self.earlier}' if self.earlier else 'first-of-several')
        return res

    def sigpattern(self):
        """pattern class for signatures: for a member of a grouped registration the level, its own behaviour and the kind of
        members registered before it in the same call (not which callback name or call style - those are in the detail)"""
        if self.group is None:
            return self.pattern()
        if not self.earlier:
            prev = 'first-of-several'
        elif 'oneshot' in self.earlier:
            prev = 'after-a-oneshot-member'
        elif 'raise' in self.earlier:
            prev = 'after-a-raising-member'
        else:
            prev = 'after-recording-members'
        return (f'{self.levelname}:{self.behaviour}:' + ('before' if self.reg == 0 else 'after-messages') +
                (':unregistered-midway' if self.unreg is not None else '') + f':registered-in-one-call:{prev}')

    def __call__(self, *args):
        if self.cbname == 'updateItem':
            module, param, item = args
            rec = (module, param, item.value, item.timestamp, item.readerror)
        else:
            rec = tuple(args)      # updateEvent: (module, param, value, timestamp, readerror); nodeStateChange: (online, state)
        io = self.io
        self.calls.append(('reg' if io.in_op else 'msg', io.pos if io.in_op else io.pos - 1, rec))
        if self.act is not None and len(self.calls) == self.act[0]:
            # the callback's body (un)registers another callback while the round of this message is under way; immediate calls
            # of a registration are logged as registration calls of the next boundary
            _n, op, other = self.act
            was = io.in_op
            io.in_op = True
            try:
                if op == 'unregister':
                    self.client.unregister_callback(other.key, **{other.cbname: other})
                else:
                    self.client.register_callback(other.key, **{other.cbname: other})
            finally:
                io.in_op = was
        if self.behaviour == 'raise' or (self.behaviour == 'raise1' and len(self.calls) == 1):
            raise ValueError('callback failed')
        if (self.behaviour == 'oneshot1' and len(self.calls) == 1) or (self.behaviour == 'oneshot2' and len(self.calls) == 2):
            raise UnregisterCallback()

    def __repr__(self):
        return f'<cb {self.pattern()} reg={self.reg} unreg={self.unreg}>'


# shapes of ONE register_callback(key, ...) call with several callbacks (the form proxy.py / router.py / the gui use):
# ordered members (callback name, behaviour) and what is unregistered one boundary later.  nodeStateChange is the third
# callback name with an immediate call at registration: its one-shot is a neighbour only, its own calls are not judged.
UI, UE, NS = 'updateItem', 'updateEvent', 'nodeStateChange'
GROUP_SHAPES_ONESHOT = (
    ((UI, 'oneshot1'), (UE, 'record')),
    ((UE, 'oneshot1'), (UI, 'record')),
    ((UI, 'record'), (UE, 'oneshot1')),
    ((UE, 'record'), (UI, 'oneshot1')),
    ((UI, 'oneshot2'), (UE, 'record')),
    ((UE, 'record'), (UI, 'oneshot2')),
)
GROUP_SHAPES_MIXED = (
    ((NS, 'oneshot1'), (UI, 'record'), (UE, 'record')),
    ((UI, 'record'), (NS, 'oneshot1'), (UE, 'record')),
    ((UI, 'raise1'), (UE, 'record')),
    ((UI, 'oneshot1'), (UE, 'oneshot1')),
    ((UI, 'record'), (UE, 'record'), 'unregister-first'),
    ((UE, 'record'), (UI, 'record'), 'unregister-all-in-one-call'),
)
GROUP_LEVELS = LEVELS[:3]        # the three key forms: None, module, (module, parameter)


def grouped(shapes, boundaries, tier, salt, levels=None):
    """for every key level x registration boundary 0 .. depth-1 (empty cache / cache populated by the messages so far) x
    shape: the members registered in one call - by keyword or positionally (thorough: both; quick: alternating, so that
    every (shape, level), (shape, boundary) and (level, boundary) pair occurs in both styles)"""
    res = []
    gid = 0
    for li, level in enumerate(levels or GROUP_LEVELS):
        for k in boundaries:
            for si, shape in enumerate(shapes):
                members = [m for m in shape if isinstance(m, tuple)]
                extra = [m for m in shape if not isinstance(m, tuple)]
                styles = ('keywords', 'positional') if tier == 'thorough' else (('keywords', 'positional')[(li + k + si + salt) % 2],)
                for style in styles:
                    gid += 1
                    specs = []
                    for cbname, behaviour in members:
                        c = CbSpec(level, cbname, reg=k, behaviour=behaviour)
                        c.group = (gid, style)
                        c.earlier = '+'.join(f'{x.cbname}:{x.behaviour}' for x in specs)
                        specs.append(c)
                    if 'unregister-first' in extra:
                        specs[0].unreg = k + 1
                    if 'unregister-all-in-one-call' in extra:
                        for c in specs:
                            c.unreg = k + 1
                            c.ungroup = gid
                    res += specs
    return res


def group_boundaries(depth, tier):
    """registration boundaries of the grouped registrations: 0 (nothing cached) and 1 (whatever the first message left in the
    cache) in the quick tier, every boundary that still has a message after it in the thorough tier"""
    return (0, 1) if tier == 'quick' else tuple(range(depth))


def bundles(depth, tier='quick'):
    """callback bundles; together they realise every (level, cbname, kind, boundary) pattern"""
    B = {}
    lv = [(l, n) for l in LEVELS for n in CBNAMES]
    B['before+grouped-oneshot'] = [CbSpec(l, n) for l, n in lv] + grouped(GROUP_SHAPES_ONESHOT, group_boundaries(depth, tier), tier, 0)
    B['after'] = [CbSpec(l, n, reg=k) for l, n in lv for k in range(1, depth + 1)]
    B['unregistered'] = [CbSpec(l, n, unreg=k) for l, n in lv for k in range(1, depth + 1)] + \
                        [CbSpec(l, n, reg=1, unreg=2) for l, n in lv]
    B['raising'] = [CbSpec(l, n, behaviour=b) for l, n in lv for b in ('raise', 'record')] + \
                   [CbSpec(l, n, reg=1, behaviour='raise') for l, n in lv]
    B['oneshot'] = [CbSpec(l, n, behaviour=b) for l, n in lv for b in ('oneshot1', 'record', 'oneshot2', 'record')]
    B['oneshot-late'] = [CbSpec(l, n, reg=k, behaviour=b) for l, n in lv for k in range(1, depth + 1)
                         for b in ('oneshot1', 'oneshot2')] + [CbSpec(l, n) for l, n in lv]
    B['before+grouped-mixed+pending-requests'] = [CbSpec(l, n) for l, n in lv] + grouped(GROUP_SHAPES_MIXED, group_boundaries(depth, tier), tier, 1)
    return B


BUNDLE_NAMES = ('before+grouped-oneshot', 'after', 'unregistered', 'raising', 'oneshot', 'oneshot-late',
                'before+grouped-mixed+pending-requests')
# callers waiting for these replies while the history arrives (bundle before+pending-requests): the cache must not depend
# on whether a reply is somebody's answer or unsolicited
PENDING = (('reply', 'm:value'), ('changed', 'm:target'), ('reply', 'm'), ('changed', 'm'), ('reply', 'x'))


# ---------------------------------------------------------------------------------------------
# one execution

def expected_calls(spec, effects, nmsg):
    """reference call log of one callback: list of ('reg', boundary, set-of-records) / ('msg', index, record);
    effects[j] = effect of message j or None.  Implements: immediate call with the cached state of the scope at
    registration; one call per effective message in scope while registered; nothing after unregistration /
    UnregisterCallback"""
    exp = []
    ncalls = 0
    alive = True
    stop_at = {'oneshot1': 1, 'oneshot2': 2}.get(spec.behaviour)
    cache = {}
    for j in range(nmsg + 1):
        # boundary j: (un)registration happens before message j
        if spec.unreg == j:
            alive = False
        if spec.reg == j:
            batch = [k + v for k, v in cache.items() if level_matches(spec.key, *k)]
            if batch:
                exp.append(('reg', j, batch))
                if stop_at is not None and ncalls < stop_at <= ncalls + len(batch):
                    alive = False
                ncalls += len(batch)
        if j == nmsg:
            break
        eff = effects[j]
        if eff is None:
            continue
        cache[eff[0], eff[1]] = eff[2:]
        registered = spec.reg <= j and (spec.unreg is None or j < spec.unreg) and alive
        if registered and level_matches(spec.key, eff[0], eff[1]):
            exp.append(('msg', j, eff))
            ncalls += 1
            if stop_at is not None and ncalls == stop_at:
                alive = False
    return exp


def receq(ref, got):
    return ref[0] == got[0] and ref[1] == got[1] and veq(ref[2], got[2]) and ref[3] == got[3] and erreq(ref[4], got[4])


def compare_calls(spec, exp, got):
    """-> None or (class, text)"""
    gi = 0
    for e in exp:
        if e[0] == 'msg':
            if gi >= len(got):
                return 'call-missing', f'no call for message {e[1]} (expected {e[2]!r})'
            g = got[gi]
            if g[0] != 'msg' or g[1] != e[1]:
                if g[0] == 'msg' and g[1] < e[1]:
                    return 'unexpected-call', f'called for message {g[1]} with {g[2]!r}'
                return 'call-missing', f'no call for message {e[1]} (expected {e[2]!r}); next call is {g!r}'
            if not receq(e[2], g[2]):
                what = 'value' if not veq(e[2][2], g[2][2]) else 'timestamp' if e[2][3] != g[2][3] else \
                    'readerror' if not erreq(e[2][4], g[2][4]) else 'parameter'
                return f'wrong-{what}', f'message {e[1]}: called with {g[2]!r}, expected {e[2]!r}'
            gi += 1
        else:
            batch = []
            while gi < len(got) and got[gi][0] == 'reg' and got[gi][1] == e[1]:
                batch.append(got[gi][2])
                gi += 1
            want = list(e[2])
            if spec.behaviour.startswith('oneshot'):
                # tolerated: fewer immediate calls once UnregisterCallback was raised within this registration
                if len(batch) > len(want) or not all(any(receq(w, b) for w in want) for b in batch) or not batch:
                    return 'registration-callback-wrong', f'registration at boundary {e[1]}: calls {batch!r}, cached {want!r}'
                continue
            if len(batch) != len(want):
                return ('registration-callback-missing' if len(batch) < len(want) else 'registration-callback-extra'), \
                    f'registration at boundary {e[1]}: calls {batch!r}, cached state {want!r}'
            for w in want:
                if not any(receq(w, b) for b in batch):
                    return 'registration-callback-wrong', f'registration at boundary {e[1]}: calls {batch!r}, cached {want!r}'
    if gi < len(got):
        g = got[gi]
        return ('unexpected-call-after-unregistration' if spec.unreg is not None or spec.behaviour.startswith('oneshot')
                else 'unexpected-call'), f'extra call {g!r}'
    return None


class DescRecorder:
    """descriptiveDataChange callback of one scope"""
    def __init__(self, key):
        self.key = key
        self.calls = []
        self.__name__ = 'descriptiveDataChange'

    def __call__(self, module, client):
        self.calls.append(module)


def execute(desc, refmodules, msgs, specs, clock, part, case, pending=()):
    """run one history with one bundle against the real client; judge cache and callback logs.  A message with the key
    `reconnect` is a connection loss followed by a reconnect to the node variant of that name"""
    clock.now = NOW0
    client = make_client(desc)
    recon = [m['reconnect'] for m in msgs if m.get('reconnect')]
    ctx = f'after-reconnect:{recon[0]}:' if recon else ''
    descrec = {}
    losses = []
    if recon:
        if len(recon) > 1:
            raise core.Inconclusive('one reconnect per history (the variant table is relative to the first description)')
        for key in [None] + sorted(set(refmodules) | set(VARIANTS[recon[0]][2])):
            descrec[key] = DescRecorder(key)
            client.register_callback(key, descriptiveDataChange=descrec[key])

    def on_loss(entry):
        # what SecopClient.connect() does with the answer to `describe` after the connection is there again
        losses.append(entry.variant)
        client._init_descriptive_data(variant_desc(entry.variant))
    waiting = []
    for key in pending:
        entry = [('read' if key[0] == 'reply' else 'change', key[1], None), threading.Event(), None]
        client.active_requests[key] = entry
        waiting.append(entry)
    lines = [render(m) for m in msgs]
    ops = {}
    io = ScriptIO(lines, ops, clock)
    groups, ungroups = {}, {}
    for s in specs:
        s.calls = []
        s.io = io
        if s.group is None:
            ops.setdefault(s.reg, []).append(lambda s=s: client.register_callback(s.key, **{s.cbname: s}))
        else:
            members = groups.get(s.group)
            if members is None:
                members = groups[s.group] = []
                if s.group[1] == 'positional':     # the callback name is taken from __name__
                    ops.setdefault(s.reg, []).append(lambda m=members: client.register_callback(m[0].key, *m))
                else:
                    ops.setdefault(s.reg, []).append(
                        lambda m=members: client.register_callback(m[0].key, **{c.cbname: c for c in m}))
            members.append(s)
        if s.unreg is not None and s.ungroup is None:
            ops.setdefault(s.unreg, []).append(lambda s=s: client.unregister_callback(s.key, **{s.cbname: s}))
        elif s.unreg is not None:
            members = ungroups.get(s.ungroup)
            if members is None:
                members = ungroups[s.ungroup] = []
                ops.setdefault(s.unreg, []).append(
                    lambda m=members: client.unregister_callback(m[0].key, **{c.cbname: c for c in m}))
            members.append(s)
    # at one boundary: unregistrations of earlier callbacks and registrations in list order (reg < unreg always)
    run_receive_loop(client, io, on_loss)
    part.evaluations += 1
    part.traces += 1
    part.transitions += len(lines) + sum(len(s.calls) for s in specs)
    # reference
    ref = Ref(refmodules)
    effects = []
    for j, m in enumerate(msgs):
        if m.get('reconnect'):
            ref.redescribe(VARIANTS[m['reconnect']][2])
        eff = ref.effect(m, NOW0 + j + 1.0)
        effects.append(eff)
        ref.apply(eff)
    if recon:
        # descriptiveDataChange: node scope once iff anything changed; a module of the old description once iff its own
        # description changed (or it is gone); a module that is new is not judged (the statement does not say who is told)
        _cls, _text, _table, changed, anything = VARIANTS[recon[0]]
        if losses != recon:
            raise core.Inconclusive(f'reconnects executed {losses}, scripted {recon}')
        for key, rec in descrec.items():
            if key is not None and key not in refmodules:
                continue
            want = int(anything) if key is None else int(key in changed)
            if len(rec.calls) != want:
                how = 'not-called' if len(rec.calls) < want else 'called-without-a-change' if not want else 'called-repeatedly'
                part.violation(f'C12:reconnect:{recon[0]}:descriptiveDataChange:{"node" if key is None else "module"}-scope:{how}',
                               case, f'history {">".join(m["tag"] for m in msgs)}: descriptiveDataChange callback of scope {key!r} '
                               f'was called {len(rec.calls)} times {rec.calls!r}, expected {want}')
        part.outcomes[f'reconnect:{recon[0]}'] += 1
    hist = '>'.join(m['tag'] for m in msgs)
    last = {}
    for j, eff in enumerate(effects):
        if eff is not None:
            last[eff[0], eff[1]] = msgs[j]
    # cache
    got_keys = set(client.cache)
    for key in sorted(got_keys - set(ref.cache)):
        part.violation(f'C12:{ctx}cache:phantom-entry:{key_class(key)}', case,
                       f'history {hist}: cache has {key} = {client.cache[key]!r}, no message carried a state for it')
    for key, (v, ts, err) in ref.cache.items():
        if key not in got_keys:
            part.violation(f'C12:{ctx}cache:entry-missing:last={sigclass(last[key], "")}', case,
                           f'history {hist}: no cache entry for {key}, expected {(v, ts, err)!r}')
            continue
        item = client.cache[key]
        if not veq(v, item.value):
            part.violation(f'C12:{ctx}cache:wrong-value:last={sigclass(last[key], "value")}', case,
                           f'history {hist}: cache[{key}].value = {item.value!r}, expected {v!r} (import of the last message)')
        elif item.timestamp != ts:
            cls = 'in-the-future' if item.timestamp is not None and item.timestamp > clock.now else 'differs'
            part.violation(f'C12:{ctx}cache:timestamp-{cls}:last={sigclass(last[key], "timestamp")}', case,
                           f'history {hist}: cache[{key}].timestamp = {item.timestamp!r}, expected {ts!r} (now = {clock.now})')
        elif not erreq(err, item.readerror):
            part.violation(f'C12:{ctx}cache:wrong-readerror:last={sigclass(last[key], "readerror")}', case,
                           f'history {hist}: cache[{key}].readerror = {item.readerror!r} ({type(item.readerror).__name__}), '
                           f'expected error report {err!r}')
    part.outcomes['cache:' + ','.join(sorted(f'{k[0]}.{k[1]}={"err" if e[2] else "val"}' for k, e in ref.cache.items()))] += 1
    # callbacks
    memo = {}       # the reference log depends on scope, boundaries and behaviour only - never on the neighbours
    for s in specs:
        if s.cbname not in CBNAMES:
            continue        # nodeStateChange members are neighbours only
        mk = (s.key, s.reg, s.unreg, s.behaviour)
        exp = memo.get(mk)
        if exp is None:
            exp = memo[mk] = expected_calls(s, effects, len(msgs))
        res = compare_calls(s, exp, s.calls)
        if res is not None:
            kind = next((m['tag'] for m, e in zip(msgs, effects) if e is not None), 'no-effective-message')
            # after a reconnect the scope is the input class (every callback here only records)
            part.violation(f'C12:{ctx}callback:{s.levelname if ctx else s.sigpattern()}:{res[0]}', case,
                           f'history {hist}; callback {s!r}: {res[1]}; calls {s.calls!r}; first effective message {kind}')
    return ref


def key_class(key):
    return 'known-parameter' if key in (('m', 'value'), ('m', 'target'), ('m', 's'), ('n', 'value')) else 'other'


def canon(ref):
    return tuple(sorted((k, repr(v)) for k, v in ref.cache.items()))


# ---------------------------------------------------------------------------------------------
# shards

_FOCUS = {}
_PROXY_URI = [0]
_VDESC = {}


def variant_desc(name):
    if name not in _VDESC:
        _VDESC[name] = variant_description(name)
    return _VDESC[name]


# --- callbacks acting on the callback lists during a round

INTERACT_SCENARIOS = ('actor-unregisters-neighbour-then-oneshot', 'actor-unregisters-the-oneshot-before-its-turn',
                      'neighbour-before-actor-then-oneshot2', 'duplicate-unregistered-once', 'actor-registers-newcomer',
                      'actor-unregisters-itself-then-oneshot', 'actor-unregisters-on-other-keys', 'duplicate-oneshot',
                      'actor-unregisters-later-neighbour-at-second-call', 'actor-reregisters-neighbour')


def interact_slot(scenario, level, cbname):
    """the callbacks of one (callback name, key) list for a scenario -> (entries, specs); entries = (op, boundary, spec) in
    execution order; every list of the three key levels x two callback names gets its own copy"""
    def cb(behaviour='record'):
        return CbSpec(level, cbname, behaviour=behaviour)
    A, X, O, R = cb(), cb(), cb('oneshot1'), cb()
    if scenario == 'actor-unregisters-neighbour-then-oneshot':
        A.act = (1, 'unregister', X)
        order = [A, X, O, R]
    elif scenario == 'actor-unregisters-the-oneshot-before-its-turn':
        A.act = (1, 'unregister', O)
        order = [A, O, R]
    elif scenario == 'neighbour-before-actor-then-oneshot2':
        O = cb('oneshot2')
        A.act = (1, 'unregister', X)
        order = [X, A, O, R]
    elif scenario == 'duplicate-unregistered-once':
        order = [X, X, R]
    elif scenario == 'actor-registers-newcomer':
        A.act = (1, 'register', X)
        order = [A, O, R]
    elif scenario == 'actor-unregisters-itself-then-oneshot':
        A.act = (1, 'unregister', A)
        order = [A, O, R]
    elif scenario == 'duplicate-oneshot':
        order = [O, O, R]
    elif scenario == 'actor-unregisters-later-neighbour-at-second-call':
        A.act = (2, 'unregister', X)
        order = [A, O, X, R]
    elif scenario == 'actor-reregisters-neighbour':
        A.act = (1, 'unregister', X)
        R.act = (1, 'register', X)
        order = [X, A, O, R]
    else:
        order = [A, O, R]           # actor-unregisters-on-other-keys: wired by interact_setup
    entries = [('register', 0, c) for c in order]
    if scenario == 'duplicate-unregistered-once':
        entries.append(('unregister', 1, X))
    return entries, {'A': A, 'X': X, 'O': O, 'R': R}


def interact_setup(scenario):
    entries = []
    slots = {}
    for level in GROUP_LEVELS:
        for cbname in CBNAMES:
            e, named = interact_slot(scenario, level, cbname)
            entries += e
            slots[level[0], cbname] = named
    if scenario == 'actor-unregisters-on-other-keys':
        # the node-level updateItem actor removes the recorder of the module-level updateItem list (dispatched later for the same
        # message), the module-level updateItem actor removes the one-shot of the parameter-level updateEvent list
        slots['node', UI]['A'].act = (1, 'unregister', slots['module', UI]['R'])
        slots['module', UI]['A'].act = (1, 'unregister', slots['param', UE]['O'])
        slots['param', UE]['A'].act = (2, 'register', slots['module', UI]['R'])
    return entries


def interact_model(entries, effects, nmsg):
    """reference: plain lists with in-place semantics.  A round runs over a snapshot of the list taken when it starts;
    unregister removes one occurrence in place (nothing if absent); a one-shot is removed when it says so; register calls back
    immediately with the cached state of the scope and appends.  -> {id(spec): expected call log}"""
    lists = {}
    logs = {}
    cache = {}

    def log(spec, entry):
        logs.setdefault(id(spec), []).append(entry)
        n = len(logs[id(spec)])
        return n

    def stop_at(spec):
        return {'oneshot1': 1, 'oneshot2': 2}.get(spec.behaviour)

    def act(spec, n, j):
        if spec.act is not None and n == spec.act[0]:
            _n, op, other = spec.act
            (unregister if op == 'unregister' else register)(other, j + 1)

    def register(spec, boundary):
        alive = True
        for k, v in list(cache.items()):
            if level_matches(spec.key, *k):
                n = log(spec, ('reg', boundary, k + v))
                act(spec, n, boundary - 1)
                if n == stop_at(spec):
                    alive = False
        if alive:
            lists.setdefault((spec.cbname, spec.key), []).append(spec)

    def unregister(spec, _boundary):
        lst = lists.get((spec.cbname, spec.key), [])
        if spec in lst:
            lst.remove(spec)

    for j in range(nmsg + 1):
        for op, boundary, spec in entries:
            if boundary == j:
                (register if op == 'register' else unregister)(spec, j)
        if j == nmsg:
            break
        eff = effects[j]
        if eff is None:
            continue
        cache[eff[0], eff[1]] = eff[2:]
        for cbname in CBNAMES:
            for key in (None, eff[0], (eff[0], eff[1])):
                lst = lists.get((cbname, key), [])
                for spec in list(lst):
                    n = log(spec, ('msg', j, eff))
                    act(spec, n, j)
                    if n == stop_at(spec) and spec in lst:
                        lst.remove(spec)
    return logs


def interact_alphabet():
    return [M('update', 'm:value', 1.5, PAST), M('error_update', 'm:value', err=('HardwareError', 'hw fail'), t=None),
            M('changed', 'm:target', 5.5, PAST), M('update', 'n:value', 9.5, PAST), RAW(b'update m:value [1,', 'json-truncated'),
            M('update', 'm', 6.5, FUTURE)]


def execute_interact(scenario, msgs, clock, part, case):
    clock.now = NOW0
    client = make_client(focus())
    entries = interact_setup(scenario)
    lines = [render(m) for m in msgs]
    ops = {}
    io = ScriptIO(lines, ops, clock)
    specs = []
    for op, boundary, c in entries:
        if not any(c is x for x in specs):
            specs.append(c)
        c.calls, c.io, c.client = [], io, client
        if c.act is not None and not any(c.act[2] is x for x in specs):
            specs.append(c.act[2])
            c.act[2].calls, c.act[2].io, c.act[2].client = [], io, client
        if op == 'register':
            ops.setdefault(boundary, []).append(lambda c=c: client.register_callback(c.key, **{c.cbname: c}))
        else:
            ops.setdefault(boundary, []).append(lambda c=c: client.unregister_callback(c.key, **{c.cbname: c}))
    run_receive_loop(client, io)
    part.evaluations += 1
    part.traces += 1
    part.transitions += len(lines) + sum(len(c.calls) for c in specs)
    ref = Ref(FOCUS)
    effects = []
    for j, m in enumerate(msgs):
        eff = ref.effect(m, NOW0 + j + 1.0)
        effects.append(eff)
        ref.apply(eff)
    logs = interact_model(entries, effects, len(msgs))
    hist = '>'.join(m['tag'] for m in msgs)
    # judged in dispatch order; the first callback that deviates names the violation (what follows is its consequence)
    order = {(n, l[0]): (ni, li) for ni, n in enumerate(CBNAMES) for li, l in enumerate(GROUP_LEVELS)}
    for c in sorted(specs, key=lambda c: order[c.cbname, c.levelname]):
        exp = logs.get(id(c), [])
        got = c.calls
        bad = None
        for e, g in zip(exp, got):
            if e[0] != g[0] or e[1] != g[1] or not receq(e[2], g[2]):
                bad = ('unexpected-call' if (g[0], g[1]) < (e[0], e[1]) or e[0] != g[0] else 'call-missing'
                       if g[1] > e[1] else 'wrong-arguments', f'expected {e!r}, got {g!r}')
                break
        if bad is None and len(exp) != len(got):
            bad = ('call-missing', f'no call {exp[len(got)]!r}') if len(got) < len(exp) else \
                ('called-after-it-was-unregistered', f'extra call {got[len(exp)]!r}')
        if bad is not None:
            role = 'actor' if c.act is not None else c.behaviour
            part.violation(f'C12:interact:{scenario}:{c.levelname}:{role}:{bad[0]}', case,
                           f'scenario {scenario}, history {hist}; callback {c!r} act={c.act and c.act[:2]}: {bad[1]}; calls {got!r}; '
                           f'reference log {exp!r}')
            break
    part.outcomes[f'interact:{scenario}:{sum(1 for e in effects if e)}-effective'] += 1
    return ref


def shard_interact(shard):
    """shard = (scenario index, first symbol): all histories of length <= 3 starting with it"""
    si, first = shard
    scenario = INTERACT_SCENARIOS[si]
    A = interact_alphabet()
    part = core.Part()
    seen = set()
    with virtual_clock() as clock:
        for d in range(3):
            for rest in itertools.product(range(len(A)), repeat=d):
                h = (first,) + rest
                case = {'sub': 'interact', 'scenario': scenario, 'history': list(h)}
                ref = execute_interact(scenario, [A[k] for k in h], clock, part, case)
                part.nontrivial += 1 if ref.cache else 0
                seen.add(canon(ref))
        part.sample({'scenario': scenario, 'history': [A[k]['tag'] for k in h]})
    part.states = len(seen)
    return part


# --- a real ProxyModule behind the client

def proxy_alphabet():
    """timestamps that are not monotonic: older than the previous, equal, missing (stamped locally), future; values and error
    states alternate"""
    older = PAST - 5.0
    return [
        M('update', 'm:value', 1.5, PAST), M('update', 'm:value', 2.5, older, tag='update:known-value:t-older'),
        M('update', 'm:value', 3.5, None), M('update', 'm:value', 2.5, PAST), M('update', 'm:value', 1.5, FUTURE),
        M('error_update', 'm:value', err=('HardwareError', 'hw fail'), t=None),
        M('error_update', 'm:value', err=('CommunicationFailed', 'no answer'), t=older, tag='error_update:known-value:t-older'),
        M('changed', 'm:target', 5.5, PAST), M('changed', 'm', 7.5, older, tag='changed:module-only:t-older'),
        M('update', 'm:_s', 'abc', None), M('update', 'm:_s', 'de', older, tag='update:custom-param:t-older'),
        RAW(b'update m:value [1,', 'json-truncated'),
    ]


def proxy_cls():
    if 'proxycls' not in _FOCUS:
        import frappy.proxy
        _FOCUS['proxycls'] = frappy.proxy.proxy_class(node_classes()['M12'])
    return _FOCUS['proxycls']


def execute_proxy(msgs, clock, part, case):
    """the history through SecopClient into a real proxy module (proxy_class of the focus module class): after every message
    the proxy parameter equals the last message for it"""
    clock.now = NOW0
    # a uri of its own for every node: HasIO.ioDict remembers per class which uri already has its io module
    _PROXY_URI[0] += 1
    front = nodes.Node({'pm': {'cls': proxy_cls(), 'uri': f'tcp://scripted:{_PROXY_URI[0]}', 'module': 'm'}}, name='c12p')
    try:
        pm = front.secnode.modules['pm']
        client = pm.io.secnode
        client._init_descriptive_data(focus())
        snaps = []

        def snap():
            snaps.append({n: (p.value, p.timestamp, p.readerror) for n, p in pm.parameters.items()})
        lines = [render(m) for m in msgs]
        io = ScriptIO(lines, {k: [snap] for k in range(len(lines) + 1)}, clock)
        run_receive_loop(client, io)
    finally:
        front.close()
    part.evaluations += 1
    part.traces += 1
    part.transitions += 2 * len(lines)
    ref = Ref(FOCUS)
    runs = {}       # key -> (state, acceptable timestamps): an unchanged state may keep the timestamp it was first seen with
    hist = '>'.join(m['tag'] for m in msgs)
    for j, m in enumerate(msgs):
        eff = ref.effect(m, NOW0 + j + 1.0)
        ref.apply(eff)
        if eff is not None:
            key = eff[0], eff[1]
            state = (repr(eff[2]), eff[4])
            if key in runs and runs[key][0] == state:
                runs[key][1].append(eff[3])
            else:
                runs[key] = (state, [eff[3]])
        got = snaps[j + 1]
        for (mod, par), (v, ts, err) in ref.cache.items():
            if mod != 'm' or par not in got:
                continue
            pv, pts, perr = got[par]
            lastmsg = next(x for x in reversed(msgs[:j + 1]) if (lambda e: e is not None and (e[0], e[1]) == (mod, par))(
                Ref(FOCUS).effect(x, 0.0)))
            what = None
            if not erreq(err, perr):
                what = f'readerror {perr!r}, expected {err!r}'
                cls = 'readerror'
            elif err is None and not veq(v, pv):
                what = f'value {pv!r}, expected {v!r}'
                cls = 'value'
            elif pts not in runs[mod, par][1]:
                what = f'timestamp {pts!r}, expected {ts!r}'
                cls = 'timestamp'
            if what:
                part.violation(f'C12:proxy:parameter-differs-in-{cls}:last={sigclass(lastmsg, "timestamp")}', case,
                               f'history {hist}: after message {j} the proxy parameter pm:{par} has {what} (client cache: '
                               f'{(v, ts, err)!r})')
                return ref
    part.outcomes['proxy:' + ','.join(sorted(f'{k[1]}={"err" if e[2] else "val"}' for k, e in ref.cache.items()))] += 1
    return ref


def shard_proxy(shard):
    first, second = shard
    A = proxy_alphabet()
    part = core.Part()
    seen = set()
    with virtual_clock() as clock:
        hists = [(first,)] if second == 0 else []
        hists += [(first, second)] + [(first, second, k) for k in range(len(A))]
        for h in hists:
            case = {'sub': 'proxy', 'history': list(h)}
            ref = execute_proxy([A[k] for k in h], clock, part, case)
            part.nontrivial += 1 if ref.cache else 0
            seen.add(canon(ref))
        part.sample({'proxy history': [A[k]['tag'] for k in h], 'cache': {f'{k[0]}:{k[1]}': repr(v) for k, v in ref.cache.items()}})
    part.states = len(seen)
    return part


# --- reconnect histories

def RECONNECT(variant):
    return {'action': None, 'ident': None, 'reconnect': variant, 'tag': f'connection-lost+reconnect[{variant}]'}


def reconnect_alphabet():
    return [
        M('update', 'm:value', 3, PAST),            # valid as double and as int
        M('update', 'n:value', 9.5, None),
        M('update', 'k:value', 4.5, PAST),          # module k exists after `module-added` only
        M('update', 'm:_q', 7, None),               # parameter q exists after `parameter-added` only
        M('error_update', 'm:value', err=('HardwareError', 'hw fail'), t=PAST),
        M('changed', 'm', 5, None),
        M('update', 'm:_s', 'abc', FUTURE),
        M('reply', 'n', 2.5, None),
    ]


RECONNECT_LEVELS = (('node', None), ('module', 'm'), ('param', ('m', 'value')), ('othermodule', 'n'), ('addedmodule', 'k'),
                    ('addedmodule-param', ('k', 'value')), ('added-param', ('m', 'q')), ('custom-param', ('m', 's')))


def reconnect_bundle(nmsg):
    """recording callbacks on every level, registered before everything and registered right after the reconnect"""
    return [CbSpec(l, n) for l in RECONNECT_LEVELS for n in CBNAMES] + \
        [CbSpec(l, n, reg=k) for l in RECONNECT_LEVELS[:6] for n in CBNAMES for k in range(1, nmsg)]


def reconnect_lengths(tier):
    return (1, 2) if tier == 'quick' else (2, 2)


def shard_reconnect(shard):
    """shard = (variant index, first-phase history as tuple): all second-phase histories"""
    vi, h1 = shard
    tier = core.TIER
    variant = VARIANT_NAMES[vi]
    A = reconnect_alphabet()
    part = core.Part()
    seen = set()
    _len1, len2 = reconnect_lengths(tier)
    with virtual_clock() as clock:
        for d in range(len2 + 1):
            for h2 in itertools.product(range(len(A)), repeat=d):
                msgs = [A[k] for k in h1] + [RECONNECT(variant)] + [A[k] for k in h2]
                case = {'sub': 'reconnect', 'variant': variant, 'before': list(h1), 'after': list(h2)}
                ref = execute(focus(), FOCUS, msgs, reconnect_bundle(len(msgs)), clock, part, case)
                part.nontrivial += 1 if ref.cache else 0
                seen.add(canon(ref))
                if part.evaluations % 211 == 1:
                    part.sample({'history': [m['tag'] for m in msgs], 'cache': {f'{k[0]}:{k[1]}': repr(v) for k, v in ref.cache.items()}})
    part.states = len(seen)
    return part



def focus():
    if 'desc' not in _FOCUS:
        _FOCUS['desc'] = focus_description()
    return _FOCUS['desc']


def history_depth(tier):
    return 3 if tier == 'quick' else 4


def shard_histories(shard):
    """shard = (i, j): all histories starting with symbols i, j (and, when j == 0, the history [i] itself)"""
    i, j = shard
    tier = core.TIER
    depth = history_depth(tier)
    A = alphabet(tier)
    desc = focus()
    part = core.Part()
    bdl = bundles(depth, tier)
    seen = set()
    with virtual_clock() as clock:
        hists = []
        if j == 0:
            hists.append((i,))
        ncore = len(alphabet('quick'))
        for d in range(0, depth - 1):
            # the longest histories (thorough: length 4) run over the core alphabet only
            syms = range(len(A)) if d + 2 <= 3 else range(ncore)
            if d + 2 > 3 and (i >= ncore or j >= ncore):
                continue
            for rest in itertools.product(syms, repeat=d):
                hists.append((i, j) + rest)
        for h in hists:
            msgs = [A[k] for k in h]
            effective = False
            for bname in BUNDLE_NAMES:
                case = {'sub': 'history', 'history': list(h), 'bundle': bname, 'tier': tier}
                ref = execute(desc, FOCUS, msgs, bdl[bname], clock, part, case,
                              pending=PENDING if bname.endswith('pending-requests') else ())
                effective = bool(ref.cache)
            c = canon(ref)
            if c not in seen:
                seen.add(c)
            part.nontrivial += 1 if effective else 0
            if part.evaluations % 20011 < len(BUNDLE_NAMES):
                part.sample({'history': [m['tag'] for m in msgs], 'cache': {f'{k[0]}:{k[1]}': repr(v) for k, v in ref.cache.items()}})
    part.states = len(seen)
    return part


# --- datatypes

def dt_specs(tier):
    if tier == 'quick':
        extra = T.arrays_over(T.REPS_SMALL, [(0, 3)]) + T.tuples_over(T.REPS_SMALL, 'quick')[::5] + \
            T.structs_over(T.REPS_SMALL, 'quick')[::5]
        specs = T.LEAVES + extra
    else:
        specs = T.all_types('quick', 3)
    # (0,0)-arrays etc. are fine; drop nothing
    return specs


PER_NODE = 12


def dt_node(specs):
    """a generated node: module g with one custom parameter p<i> per spec -> (description, reference modules)"""
    from frappy.modules import Parameter, Readable
    attrs = {}
    refacc = {'value': ('double', None, None, None, None), 'pollinterval': ('double', 0.1, 120.0, None, None),
              'status': FOCUS['n']['status']}
    for i, spec in enumerate(specs):
        dt = T.build(spec)
        default = dt.import_value(V.valid(spec, 'wire')[0])
        attrs[f'p{i}'] = Parameter(f'parameter {i}', dt, default=default, readonly=False)
        refacc[f'_p{i}'] = spec
    cls = type('G12', (Readable,), attrs)
    node = nodes.Node({'g': {'cls': cls}}, name='c12g')
    try:
        desc = wire_description(node)
    finally:
        node.close()
    if set(desc['modules']['g']['accessibles']) != set(refacc):
        raise core.Inconclusive(f'generated node describes {sorted(desc["modules"]["g"]["accessibles"])}')
    return desc, {'g': refacc}


def dt_messages(i, spec):
    """message alphabet for parameter p<i>: every valid wire value in an update; the first values in every kind"""
    ident = f'g:_p{i}'
    vals = [w for w in V.valid(spec, 'wire') if wire_clean(spec, w)]
    A = []
    for n, w in enumerate(vals):
        A.append(M('update', ident, w, (PAST, FUTURE, None)[n % 3], tag=f'update:{spec[0]}:value-{min(n, 3)}'))
    for n, w in enumerate(vals[:3]):
        A.append(M('reply', ident, w, (FUTURE, None, PAST)[n % 3], tag=f'reply:{spec[0]}'))
        A.append(M('changed', ident, w, (None, PAST, FUTURE)[n % 3], tag=f'changed:{spec[0]}'))
    A.append(M('error_update', ident, err=('HardwareError', 'hw'), t=PAST, tag=f'error_update:{spec[0]}'))
    A.append(M('error_read', ident, err=('CommunicationFailed', 'cf'), t=FUTURE, tag=f'error_read:{spec[0]}'))
    A.append(M('error_change', ident, err=('RangeError', 'r'), t=None, tag=f'error_change:{spec[0]}'))
    for m in A:
        m['kind'] = spec[0]
    return A


def dt_bundle(i):
    key = ('g', f'p{i}')
    other = ('g', 'value')
    levels = (('node', None), ('module', 'g'), ('param', key), ('otherparam', other))
    return [CbSpec(l, n) for l in levels for n in CBNAMES] + [CbSpec(l, n, reg=1) for l in levels for n in CBNAMES] + \
        grouped(GROUP_SHAPES_ONESHOT[:4], (1,), 'thorough', 0, levels[:3])


def shard_datatypes(shard):
    lo, hi = shard
    tier = core.TIER
    specs = dt_specs(tier)[lo:hi]
    part = core.Part()
    desc, refmodules = dt_node(specs)
    seen = set()
    with virtual_clock() as clock:
        for i, spec in enumerate(specs):
            A = dt_messages(i, spec)
            bundle = dt_bundle(i)
            hists = [(a,) for a in range(len(A))]
            first = [a for a, m in enumerate(A)]
            lim = 6 if tier == 'quick' else 10
            hists += [(a, b) for a in first[:lim] + first[-3:] for b in range(len(A))]
            for h in hists:
                msgs = [A[k] for k in h]
                case = {'sub': 'datatype', 'spec': T.tojson(spec), 'history': list(h), 'tier': tier}
                ref = execute(desc, refmodules, msgs, bundle, clock, part, case)
                part.nontrivial += 1
                seen.add((i, canon(ref)))
                if part.evaluations % 4099 == 1:
                    part.sample({'type': T.sstr(spec), 'history': [render(m).decode('utf-8', 'replace')[:80] for m in msgs],
                                 'cache': {f'{k[0]}:{k[1]}': repr(v)[:80] for k, v in ref.cache.items()}})
    part.states = len(seen)
    return part


# ---------------------------------------------------------------------------------------------

def run(ctx):
    _run_sequential(ctx)
    only = getattr(ctx, 'only', None) or set()
    if not only or 'e2e' in only:
        from vf.harness import c12e2e
        c12e2e.run_e2e(ctx)


def _run_sequential(ctx):
    tier = ctx.tier
    only = getattr(ctx, 'only', None) or set()
    nA = len(alphabet(tier))
    depth = history_depth(tier)
    if not only or 'histories' in only:
        ctx.pmap(shard_histories, [(i, j) for i in range(nA) for j in range(nA)], name='histories')
    if not only or 'interact' in only:
        ctx.pmap(shard_interact, [(si, a) for si in range(len(INTERACT_SCENARIOS)) for a in range(len(interact_alphabet()))],
                 name='interact')
    if not only or 'proxy' in only:
        nP = len(proxy_alphabet())
        ctx.pmap(shard_proxy, [(a, b) for a in range(nP) for b in range(nP)], name='proxy')
    if not only or 'reconnect' in only:
        nR = len(reconnect_alphabet())
        firsts = [h for d in range(reconnect_lengths(tier)[0] + 1) for h in itertools.product(range(nR), repeat=d)]
        ctx.pmap(shard_reconnect, [(vi, h) for vi in range(len(VARIANT_NAMES)) for h in firsts], name='reconnect')
    nspecs = len(dt_specs(tier))
    if not only or 'datatypes' in only:
        ctx.pmap(shard_datatypes, [(i, min(i + PER_NODE, nspecs)) for i in range(0, nspecs, PER_NODE)], name='datatypes')
    npat = len({s.pattern() + f':{s.reg}:{s.unreg}' for b in bundles(depth, tier).values() for s in b if s.cbname in CBNAMES})
    ctx.rule = (
        f'enumeration by length (BFS) of all message histories of length <= 3 over an alphabet of {nA} messages (thorough: and of '
        f'length 4 over its first {len(alphabet("quick"))} messages) (update, '
        'error_update, reply, changed, error_read, error_change for known parameters; unknown module / parameter; module-only and '
        '`.` identifiers; malformed JSON / arity / types; timestamps past / future / missing; other module; custom parameter; '
        f'unrelated replies; silence), each run with 7 callback bundles (one of them with callers waiting for the replies) realising {npat} patterns (level x updateItem/updateEvent x '
        'registered before / after k messages / unregistered after k messages / raising / UnregisterCallback at 1st or 2nd call / at '
        'registration; and several callbacks registered in ONE register_callback call - by keyword / positionally, on the three key '
        'levels, at boundary 0 and 1 (thorough 0..depth-1), a one-shot / raising / nodeStateChange-one-shot member in every position, one or all of them '
        'unregistered later); datatypes: one generated parameter per catalogue type x every valid wire value x message kind, all histories '
        'of length 1 and (first values x all) of length 2; reconnect: <= 1 (2 thorough) messages, connection loss, reconnect to a '
        'node variant (same / node properties changed / module added / module removed / parameter added / parameter removed / '
        'datatype changed) through the real _init_descriptive_data, <= 2 messages, callbacks on 8 levels registered before and '
        'after. evaluations = executions of the real __rxthread body (history x '
        'bundle); distinct_nontrivial = histories with at least one effective message; states = distinct reference cache states '
        'reached (summed over shards); transitions = messages delivered + callback invocations')
    ctx.coverage.update(bound_completed=f'history length <= {depth}; datatype histories <= 2', alphabet=nA, callback_patterns=npat,
                        datatype_specs=nspecs)
    ctx.assume('the receive loop is run in the exploring thread on a scripted io object (no socket, no rx/tx threads); requests in '
               'flight (active_requests) are empty - the pairing of replies with callers is C11',
               'virtual clock: +1 s per readline(); `now` of a message is the time of its readline',
               'callback (un)registration happens at message boundaries (concurrent registration is the lead\'s schedule check)',
               'the end-to-end part (real node over TCP, proxy) is a separate sub-check')


def replay(case):
    if case.get('kind') in ('e2e', 'e2e-race'):
        from vf.harness import c12e2e
        return c12e2e.replay_e2e(case)
    part = core.Part()
    tier = case.get('tier', 'thorough')
    with virtual_clock() as clock:
        if case['sub'] == 'interact':
            A = interact_alphabet()
            execute_interact(case['scenario'], [A[k] for k in case['history']], clock, part, case)
        elif case['sub'] == 'proxy':
            A = proxy_alphabet()
            execute_proxy([A[k] for k in case['history']], clock, part, case)
        elif case['sub'] == 'reconnect':
            A = reconnect_alphabet()
            msgs = [A[k] for k in case['before']] + [RECONNECT(case['variant'])] + [A[k] for k in case['after']]
            execute(focus(), FOCUS, msgs, reconnect_bundle(len(msgs)), clock, part, case)
        elif case['sub'] == 'history':
            A = alphabet(tier)
            msgs = [A[k] for k in case['history']]
            execute(focus(), FOCUS, msgs, bundles(history_depth(tier), tier)[case['bundle']], clock, part, case,
                    pending=PENDING if case['bundle'].endswith('pending-requests') else ())
        else:
            spec = T.fromjson(case['spec'])
            desc, refmodules = dt_node([spec])
            A = dt_messages(0, spec)
            execute(desc, refmodules, [A[k] for k in case['history']], dt_bundle(0), clock, part, case)
    return part
