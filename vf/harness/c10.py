"""C10 - configuration is applied faithfully; erroneous configuration is rejected whole.

enumx: bounded-exhaustive enumeration of configurations over the generated module classes vf.genmods.GA / GN / GD / GQ
(enablePoll = False) / GH (enablePoll = False, attached to an io module through HasIO) / GO (inherits optional accessibles
it does not implement) / GOI (implements the optional parameter), recording fake driver, every configuration built by the real frappy.config.Mod / Param DSL and started by the real
Server._processCfg (vf.nodes.Node: SecNode, Dispatcher, Module.__init__, error aggregation, sys.exit captured as
StartupRefused).

  valid   per class: every set of <= K (quick 3, thorough 4) entries of the class's entry catalogue {module property; parameter
          value as bare value / as Param(v); value at / inside / outside the limits; min / max / unit / visibility / export /
          readonly overrides; default; constant}, no two entries on the same (accessible, key).  After start-up the REAL
          poll thread body Module.__pollThread(polledModules, started_callback) of every module owning a poll thread is
          executed in the calling thread (virtual clock bound to frappy.modulebase.time, the thread's trigger event replaced
          by one whose wait() ends the run): writeInitParams / initialReads of all modules of the thread, the first reads,
          the started callback, the first doPoll - up to the first wait.
  errors  nodes of 1..2 (thorough 3) modules (all class tuples), 1..2 (3) entries of the error catalogue {unknown name - also
          the name of an optional accessible of a base class that the class does not implement; unknown parameter property; value of the wrong type (parameter value, default, module property, datatype property); missing
          mandatory property / needscfg parameter not given; inverted limits} spread over the modules in every way, every
          module in addition with one of its representative valid contexts.
  pairs   nodes of two modules (all class pairs x the pair contexts of each class, which contain Param(value, limit override)
          forms) built twice: every Mod(...) call with Param objects of its own, and with ONE Param object for every distinct
          Param(...) expression of the node handed to all Mod calls using it (as a cfg file does with `common = Param(...)`) -
          in process and as a cfg file.
  again   every node of every sub-check (valid, erroneous, from files; quick tier: of the erroneous nodes those with one module
          or one error) is processed a second time on the same Server object
          (Server.restart() -> run() -> _processCfg()): the second generation of modules must equal the first one (start
          values, defaults, constants, datainfo, access mode, wire names, module properties), an erroneous configuration must
          be refused again with the same failing modules named, and the configuration objects handed to the server (the Mod /
          Param dicts the file produced) must be unchanged after each processing.
  earlier run   the persistent-parameter class GP (frappy.persistent) is started on a node whose persistent directory
          (generalConfig.logdir pointed at a scratch directory, removed afterwards) holds no file / a file an earlier run left with
          other values for all / for one of the persistent parameters (a catalogue dimension like any entry): a value given in the
          configuration is the start value whatever the file says, a value not given comes from the file.
  falsy   module properties configured at their falsy / boundary values (omit_unchanged_within=0, group='', visibility='user',
          export=False, op=0): judged by their EFFECT (updates of an unchanged value sent inside the window, module absent from
          the description and not addressable), not only by the stored property.
  files   the same module configurations written as config *files* to a scratch directory (tempfile.mkdtemp, removed
          afterwards), one file or two files, looked up by name through generalConfig.confdir or by path, loaded and merged by
          the real frappy.config.load_config; the result must equal the in-process configuration (plus original_id for modules
          of the second file) and the node started from it must pass the same oracles.

Oracle (reference written from the statement; expected values come from the catalogue MODEL below, not from frappy):
  * cache start value == configured value converted to the parameter's datatype (strict: float for double/scaled, int for int,
    bool, enum member with that code and name, tuple for arrays, dict for structs); a configured default is the start value
    when no value is configured (Parameter docstring: "it is assigned to the parameter but not written to the HW")
  * describe shows overridden min / max / unit / visibility / readonly / constant / export name, configured module properties
    are set; a later change beyond an overridden limit is refused with RangeError, at and inside the limit it is accepted
    (through the real dispatcher when the parameter is remotely writable, else through the parameter's datatype.validate)
  * each parameter with a configured value and a write method: exactly one write_<p> call, with the converted value, before
    the first read_ / doPoll call
  * >= 1 error: StartupRefused; every failing module is named in the collected errors; no failing module is in
    secnode.modules; the same configuration without the erroneous entries starts (so the refusal is due to them)

Oracle calibration
  * a configured value / default / constant outside the (overridden) limits - numeric limits as well as the length limits
    and the character set of strings, arrays and blobs - is not required to be refused: such a configuration may be refused
    or started.  When it is started the value must not be silently dropped: the cache holds the converted value; nothing is
    demanded about the initial write of that parameter (the write wrapper refuses the value with RangeError: not judged).
    A value inside the CONFIGURED limits is valid also when it is outside the limits of the class (widening override)
  * the form of the error text is free; only the failing module's name must occur in it (as a word)
  * which exception class carries the rejection inside frappy is not observed
  * constant together with value / default on one parameter, and two entries on the same (accessible, key), are not generated
  * modules without errors in a refused node: nothing is demanded (they may or may not be registered)
  * a module occurring in two files is not generated (load_config keeps the first one and warns; the statement is silent)
"""
import itertools
import json
import os
import re
import shutil
import tempfile

from vf import core
from vf import genmods     # noqa: F401  registers the alias module frappy_verif_g (classes are created on first use)

PROPERTY = 'C10'
GMOD = 'frappy_verif_g'     # alias module registered by vf.genmods (get_class only imports frappy* modules)

# ---------------------------------------------------------------------------------------------------------------
# reference model of the generated classes (hand written from vf.genmods.G_RECORDS and the SECoP base classes)
#   kind, limits, wire name, readonly, has write method, class default

MODEL = {
    'GA': {
        'f': dict(kind='double', lo=0.0, hi=10.0, wire='_f', readonly=False, write=True, default=1.0),
        'i': dict(kind='int', lo=0, hi=9, wire='_i', readonly=False, write=True, default=2),
        'e': dict(kind='enum', members={'a': 1, 'b': 2, 'c': 3}, wire='_e', readonly=False, write=True, default=1),
        's': dict(kind='string', lenlo=0, lenhi=8, utf8=False, wire='_s', readonly=False, write=False, default=''),
        'sc': dict(kind='scaled', scale=0.1, lo=0.0, hi=10.0, wire='_sc', readonly=False, write=True, default=0.0),
        'b': dict(kind='bool', wire='_b', readonly=False, write=True, default=False),
        'arr': dict(kind='array-double', lenlo=0, lenhi=3, wire='_arr', readonly=False, write=True, default=()),
        'st': dict(kind='struct', wire='_st', readonly=False, write=True, default={'x': 0.0, 'y': 0}),
        'r': dict(kind='double', lo=0.0, hi=100.0, wire='_r', readonly=True, write=False, default=0.0),
        'ro': dict(kind='double', lo=0.0, hi=100.0, wire='_ro', readonly=True, write=True, default=0.0),
        'cmd': dict(kind='command', wire='_cmd'),
    },
    'GN': {
        'n': dict(kind='double', lo=0.0, hi=10.0, wire='_n', readonly=False, write=True, default=None),
        'f': dict(kind='double', lo=0.0, hi=10.0, wire='_f', readonly=False, write=True, default=1.0),
    },
    'GS': {
        's': dict(kind='string', lenlo=0, lenhi=8, utf8=False, wire='_s', readonly=False, write=True, default=''),
        'u': dict(kind='string', lenlo=0, lenhi=6, utf8=False, wire='_u', readonly=False, write=False, default=''),
        'arr': dict(kind='array-double', lenlo=0, lenhi=4, wire='_arr', readonly=False, write=True, default=()),
        'bl': dict(kind='blob', lenlo=0, lenhi=4, wire='_bl', readonly=False, write=True, default=b''),
    },
    'GW': {
        # group: the parameters are written by ONE call of the common write method (frappy.rwhandler.CommonWriteHandler)
        'p': dict(kind='double', lo=0.0, hi=100.0, wire='_p', readonly=False, write=True, group='pid', default=1.0),
        'i': dict(kind='double', lo=0.0, hi=100.0, wire='_i', readonly=False, write=True, group='pid', default=1.0),
        'd': dict(kind='double', lo=0.0, hi=100.0, wire='_d', readonly=False, write=True, group='pid', default=1.0),
        'a': dict(kind='int', lo=0, hi=50, wire='_a', readonly=False, write=True, default=0),
        'b': dict(kind='int', lo=0, hi=50, wire='_b', readonly=False, write=True, default=0),
        'gain': dict(kind='double', lo=0.0, hi=10.0, wire='_gain', readonly=False, write=True, default=1.0),
    },
    'GP': {
        'pw': dict(kind='double', lo=0.0, hi=100.0, wire='_pw', readonly=False, write=True, persistent=True, default=1.0),
        'pn': dict(kind='double', lo=0.0, hi=100.0, wire='_pn', readonly=False, write=False, persistent=True, default=2.0),
        'pr': dict(kind='double', lo=0.0, hi=100.0, wire='_pr', readonly=True, write=False, persistent=True, default=3.0),
        'q': dict(kind='double', lo=0.0, hi=100.0, wire='_q', readonly=False, write=True, default=4.0),
    },
    'GQ': {
        'g': dict(kind='double', lo=0.0, hi=100.0, wire='_g', readonly=False, write=True, default=1.0),
        'h': dict(kind='string', wire='_h', readonly=False, write=False, default=''),
    },
    'GH': {
        'g': dict(kind='double', lo=0.0, hi=100.0, wire='_g', readonly=False, write=True, default=1.0),
        'h': dict(kind='string', wire='_h', readonly=False, write=False, default=''),
    },
    'GO': {
        'f': dict(kind='double', lo=0.0, hi=10.0, wire='_f', readonly=False, write=True, default=1.0),
    },
    'GOI': {
        'f': dict(kind='double', lo=0.0, hi=10.0, wire='_f', readonly=False, write=True, default=1.0),
        'opt': dict(kind='double', lo=0.0, hi=100.0, wire='_opt', readonly=False, write=True, default=1.0),
    },
    'GD': {
        'value': dict(kind='double', lo=0.0, hi=100.0, wire='value', readonly=True, write=False, default=0.0),
        'target': dict(kind='double', lo=0.0, hi=100.0, wire='target', readonly=False, write=True, default=0.0),
        'ramp': dict(kind='double', lo=0.0, hi=20.0, wire='ramp', readonly=False, write=True, default=1.0),
        'pollinterval': dict(kind='double', lo=0.1, hi=120.0, wire='pollinterval', readonly=False, write=False, default=5.0),
    },
}
VISIBILITY = {'user': 1, 'advanced': 2, 'expert': 3}
# datatype properties limiting a length, per kind: (lower key, upper key)
LENKEYS = {'string': ('minchars', 'maxchars'), 'array-double': ('minlen', 'maxlen'), 'blob': ('minbytes', 'maxbytes')}
ALL_LENKEYS = {k for pair in LENKEYS.values() for k in pair}
POLLED = {'GP': True, 'GW': True, 'GS': True, 'GA': True, 'GN': True, 'GD': True, 'GQ': False, 'GH': False, 'GO': True, 'GOI': True}    # enablePoll of the class
# optional accessibles declared by a base class and NOT implemented by the class: they do not exist on its modules
UNIMPLEMENTED = {'GO': {'opt', 'ocmd'}, 'GOI': {'ocmd'}}
AUX_IO = 'mod_io'      # auxiliary io module (class GIO) present in every node with a GH module

# entry: (id, target accessible ('' = the module itself), key, form, value)      form: 'bare' | 'param' (only for key 'value')
ENTRIES = {
    'GA': [
        ('grp', '', 'group', 'bare', 'grp'), ('vis', '', 'visibility', 'bare', 'expert'), ('poll', '', 'pollinterval', 'bare', 2.5),
        ('f=3', 'f', 'value', 'bare', 3), ('f=P2.5', 'f', 'value', 'param', 2.5), ('f=0', 'f', 'value', 'bare', 0),
        ('f=P10', 'f', 'value', 'param', 10), ('f=P11out', 'f', 'value', 'param', 11),
        ('fmin', 'f', 'min', '', 2), ('fmax', 'f', 'max', '', 8), ('funit', 'f', 'unit', '', 'mK'),
        ('fvis', 'f', 'visibility', '', 'advanced'), ('fnoexp', 'f', 'export', '', False), ('fexp', 'f', 'export', '', 'fx'),
        ('fro', 'f', 'readonly', '', True), ('fdef', 'f', 'default', '', 4), ('fconst', 'f', 'constant', '', 5),
        ('i=3', 'i', 'value', 'bare', 3), ('i=P3.0', 'i', 'value', 'param', 3.0), ('imin', 'i', 'min', '', 1), ('imax', 'i', 'max', '', 5),
        ('iro', 'i', 'readonly', '', True),
        ('e=b', 'e', 'value', 'bare', 'b'), ('e=P2', 'e', 'value', 'param', 2),
        ('s=abc', 's', 'value', 'bare', 'abc'),
        ('sc=2.5', 'sc', 'value', 'bare', 2.5), ('scmax', 'sc', 'max', '', 5),
        ('b=T', 'b', 'value', 'bare', True),
        ('arr', 'arr', 'value', 'bare', [1, 2.5]),
        ('st', 'st', 'value', 'bare', {'x': 1.5, 'y': 2}),
        ('rdef', 'r', 'default', '', 7),
        ('ro=5', 'ro', 'value', 'bare', 5), ('rorw', 'ro', 'readonly', '', False),
        ('cmdvis', 'cmd', 'visibility', '', 'expert'),
    ],
    'GN': [
        ('op', '', 'op', 'bare', 2), ('grp', '', 'group', 'bare', 'grp'),
        ('nmax', 'n', 'max', '', 9), ('nunit', 'n', 'unit', '', 'V'), ('fmax', 'f', 'max', '', 8), ('f=3', 'f', 'value', 'bare', 3),
    ],
    'GD': [
        ('vis', '', 'visibility', 'bare', 'advanced'), ('grp', '', 'group', 'bare', 'grp'),
        ('vunit', 'value', 'unit', '', 'C'), ('tmax', 'target', 'max', '', 50), ('tmin', 'target', 'min', '', 10),
        ('t=20', 'target', 'value', 'bare', 20), ('t=P20', 'target', 'value', 'param', 20.0),
        ('ramp=2', 'ramp', 'value', 'bare', 2), ('rampmax', 'ramp', 'max', '', 10),
        ('poll=1.5', 'pollinterval', 'value', 'bare', 1.5), ('tvis', 'target', 'visibility', '', 'expert'),
    ],
}
for _c in ('GQ', 'GH'):
    ENTRIES[_c] = [('grp', '', 'group', 'bare', 'grp'), ('g=5', 'g', 'value', 'bare', 5), ('g=P7.5', 'g', 'value', 'param', 7.5),
                   ('gmax', 'g', 'max', '', 50), ('gmin', 'g', 'min', '', 2), ('gvis', 'g', 'visibility', '', 'expert'),
                   ('h=x', 'h', 'value', 'bare', 'x')]
ENTRIES['GS'] = [
    ('grp', '', 'group', 'bare', 'grp'),
    ('s=6', 's', 'value', 'bare', 'abcdef'), ('s=P12', 's', 'value', 'param', 'abcdefghijkl'), ('s=P2', 's', 'value', 'param', 'ab'),
    ('smax16', 's', 'maxchars', '', 16), ('smax4', 's', 'maxchars', '', 4), ('smin2', 's', 'minchars', '', 2),
    ('u=abc', 'u', 'value', 'bare', 'abc'), ('u=Puml', 'u', 'value', 'param', 'gr\u00fcn'), ('uutf8', 'u', 'isUTF8', '', True),
    ('arr=3', 'arr', 'value', 'bare', [1, 2, 3]), ('arr=P6', 'arr', 'value', 'param', [1, 2, 3, 4, 5, 6]),
    ('amax6', 'arr', 'maxlen', '', 6), ('amax2', 'arr', 'maxlen', '', 2), ('amin1', 'arr', 'minlen', '', 1),
    ('bl=2', 'bl', 'value', 'bare', b'ab'), ('bl=P6', 'bl', 'value', 'param', b'abcdef'),
    ('bmax8', 'bl', 'maxbytes', '', 8), ('bmax1', 'bl', 'maxbytes', '', 1),
]
ENTRIES['GW'] = [
    ('grp', '', 'group', 'bare', 'grp'),
    ('p=10', 'p', 'value', 'bare', 10), ('pmax', 'p', 'max', '', 60),
    ('i=P20', 'i', 'value', 'param', 20), ('imax', 'i', 'max', '', 50),
    ('d=30', 'd', 'value', 'bare', 30), ('d=P200out', 'd', 'value', 'param', 200),
    ('a=3', 'a', 'value', 'bare', 3), ('b=P4', 'b', 'value', 'param', 4), ('bmax', 'b', 'max', '', 9),
    ('gain=2', 'gain', 'value', 'bare', 2),
]
# '@file': not a configuration entry but the state an earlier run left in the persistent file of the module
ENTRIES['GP'] = [
    ('pw=5', 'pw', 'value', 'bare', 5), ('pwmax', 'pw', 'max', '', 50),
    ('pn=6', 'pn', 'value', 'bare', 6), ('pndef', 'pn', 'default', '', 8),
    ('pr=P7', 'pr', 'value', 'param', 7), ('prdef', 'pr', 'default', '', 9),
    ('q=9', 'q', 'value', 'bare', 9),
    ('file-all', '@file', 'prior', '', {'pw': 11.0, 'pn': 12.0, 'pr': 13.0}),
    ('file-pn', '@file', 'prior', '', {'pn': 12.0}),
]
# module properties at their falsy / boundary values
FALSY = [('omit0', '', 'omit_unchanged_within', 'bare', 0), ('omit.5', '', 'omit_unchanged_within', 'bare', 0.5),
         ('grp-empty', '', 'group', 'bare', ''), ('vis-user', '', 'visibility', 'bare', 'user'),
         ('noexport', '', 'export', 'bare', False)]
ENTRIES['GD'] += FALSY
ENTRIES['GQ'] += [FALSY[0], FALSY[4]]
ENTRIES['GS'] += [FALSY[0], FALSY[4]]
ENTRIES['GP'] += [FALSY[0]]
ENTRIES['GN'] += [('op=0', '', 'op', 'bare', 0)]
MODPROP_DEFAULT = {'group': '', 'visibility': 'user'}      # configured as the default: may be left out of the description
ENTRIES['GO'] = [('fmax', 'f', 'max', '', 8), ('f=3', 'f', 'value', 'bare', 3), ('grp', '', 'group', 'bare', 'grp')]
ENTRIES['GOI'] = [('opt=5', 'opt', 'value', 'bare', 5), ('optmax', 'opt', 'max', '', 10), ('optdef', 'opt', 'default', '', 4),
                  ('f=3', 'f', 'value', 'bare', 3)]
# entries every valid configuration of the class contains (needscfg parameter, mandatory property, io module)
REQUIRED = {
    'GA': [], 'GD': [], 'GQ': [], 'GO': [], 'GOI': [], 'GS': [], 'GW': [], 'GP': [],
    'GN': [('n=3', 'n', 'value', 'bare', 3), ('mp', '', 'mp', 'bare', 'x')],
    'GH': [('io', '', 'io', 'bare', AUX_IO)],
}
# representative valid contexts (lists of entry ids) a module carries in the error configurations
CONTEXTS = {
    'GA': [[], ['f=P2.5'], ['fmax', 'grp']],
    'GN': [[], ['fmax']],
    'GD': [[], ['t=20'], ['tmax']],
    'GQ': [[], ['g=5']], 'GH': [[], ['g=5']], 'GO': [[]], 'GOI': [[], ['opt=5']], 'GS': [[], ['s=P12', 'smax16']],
    'GW': [[], ['p=10', 'd=30']],
    'GP': [[], ['pn=6', 'file-all']],
}
# contexts of the two-module nodes of the 'pairs' sub-check: Param(value, override) forms, so that equal Param expressions occur
PAIRCTX = {
    'GA': [[], ['f=P2.5', 'fmax'], ['f=P2.5', 'fmax', 'i=3']],
    'GN': [[], ['fmax']],
    'GD': [[], ['t=P20', 'tmax']],
    'GS': [[], ['s=P12', 'smax16'], ['arr=P6', 'amax6', 'bl=2']],
    'GW': [[], ['p=10', 'i=P20', 'imax']],
    'GP': [[], ['pn=6', 'pr=P7', 'file-all']],
    'GQ': [[], ['g=P7.5', 'gmax']], 'GH': [[], ['g=P7.5', 'gmax']],
    'GO': [[], ['fmax']], 'GOI': [[], ['opt=5', 'optmax']],
}
# error: (id, category, kind, payload)
#   kind 'add': payload = (target, key, value) extra entry;  kind 'drop': payload = id of a REQUIRED entry that is left out
ERRORS = {
    'GA': [
        ('unk-name', 'unknown-name', 'add', ('nosuch', 'value', 1)),
        ('unk-name-unit', 'unknown-name', 'add', ('', 'unit', 'K')),
        ('unk-pprop', 'unknown-parameter-property', 'add', ('f', 'nosuchprop', 1)),
        ('unk-pprop-int-unit', 'unknown-parameter-property', 'add', ('i', 'unit', 'K')),
        ('unk-cprop', 'unknown-parameter-property', 'add', ('cmd', 'nosuchprop', 1)),
        ('type-f', 'wrong-type', 'add', ('f', 'value', 'text')),
        ('type-i', 'wrong-type', 'add', ('i', 'value', 2.5)),
        ('type-s', 'wrong-type', 'add', ('s', 'value', 5)),
        ('type-b', 'wrong-type', 'add', ('b', 'value', 'maybe')),
        ('type-arr', 'wrong-type', 'add', ('arr', 'value', 'xyz')),
        ('type-default', 'wrong-type', 'add', ('f', 'default', 'x')),
        ('type-dtprop', 'wrong-type', 'add', ('f', 'max', 'big')),
        ('type-modprop-vis', 'wrong-type', 'add', ('', 'visibility', 'nonsense')),
        ('type-modprop-poll', 'wrong-type', 'add', ('', 'pollinterval', 'fast')),
        ('inv-f', 'inverted-limits', 'add2', (('f', 'min', 8), ('f', 'max', 2))),
        ('inv-f-min', 'inverted-limits', 'add', ('f', 'min', 11)),
        ('inv-i-max', 'inverted-limits', 'add', ('i', 'max', -1)),
        ('inv-arr', 'inverted-limits', 'add2', (('arr', 'minlen', 3), ('arr', 'maxlen', 1))),
    ],
    'GN': [
        ('miss-needscfg', 'missing-required', 'drop', 'n=3'),
        ('miss-mandatory', 'missing-required', 'drop', 'mp'),
        ('unk-name', 'unknown-name', 'add', ('nosuch', 'value', 1)),
        ('type-n', 'wrong-type', 'add', ('n', 'max', 'big')),
        ('type-op', 'wrong-type', 'add', ('', 'op', 'two')),
    ],
    'GD': [
        ('unk-name', 'unknown-name', 'add', ('nosuch', 'value', 1)),
        ('unk-pprop', 'unknown-parameter-property', 'add', ('target', 'nosuchprop', 1)),
        ('type-t', 'wrong-type', 'add', ('ramp', 'value', 'x')),
        ('inv-t', 'inverted-limits', 'add2', (('ramp', 'min', 15), ('ramp', 'max', 5))),
    ],
}
ERRORS['GQ'] = [('unk-name', 'unknown-name', 'add', ('nosuch', 'value', 1)), ('type-g', 'wrong-type', 'add', ('g', 'value', 'x'))]
ERRORS['GH'] = [('unk-name', 'unknown-name', 'add', ('nosuch', 'value', 1))]
ERRORS['GS'] = [
    ('unk-name', 'unknown-name', 'add', ('nosuch', 'value', 1)),
    ('type-s', 'wrong-type', 'add', ('s', 'value', 5)),
    ('type-bl', 'wrong-type', 'add', ('bl', 'value', 'text')),
    ('type-dtprop', 'wrong-type', 'add', ('s', 'maxchars', 'long')),
    ('inv-s', 'inverted-limits', 'add2', (('s', 'minchars', 6), ('s', 'maxchars', 3))),
    ('inv-arr', 'inverted-limits', 'add', ('arr', 'minlen', 5)),
]
ERRORS['GW'] = [
    ('unk-name', 'unknown-name', 'add', ('nosuch', 'value', 1)),
    ('type-p', 'wrong-type', 'add', ('p', 'value', 'x')),
    ('inv-i', 'inverted-limits', 'add2', (('i', 'min', 60), ('i', 'max', 40))),
]
ERRORS['GP'] = [('unk-name', 'unknown-name', 'add', ('nosuch', 'value', 1)), ('type-pn', 'wrong-type', 'add', ('pn', 'value', 'x'))]
ERRORS['GO'] = [
    ('unimpl-opt-value', 'unknown-name', 'add', ('opt', 'value', 5)),
    ('unimpl-opt-prop', 'unknown-name', 'add', ('opt', 'max', 10)),
    ('unimpl-optcmd-prop', 'unknown-name', 'add', ('ocmd', 'visibility', 'expert')),
    ('unk-name', 'unknown-name', 'add', ('nosuch', 'value', 1)),
]
ERRORS['GOI'] = [('unimpl-optcmd-prop', 'unknown-name', 'add', ('ocmd', 'visibility', 'expert'))]
CLASSES = ['GA', 'GN', 'GD', 'GS', 'GW', 'GP', 'GQ', 'GH', 'GO', 'GOI']
WIDE_CLASSES = ['GA', 'GN', 'GD', 'GS', 'GW', 'GQ', 'GO']      # class tuples of the 3-module nodes (thorough)
FILE_CLASSES = ['GA', 'GN', 'GD', 'GS', 'GW', 'GP', 'GQ', 'GO', 'GOI']   # GH needs the auxiliary io module: direct mode only
MODNAMES = ['mod_a', 'mod_b', 'mod_c']


def bounds(tier):
    if tier == 'quick':
        return dict(k=3, nmod=2, nerr=2)
    return dict(k=4, nmod=3, nerr=3)


def entry_by_id(cls, eid):
    for e in ENTRIES[cls] + REQUIRED[cls]:
        if e[0] == eid:
            return e
    raise KeyError(eid)


def error_by_id(cls, eid):
    for e in ERRORS[cls]:
        if e[0] == eid:
            return e
    raise KeyError(eid)


def compatible(entries):
    """no two entries on the same (accessible, key); no constant together with value / default on one parameter"""
    seen = set()
    for _id, target, key, _form, _val in entries:
        if (target, key) in seen:
            return False
        seen.add((target, key))
    for target in {t for t, _ in seen}:
        keys = {k for t, k in seen if t == target}
        if 'constant' in keys and keys & {'value', 'default'}:
            return False
    return True


# ---------------------------------------------------------------------------------------------------------------
# module spec -> configuration (through the real DSL) / config file text

def module_items(cls, entry_ids, error_ids):
    """-> ordered list of (target, key, form, value) of everything written into the module's configuration"""
    dropped = {error_by_id(cls, e)[3] for e in error_ids if error_by_id(cls, e)[2] == 'drop'}
    items = []
    for e in REQUIRED[cls]:
        if e[0] not in dropped:
            items.append(e[1:])
    for eid in entry_ids:
        items.append(entry_by_id(cls, eid)[1:])
    for eid in error_ids:
        _id, _cat, kind, payload = error_by_id(cls, eid)
        if kind == 'add':
            items.append((payload[0], payload[1], 'param', payload[2]))
        elif kind == 'add2':
            for pl in payload:
                items.append((pl[0], pl[1], 'param', pl[2]))
    return items


def group_items(items):
    """-> ordered {config keyword: ('bare', v) | ('param', {key: v})} as it is written in a Mod(...) call"""
    kw = {}
    for target, key, form, val in items:
        if target.startswith('@'):
            continue      # a state of the environment (file of an earlier run), not a configuration entry
        if target == '':
            # module level keyword: a module property (or an unknown name)
            kw[key] = ('bare', val)
            continue
        cur = kw.get(target)
        if cur is None and key == 'value' and form == 'bare':
            kw[target] = ('bare', val)
            continue
        if cur is None:
            cur = ('param', {})
        elif cur[0] == 'bare':
            cur = ('param', {'value': cur[1]})
        cur[1][key] = val
        kw[target] = cur
    return kw


def param_expr(props):
    """the text of a Param(...) call for an ordered property dict (value first, as one writes it)"""
    props = dict(props)
    pargs = []
    if 'value' in props:
        pargs.append(repr(props.pop('value')))
    pargs += [f'{pk}={pv!r}' for pk, pv in props.items()]
    return f'Param({", ".join(pargs)})'


def build_mod(name, cls, items, pcache=None):
    """the module section as the real DSL builds it: Mod(name, cls, description, **kwds) -> dict.
    pcache: dict shared by the Mod calls of one node: one Param object per distinct Param(...) expression"""
    from frappy.config import Mod, Param
    kwds = {}
    for k, (form, v) in group_items(items).items():
        if form == 'bare':
            kwds[k] = v
            continue
        expr = param_expr(v)
        if pcache is not None and expr in pcache:
            kwds[k] = pcache[expr]
            continue
        props = dict(v)
        if 'value' in props:
            pobj = Param(props.pop('value'), **props)
        else:
            pobj = Param(**props)
        if pcache is not None:
            pcache[expr] = pobj
        kwds[k] = pobj
    mod = Mod(name, f'{GMOD}.{cls}', f'generated {cls}', **kwds)
    mod = dict(mod)
    mod.pop('name')
    return mod


def build_cfg(names, spec, items, shared=False):
    pcache = {} if shared else None
    cfg = {name: build_mod(name, cls, it, pcache) for name, (cls, _e, _r), it in zip(names, spec, items)}
    if any(cls == 'GH' for cls, _e, _r in spec):
        cfg[AUX_IO] = build_mod(AUX_IO, 'GIO', [])
    return cfg


def mod_text(name, cls, items, variables=None):
    """variables: {Param expression: variable name} - the file defines the Param objects once and uses them by name"""
    args = [repr(name), repr(f'{GMOD}.{cls}'), repr(f'generated {cls}')]
    for k, (form, v) in group_items(items).items():
        if form == 'bare':
            args.append(f'{k}={v!r}')
        else:
            expr = param_expr(v)
            args.append(f'{k}={variables[expr] if variables is not None else expr}')
    return 'Mod(' + ', '.join(args) + ')\n'


def shared_variables(allitems):
    """-> ({Param expression: variable name}, text defining the variables) for all modules of one file"""
    variables = {}
    for items in allitems:
        for _k, (form, v) in group_items(items).items():
            if form != 'bare':
                variables.setdefault(param_expr(v), f'par{len(variables)}')
    return variables, ''.join(f'{var} = {expr}\n' for expr, var in variables.items())


# ---------------------------------------------------------------------------------------------------------------
# reference conversion and strict comparison

def conv(model, v):
    """the configured value converted to the parameter's datatype, as the SECoP data model defines it"""
    k = model['kind']
    if k == 'double':
        return float(v)
    if k == 'int':
        return int(v)
    if k == 'scaled':
        return round(v / model['scale']) * model['scale']
    if k == 'bool':
        return bool(v)
    if k == 'enum':
        if isinstance(v, str):
            return (model['members'][v], v)
        return (v, {c: n for n, c in model['members'].items()}[v])
    if k == 'string':
        return v
    if k == 'array-double':
        return tuple(float(x) for x in v)
    if k == 'blob':
        return bytes(v)
    if k == 'struct':
        return {'x': float(v['x']), 'y': int(v['y'])}
    raise ValueError(k)


def same(model, got, want):
    k = model['kind']
    if k == 'double':
        return type(got) is float and got == want
    if k == 'scaled':
        return type(got) is float and abs(got - want) < 1e-9
    if k == 'int':
        return type(got) is int and got == want
    if k == 'bool':
        return got is want
    if k == 'enum':
        return (not isinstance(got, (str, bool))) and int(got) == want[0] and getattr(got, 'name', None) == want[1]
    if k == 'string':
        return type(got) is str and got == want
    if k == 'array-double':
        return isinstance(got, tuple) and len(got) == len(want) and all(type(a) is float and a == b for a, b in zip(got, want))
    if k == 'blob':
        return type(got) is bytes and got == want
    if k == 'struct':
        return (isinstance(got, dict) and set(got) == set(want) and type(got['x']) is float and got['x'] == want['x']
                and type(got['y']) is int and got['y'] == want['y'])
    raise ValueError(k)


def wire(model, v):
    """internal reference value -> JSON value on the wire"""
    k = model['kind']
    if k == 'scaled':
        return round(v / model['scale'])
    if k == 'enum':
        return v[0]
    if k == 'array-double':
        return list(v)
    if k == 'blob':
        import base64
        return base64.b64encode(v).decode('ascii')
    return v


class Ref:
    """what the statement demands for one module configuration (class + entries)"""
    def __init__(self, cls, items):
        self.cls = cls
        self.model = MODEL[cls]
        self.items = items
        self.per = {}        # accessible -> {key: value}
        self.modprops = {}
        self.prior = None    # what an earlier run left in the module's persistent file (None: no file)
        for target, key, _form, val in items:
            if target == '@file':
                self.prior = val
                continue
            if target == '':
                self.modprops[key] = val
            else:
                self.per.setdefault(target, {})[key] = val

    def limits(self, p):
        m = self.model[p]
        cfg = self.per.get(p, {})
        return cfg.get('min', m.get('lo')), cfg.get('max', m.get('hi'))

    def length_limits(self, p):
        m = self.model[p]
        cfg = self.per.get(p, {})
        lokey, hikey = LENKEYS[m['kind']]
        return cfg.get(lokey, m['lenlo']), cfg.get(hikey, m['lenhi'])

    def utf8(self, p):
        return self.per.get(p, {}).get('isUTF8', self.model[p].get('utf8', False))

    def limited(self, p):
        m = self.model.get(p, {})
        return 'lo' in m or 'lenlo' in m

    def value_ok(self, p, v):
        """is v inside the effective (class, overridden by this configuration) limits of p"""
        m = self.model[p]
        if 'lo' in m:
            lo, hi = self.limits(p)
            return lo <= v <= hi
        if 'lenlo' in m:
            lo, hi = self.length_limits(p)
            if not lo <= len(v) <= hi:
                return False
            if m['kind'] == 'string' and not self.utf8(p) and not v.isascii():
                return False
        return True

    def may_refuse(self):
        """a start value / default / constant outside the effective limits: refusing is allowed, not demanded"""
        for p, cfg in self.per.items():
            m = self.model.get(p)
            if not m or not self.limited(p):
                continue
            for key in ('value', 'default', 'constant'):
                if key in cfg and not self.value_ok(p, cfg[key]):
                    return True
            # the class default can fall outside narrowed limits as well
            if m.get('default') is not None and 'value' not in cfg and 'default' not in cfg and not self.value_ok(p, m['default']):
                return True
        return False

    def outside(self, p, key):
        cfg = self.per.get(p, {})
        if not self.limited(p) or key not in cfg:
            return False
        return not self.value_ok(p, cfg[key])

    def start_value(self, p):
        """-> (expected, source) or None when the statement says nothing"""
        cfg = self.per.get(p, {})
        m = self.model[p]
        if 'value' in cfg:
            return conv(m, cfg['value']), 'value-outside-limits' if self.outside(p, 'value') else 'value'
        if m.get('persistent') and self.prior and p in self.prior:
            return conv(m, self.prior[p]), 'earlier-run-file'
        if 'default' in cfg:
            return conv(m, cfg['default']), 'default-outside-limits' if self.outside(p, 'default') else 'default'
        return None

    def probes(self, p):
        """-> (accepted, refused) internal values at / beyond the effective limits of p"""
        m = self.model[p]
        if 'lo' in m:
            lo, hi = self.limits(p)
            step = m.get('scale', 1)
            accept = [lo, hi, (lo + hi) // 2 if m['kind'] == 'int' else round(((lo + hi) / 2) / step) * step]
            return accept, [lo - max(1, step * 10), hi + max(1, step * 10)]
        lo, hi = self.length_limits(p)
        unit = {'string': 'x', 'array-double': (1.0,), 'blob': b'x'}[m['kind']]
        accept = [unit * lo, unit * hi]
        refuse = [unit * (hi + 1)] + ([unit * (lo - 1)] if lo > 0 else [])
        if m['kind'] == 'string' and lo <= 2 <= hi:
            (accept if self.utf8(p) else refuse).append('\u00e4\u00f6')
        return accept, refuse


# ---------------------------------------------------------------------------------------------------------------
# running a node

class Refused(Exception):
    pass


def start_node(module_cfg, node_cfg=None):
    """-> (node, None) | (node-shell, StartupRefused); the shell gives access to secnode.modules of a refused node"""
    from vf import nodes
    node = nodes.Node.__new__(nodes.Node)
    try:
        nodes.Node.__init__(node, module_cfg, node_cfg, start=False, name='c10node')
    except nodes.StartupRefused as e:
        return node, e
    return node, None


def close_node(node):
    try:
        node.close()
    except Exception:
        pass


class StopStartup(Exception):
    """raised by the fake trigger event: the poll thread reached its first wait"""


class FakeTrigger:
    """stands in for the trigger event of one poll thread: the first wait ends the run"""
    def __init__(self):
        self.waits = 0

    def wait(self, timeout=None):
        self.waits += 1
        raise StopStartup()

    def set(self):
        pass

    def clear(self):
        pass

    def is_set(self):
        return False


class VirtualClock:
    """bound to the name `time` in frappy.modulebase while the poll thread bodies run"""
    def __init__(self):
        self.now = 1.7e9

    def time(self):
        self.now += 0.001
        return self.now

    def sleep(self, t):
        self.now += t


def real_startup(node):
    """execute the real Module.__pollThread body of every module owning a poll thread, in the calling thread, up to the first
    wait on its trigger event (start-up part + first doPoll round).  -> (number of thread bodies run, how they ended)"""
    import frappy.modulebase as mb
    owners = [m for m in node.secnode.modules.values() if m.polledModules]
    ends = []
    saved = mb.time
    mb.time = VirtualClock()
    try:
        for owner in owners:
            owner.triggerPoll = FakeTrigger()
            started = []
            try:
                owner._Module__pollThread(owner.polledModules, lambda st=started: st.append(1))
                end = 'returned'           # no polled module in this thread
            except StopStartup:
                end = 'first-wait'
            for m in owner.polledModules:
                m.__dict__.setdefault('c10_thread', []).append((owner.name, end, len(started)))
            ends.append(end)
    finally:
        mb.time = saved
    return len(owners), ends


def kinds(cls, items):
    """normalised description of a configuration for signatures"""
    out = []
    for target, key, form, _val in items:
        tk = 'module' if target == '' else 'earlier-run' if target.startswith('@') else MODEL[cls].get(target, {}).get('kind', 'unknown')
        out.append(f'{tk}.{key}' + ('-bare' if form == 'bare' and target else ''))
    return '+'.join(sorted(out))


def check_valid(part, node, name, cls, items, case, tag):
    """all demands of the statement on a started node for one module.  A generator: it yields once, after the demands on the
    freshly started node (start values, description); the caller then runs the real poll thread bodies of the node and resumes
    it for the demands on the start-up (initial writes) and on later requests"""
    ref = Ref(cls, items)
    model = ref.model
    mod = node.secnode.modules.get(name)
    where = f'{tag} {name}({cls}) configured with {describe_items(items)}'
    if mod is None:
        part.violation(f'C10:module-missing-after-start', case, f'{where}: node started but the module is not registered')
        yield
        return
    # 1. start values
    for p in list(ref.per) + [q for q in (ref.prior or {}) if q not in ref.per]:
        sv = ref.start_value(p)
        if sv is None or p not in model or model[p]['kind'] == 'command':
            continue
        want, source = sv
        got = mod.parameters[p].value
        part.traces += 1
        if not same(model[p], got, want):
            part.violation(f'C10:start-value:{model[p]["kind"]}:{"persistent-" if model[p].get("persistent") else ""}'
                           f'configured-{source}:cache-differs', case,
                           f'{where}: cache start value of {p} is {got!r} ({type(got).__name__}), the {source} converted '
                           f'to the datatype is {want!r} (earlier-run file: {ref.prior})')
        else:
            part.outcomes[f'start-value-{source}:ok'] += 1
        if 'default' in ref.per.get(p, {}):
            want_d = conv(model[p], ref.per[p]['default'])
            if not same(model[p], mod.parameters[p].default, want_d):
                part.violation(f'C10:default-property:{model[p]["kind"]}:not-applied', case,
                               f'{where}: default of {p} is {mod.parameters[p].default!r}, configured {want_d!r}')
    # 2. description
    desc = node.describe()['modules'].get(name)
    part.transitions += 1
    hidden = ref.modprops.get('export') is False      # the module is configured not to be exported
    if hidden:
        part.traces += 1
        if desc is not None:
            part.violation('C10:module-property:export:module-configured-as-not-exported-is-described', case,
                           f'{where}: export=False but the module is in the description')
        else:
            part.outcomes['module-property:export-false:not-described'] += 1
        desc = {'accessibles': {}}
    elif desc is None:
        part.violation(f'C10:module-not-described', case, f'{where}: module missing in the description')
        yield
        return
    for key, val in ref.modprops.items():
        part.traces += 1
        if key == 'export':
            continue
        if hidden and key in ('group', 'visibility'):
            ok = getattr(mod, key, None) == val
        elif key in MODPROP_DEFAULT and val == MODPROP_DEFAULT[key]:
            # configured as what it is anyway: absent from the description or shown as configured
            ok = desc.get(key) in (None, val, VISIBILITY.get(val)) and getattr(mod, key, None) == val
        elif key == 'group':
            ok = desc.get('group') == val
        elif key == 'visibility':
            ok = desc.get('visibility') in (val, VISIBILITY[val])
        elif key == 'io':
            ok = getattr(getattr(mod, 'io', None), 'name', None) == val
        else:
            ok = getattr(mod, key, None) == val
        if ok:
            part.outcomes['module-property:ok'] += 1
        else:
            part.violation(f'C10:module-property:{key}:not-applied', case,
                           f'{where}: module property {key} configured as {val!r}, described {desc.get(key)!r}, '
                           f'attribute {getattr(mod, key, None)!r}')
    accs = desc['accessibles']
    export_checks = []
    halfexport = set()     # parameters whose configured export name does not work (reported once, not again by the range checks)
    for p, cfg in ref.per.items():
        m = model[p]
        wname = m['wire']
        if 'export' in cfg:
            part.traces += 1
            if cfg['export'] is False:
                ok = wname not in accs
                wname = None
            elif hidden:
                ok, wname = True, None
            else:
                ok = cfg['export'] in accs and wname not in accs
                wname = cfg['export']
            if ok:
                part.outcomes['export:ok'] += 1
            else:
                part.violation(f'C10:describe:export-override-not-applied', case,
                               f'{where}: export={cfg["export"]!r} but the described accessibles are {list(accs)}')
                continue
            export_checks.append((p, wname))
        if hidden:
            wname = None      # nothing of a module which is not exported is described: judged on the module itself
        acc = accs.get(wname) if wname else None
        if wname and acc is None:
            part.violation(f'C10:describe:accessible-missing', case, f'{where}: {wname} not described: {list(accs)}')
            continue
        pobj = mod.accessibles[p]
        datainfo = acc['datainfo'] if acc else pobj.datatype.export_datatype()    # unexported: the datatype itself
        for key, val in cfg.items():
            if key in ('min', 'max'):
                want = round(val / m['scale']) if m['kind'] == 'scaled' else val
                ok = datainfo.get(key) == want
            elif key == 'unit' or key in ALL_LENKEYS or key == 'isUTF8':
                ok = datainfo.get(key) == val
            elif key == 'visibility':
                got = acc.get('visibility') if acc else pobj.visibility
                ok = got in (val, VISIBILITY[val]) or (acc is None and int(got) == VISIBILITY[val])
            elif key == 'readonly':
                ok = (acc['readonly'] if acc else pobj.readonly) is val
            elif key == 'constant':
                want = wire(m, conv(m, val))
                ok = (acc.get('constant') if acc else pobj.constant) == want
                if ok and (acc['readonly'] if acc else pobj.readonly) is not True:
                    # SECoP: a constant parameter can not be changed
                    part.violation(f'C10:describe:{m["kind"]}:constant-parameter-described-writable', case,
                                   f'{where}: {p} has the configured constant {val!r} but is described with readonly=false')
            else:
                continue
            part.traces += 1
            if ok:
                part.outcomes[f'describe-{key}:ok'] += 1
            else:
                part.violation(f'C10:describe:{m["kind"]}:{key}-override-not-shown', case,
                               f'{where}: {p}.{key} configured as {val!r}; described {json.dumps(acc, default=repr)[:300] if acc else datainfo}')
    # 3. start-up of the poll thread (run by the caller for the whole node): configured values are written exactly once,
    #    before the first poll
    yield
    raw = list(mod.__dict__.get('drvraw', []))
    first_poll = next((i for i, ev in enumerate(raw) if ev[0] in ('read', 'doPoll')), len(raw))
    threads = mod.__dict__.get('c10_thread', [])
    if POLLED[cls]:
        if first_poll == len(raw):
            part.violation(f'C10:harness:no-poll-recorded', case, f'{where}: no read/doPoll call recorded: {raw}')
        if len(threads) != 1 or threads[0][1:] != ('first-wait', 1):
            part.violation(f'C10:poll-thread-start-up:not-completed', case,
                           f'{where}: poll threads handling the module (owner, end, started callbacks): {threads}')
    elif any('value' in c and model[p].get('write') for p, c in ref.per.items()) and len(threads) != 1:
        part.violation(f'C10:poll-thread-start-up:unpolled-module-with-values-to-write-has-{len(threads)}-threads', case,
                       f'{where}: poll threads handling the module: {threads}')
    part.outcomes[f'module-handled-by:{"own" if threads and threads[0][0] == name else "io" if threads else "no"}-thread'] += 1
    # parameters sharing one write method: ONE call carrying all configured members
    groups = {}
    for p, cfg in ref.per.items():
        if 'value' in cfg and model[p].get('group'):
            groups.setdefault(model[p]['group'], []).append(p)
    for gname, members in groups.items():
        if any(ref.outside(p, 'value') for p in members):
            part.outcomes['init-write:value-outside-limits:no-demand'] += 1
            continue
        idx = [i for i, ev in enumerate(raw) if ev[0] == 'write' and ev[1] == gname]
        part.traces += 1
        n = len(members)
        if len(idx) != 1:
            part.violation(f'C10:init-write:common-write-method:called-{len(idx) if len(idx) < 2 else "N"}-times', case,
                           f'{where}: {n} of the parameters sharing the write method write_{gname} are configured ({members}); the '
                           f'method was called {len(idx)} times during start-up, driver log {raw}')
        elif idx[0] > first_poll:
            part.violation(f'C10:init-write:common-write-method:after-first-poll', case,
                           f'{where}: write_{gname} after the first poll: {raw}')
        else:
            got = raw[idx[0]][2]
            # the members reach the common method partly through the write wrapper (converted), partly straight from the
            # configuration: compared by value (20 == 20.0 denotes the same value)
            bad = [p for p in members if not (p in got and got[p] == conv(model[p], ref.per[p]['value']))]
            if bad:
                part.violation(f'C10:init-write:common-write-method:wrong-value', case,
                               f'{where}: write_{gname} got {got!r}; configured members {[(p, ref.per[p]["value"]) for p in bad]} '
                               f'are not among them')
            else:
                part.outcomes[f'init-write:common-method-once-for-{n}-members'] += 1
    for p, cfg in ref.per.items():
        m = model[p]
        if 'value' not in cfg or not m.get('write') or m.get('group'):
            continue
        if ref.outside(p, 'value'):
            part.outcomes['init-write:value-outside-limits:no-demand'] += 1
            continue
        want = conv(m, cfg['value'])
        idx = [i for i, ev in enumerate(raw) if ev[0] == 'write' and ev[1] == p]
        part.traces += 1
        if len(idx) != 1:
            part.violation(f'C10:init-write:{m["kind"]}:written-{len(idx) if len(idx) < 2 else "N"}-times', case,
                           f'{where}: write_{p} called {len(idx)} times during start-up, driver log {raw}')
        elif idx[0] > first_poll:
            part.violation(f'C10:init-write:{m["kind"]}:after-first-poll', case, f'{where}: write_{p} after the first poll: {raw}')
        elif not same(m, raw[idx[0]][2], want):
            part.violation(f'C10:init-write:{m["kind"]}:wrong-value', case,
                           f'{where}: write_{p} got {raw[idx[0]][2]!r}, configured value converted is {want!r}')
        else:
            part.outcomes['init-write:once-before-poll'] += 1
    # 3a. the EFFECT of module properties
    if hidden:
        conn0 = node.connect()
        p0 = next(iter(model))
        rep = node.request(conn0, f'read {name}:{model[p0]["wire"]}')
        node.disconnect(conn0)
        part.traces += 1
        part.transitions += 1
        if rep[0].startswith('error') and rep[2][0] in ('NoSuchModule', 'NoSuchParameter'):
            part.outcomes['module-property:export-false:not-addressable'] += 1
        else:
            part.violation('C10:module-property:export:module-configured-as-not-exported-answers-requests', case,
                           f'{where}: export=False but read {name}:{model[p0]["wire"]} -> {rep[0]}')
    if 'omit_unchanged_within' in ref.modprops:
        window = ref.modprops['omit_unchanged_within']
        cand = [p for p, m in model.items() if p in mod.parameters and m.get('default') is not None
                and mod.parameters[p].export and mod.parameters[p].readerror is None and mod.parameters[p].constant is None]
        def announcable(pobj):      # a start value outside narrowed limits can not be announced as a value
            try:
                pobj.datatype(pobj.value)
                return True
            except Exception:
                return False
        for p in [c for c in cand if announcable(mod.parameters[c])][:2]:
            pobj = mod.parameters[p]
            part.traces += 2
            if pobj.omit_unchanged_within != window:
                part.violation('C10:module-property:omit_unchanged_within:parameters-use-another-window', case,
                               f'{where}: omit_unchanged_within={window!r} configured, parameter {p} uses {pobj.omit_unchanged_within!r}')
            # behaviour: the unchanged value announced 3 times within 0.02 s
            sent = []
            saved_cb = mod.updateCallback
            mod.updateCallback = lambda _m, po, _sent=sent: _sent.append(po.name)
            try:
                t0 = (pobj.timestamp or 0) + 1000
                for dt_ in (0.0, 0.01, 0.02):
                    mod.announceUpdate(p, pobj.value, timestamp=t0 + dt_)
                    part.transitions += 1
            finally:
                mod.updateCallback = saved_cb
            want_n = 3 if window <= 0.01 else 1
            if len(sent) != want_n:
                part.violation(f'C10:module-property:omit_unchanged_within:{"updates-omitted-although-window-is-zero" if want_n == 3 else "updates-not-omitted-within-window"}', case,
                               f'{where}: omit_unchanged_within={window!r}: 3 announcements of the unchanged value of {p} within '
                               f'0.02 s produced {len(sent)} updates, expected {want_n}')
            else:
                part.outcomes[f'omit-window-effect:{want_n}-of-3-updates-sent'] += 1
    # 3b. an export override must be applied as a whole: the parameter answers under the configured name only
    #     (probed after the start-up sequence, because it reads the parameter)
    for p, wname in export_checks:
        m, cfg = model[p], ref.per[p]
        conn0 = node.connect()
        old = node.request(conn0, f'read {name}:{m["wire"]}')
        new = node.request(conn0, f'read {name}:{wname}') if wname else None
        node.disconnect(conn0)
        part.transitions += 2
        part.traces += 1
        # served = anything but "no such parameter" (a constant parameter answers a read with an InternalError: C06's business)
        def served(rep):
            return not (rep[0].startswith('error') and rep[2][0] in ('NoSuchParameter', 'NoSuchModule'))
        if served(old) or (new is not None and not served(new)):
            what = 'hidden-from-description-but-still-served' if wname is None else 'described-name-not-served-old-name-served'
            part.violation(f'C10:export-override-half-applied:{what}', case,
                           f'{where}: export={cfg["export"]!r}: described accessibles {list(accs)}; read under the class\'s '
                           f'name {m["wire"]} -> {old[0]} {old[2][0] if old[0].startswith("error") else ""}; read under the '
                           f'configured name -> {new and new[0]} {new[2][0] if new and new[0].startswith("error") else ""}')
            halfexport.add(p)
        else:
            part.outcomes['export:addressable-as-described'] += 1
    # 4. range checks use the overridden limits (numeric limits, lengths, character set)
    conn = node.connect()
    limitkeys = {'min', 'max', 'isUTF8'} | ALL_LENKEYS
    for p, cfg in ref.per.items():
        m = model[p]
        if not (limitkeys & set(cfg)) or not ref.limited(p):
            continue
        accept, refuse = ref.probes(p)
        pobj = mod.parameters[p]
        remote = bool(pobj.export) and not pobj.readonly and pobj.constant is None and p not in halfexport
        for x, expect in [(v, 'accept') for v in accept] + [(v, 'refuse') for v in refuse]:
            part.traces += 1
            part.transitions += 1
            if remote:
                rep = node.request(conn, f'change {name}:{pobj.export} {json.dumps(wire(m, x))}')
                got = 'accept' if rep[0] == 'changed' else ('refuse' if rep[0].startswith('error') and rep[2][0] == 'RangeError'
                                                           else f'other:{rep[0]}:{rep[2][0] if rep[0].startswith("error") else ""}')
            else:
                from frappy.errors import RangeError
                try:
                    pobj.datatype.validate(x)
                    got = 'accept'
                except RangeError:
                    got = 'refuse'
                except Exception as e:
                    got = f'other:{type(e).__name__}'
            if got == expect:
                part.outcomes[f'range-check-{"remote" if remote else "datatype"}:{expect}'] += 1
            else:
                part.violation(f'C10:range-check:{m["kind"]}:{"change" if remote else "validate"}-{expect}-expected-got-{norm(got)}', case,
                               f'{where}: limits of {p} after the overrides {cfg}: {"change" if remote else "validate"} '
                               f'{x!r} -> {got}, expected {expect}')


def norm(text):
    return re.sub(r'[^A-Za-z0-9:]+', '-', str(text))[:40]


def describe_items(items):
    return '{' + ', '.join(f'{t or "<module>"}.{k}={"" if f != "bare" else "bare "}{v!r}' for t, k, f, v in items) + '}'


def words(text):
    return set(re.findall(r'[A-Za-z_][A-Za-z_0-9]*', text))


def report_error_symptom(part, spec, failing_specs, symptom, case, detail, attribute):
    if case.get('mode') == 'files':
        # the direct mode attributes ignored errors; what is special about the file path is filed under 'files'
        part.violation(f'C10:files:{symptom.split(":")[0]}', case, detail)
        return
    _report_error_symptom(part, spec, failing_specs, symptom, case, detail, attribute)


def _report_error_symptom(part, spec, failing_specs, symptom, case, detail, attribute):
    """a symptom (started / module not reported / module registered) of an erroneous configuration: when one of the
    errors involved is already ignored in a node of its own, the symptom is filed under that error"""
    culprits = []
    if attribute:
        for cls, _e, errs in failing_specs:
            for eid in errs:
                if not single_error_refused(cls, eid):
                    culprits.append(error_class(cls, eid))
    if culprits:
        for c in sorted(set(culprits)):
            part.violation(f'C10:error-not-rejected:{c}', case, detail)
    elif len(spec) == 1 and sum(len(errs) for _c, _e, errs in spec) == 1:
        cls, _e, errs = failing_specs[0]
        part.violation(f'C10:error-not-rejected:{error_class(cls, errs[0])}', case, detail)
    else:
        part.violation(f'C10:{symptom}', case, detail)


def cfg_snapshot(cfg):
    """the configuration objects as handed to the server, as text (order of keys included)"""
    return json.dumps(cfg, sort_keys=False, default=repr)


def observe_generation(node, names):
    """what one processing of the configuration produced, per module: start values, defaults, constants, datainfo, access mode,
    wire names, visibility, module properties"""
    out = {}
    for name in names:
        mod = node.secnode.modules.get(name)
        if mod is None:
            out[name] = None
            continue
        rows = []
        for aname, aobj in mod.accessibles.items():
            row = [aname, repr(aobj.export), repr(aobj.visibility)]
            try:
                row.append(aobj.datatype.export_datatype())
            except Exception as e:
                row.append(f'exc:{type(e).__name__}')
            if aname in mod.parameters:
                row += [repr(aobj.value), repr(aobj.default), repr(aobj.constant), aobj.readonly, repr(aobj.readerror)]
            rows.append(row)
        out[name] = {'accessibles': rows, 'properties': json.loads(json.dumps(mod.exportProperties(), default=repr)),
                     'writeDict': sorted(mod.writeDict)}
    return out


def process_again(node):
    """the configuration is processed a second time on the same server object (Server.restart -> run -> _processCfg)
    -> None | the errors of the refusal"""
    import io
    import sys
    stderr = sys.stderr
    sys.stderr = buf = io.StringIO()
    try:
        node._processCfg()
    except SystemExit:
        return list(node.secnode.errors) + [buf.getvalue()]
    finally:
        sys.stderr = stderr
    return None


class PersistEnv:
    """generalConfig.logdir pointed at a scratch directory holding the persistent files an earlier run left"""
    def __init__(self, names, refs, equipment_id):
        from pathlib import Path
        from frappy.lib import generalConfig
        self.gc = generalConfig
        self.saved = generalConfig._config
        self.dir = tempfile.mkdtemp(prefix='c10-persist-')
        self.files = {}
        for name, ref in zip(names, refs):
            if ref.prior is not None:
                self.files[f'{equipment_id}.{name}.json'] = json.dumps(ref.prior)
        generalConfig._config = dict(self.saved or {}, logdir=Path(self.dir))
        self.reset()

    def reset(self):
        """the state before the server (re)processes the configuration: exactly the files of the earlier run"""
        pdir = os.path.join(self.dir, 'persistent')
        shutil.rmtree(pdir, ignore_errors=True)
        os.makedirs(pdir)
        for fn, text in self.files.items():
            with open(os.path.join(pdir, fn), 'w', encoding='utf-8') as f:
                f.write(text)

    def close(self):
        self.gc._config = self.saved
        shutil.rmtree(self.dir, ignore_errors=True)


PERSISTENT_CLASSES = {'GP'}


def run_spec(part, spec, tag='direct', cfg=None, node_cfg=None, attribute=True, shared=False):
    """spec = [[cls, [entry ids], [error ids]], ...] -> build through the DSL (or take cfg loaded from files), start, judge"""
    case = {'spec': spec, 'mode': tag}
    if shared:
        case['shared'] = True
    items = [module_items(cls, ents, errs) for cls, ents, errs in spec]
    names = MODNAMES[:len(spec)]
    if cfg is None:
        cfg = build_cfg(names, spec, items, shared)
    snap = cfg_snapshot(cfg)
    failing = [name for name, (_c, _e, errs) in zip(names, spec) if errs]
    part.evaluations += 1
    env = None
    if any(cls in PERSISTENT_CLASSES for cls, _e, _r in spec):
        env = PersistEnv(names, [Ref(cls, it) for (cls, _e, _r), it in zip(spec, items)],
                         (node_cfg or {}).get('equipment_id', 'verif_node'))
    node = None
    try:
        node, refused = start_node(cfg, node_cfg)
        node.c10_env = env
        part.transitions += 1
        return _judge(part, spec, tag, cfg, attribute, case, items, names, failing, node, refused, snap)
    finally:
        if node is not None:
            close_node(node)
        if env is not None:
            env.close()


def check_again(part, node, names, case, desc, snap, cfg, first):
    """the demands on a repeated processing; first = observation of the first generation | ('refused', named failing modules)"""
    part.traces += 1
    if cfg_snapshot(cfg) != snap:
        part.violation('C10:configuration-objects-changed-by-processing', case,
                       f'{desc}: the configuration handed to the server was {snap[:400]} and is {cfg_snapshot(cfg)[:400]} after processing')
        return
    if getattr(node, 'c10_env', None) is not None:
        node.c10_env.reset()      # the second processing starts from the same files of the earlier run
    errors = process_again(node)
    part.transitions += 1
    if first[0] == 'refused':
        if errors is None:
            part.violation('C10:processed-again:erroneous-configuration-starts-the-second-time', case,
                           f'{desc}: refused when processed first, started when the same server processed it again')
        else:
            named = words('\n'.join(errors))
            again = sorted(n for n in names if n in named)
            if again != first[1]:
                part.violation('C10:processed-again:other-failing-modules-reported', case,
                               f'{desc}: failing modules named first {first[1]}, the second time {again}')
            else:
                part.outcomes['processed-again:refused-again'] += 1
    elif errors is not None:
        part.violation('C10:processed-again:valid-configuration-refused-the-second-time', case,
                       f'{desc}: started when processed first, the second processing is refused: {errors}')
    else:
        second = observe_generation(node, names)
        if second == first[1]:
            part.outcomes['processed-again:same-modules'] += 1
        else:
            diff = [n for n in names if second.get(n) != first[1].get(n)]
            n = diff[0]
            rows1 = {r[0]: r for r in (first[1][n] or {}).get('accessibles', [])}
            rows2 = {r[0]: r for r in (second[n] or {}).get('accessibles', [])}
            what = [f'{a}: first {rows1.get(a)} second {rows2.get(a)}' for a in rows1 if rows1.get(a) != rows2.get(a)]
            part.violation('C10:processed-again:modules-differ-from-the-first-processing', case,
                           f'{desc}: module {n} differs after the second processing: {what[:3] or (first[1][n], second[n])}')
    if cfg_snapshot(cfg) != snap:
        part.violation('C10:configuration-objects-changed-by-processing', case,
                       f'{desc}: the configuration handed to the server was {snap[:400]} and is {cfg_snapshot(cfg)[:400]} after the '
                       f'second processing')


def _judge(part, spec, tag, cfg, attribute, case, items, names, failing, node, refused, snap):
    if not failing:
        part.states += 1
        if refused is not None:
            refs = [Ref(cls, it) for (cls, _e, _r), it in zip(spec, items)]
            if any(r.may_refuse() for r in refs):
                part.outcomes['valid:refused-allowed(start value outside limits)'] += 1
                return 'refused-allowed'
            # file the refusal under the smallest part of the configuration that is refused on its own: the entries on one
            # accessible of one module (direct mode, memoised); else under the whole configuration
            culprits = refused_groups(spec) if attribute else []
            if culprits:
                what = '|'.join(culprits)
            elif tag == 'files':
                what = 'files:' + '+'.join(s[0] for s in spec)
            else:
                what = '|'.join(kinds(c, it) for (c, _e, _r), it in zip(spec, items))
            part.violation(f'C10:valid-config-refused:{what}', case,
                           f'{tag}: the configuration {[describe_items(it) for it in items]} of {[s[0] for s in spec]} contains '
                           f'no error of the catalogue but start-up is refused: {refused.errors}')
            return 'refused'
        part.outcomes['valid:started'] += 1
        first = ('started', observe_generation(node, names))
        gens = [check_valid(part, node, name, cls, it, case, tag) for name, (cls, _e, _r), it in zip(names, spec, items)]
        for g in gens:
            next(g)                      # demands on the freshly started node
        nthreads, ends = real_startup(node)
        part.transitions += nthreads
        part.outcomes[f'poll-threads:{nthreads}'] += 1
        for g in gens:
            for _ in g:                  # demands on the start-up and on later requests
                pass
        check_again(part, node, names, case, f'{tag}: {[describe_items(it) for it in items]} of {[sp[0] for sp in spec]}',
                    snap, cfg, first)
        return 'started'
    # --- erroneous configuration
    part.states += 1
    part.nontrivial += 1
    cats = '+'.join(sorted(error_by_id(cls, e)[1] for cls, _e, errs in spec for e in errs))
    desc = f'{tag}: ' + '; '.join(f'{n}({c}) entries {describe_items(it)} errors {errs}'
                                  for n, (c, _e, errs), it in zip(names, spec, items))
    part.traces += 1
    if refused is None:
        part.outcomes['error:started'] += 1
        report_error_symptom(part, spec, [sp for sp in spec if sp[2]], f'error-config-started:{cats}', case,
                             f'{desc}: the node started (modules {list(node.secnode.modules)})', attribute)
        return 'started'
    part.outcomes[f'error:refused:{len(failing)}-failing-of-{len(spec)}'] += 1
    text = '\n'.join(refused.errors) + '\n' + refused.stderr
    named = words(text)
    for i, name in enumerate(failing):
        part.traces += 1
        if name not in named:
            report_error_symptom(part, spec, [spec[names.index(name)]],
                                 f'failing-module-not-reported:{"first" if i == 0 else "later"}-failing-module', case,
                                 f'{desc}: {name} is not named in the collected errors {refused.errors!r}',
                                 attribute and len(spec) + sum(len(sp[2]) for sp in spec) > 2)
        if name in node.secnode.modules:
            report_error_symptom(part, spec, [spec[names.index(name)]], 'failing-module-registered', case,
                                 f'{desc}: {name} is registered in secnode.modules although its configuration is erroneous',
                                 attribute and len(spec) + sum(len(sp[2]) for sp in spec) > 2)
    # quick tier: the second processing of erroneous nodes is limited to single-module nodes and nodes with one error
    if attribute and (core.TIER != 'quick' or len(spec) == 1 or sum(len(sp[2]) for sp in spec) == 1):
        check_again(part, node, names, case, desc, snap, cfg, ('refused', sorted(n for n in names if n in named)))
    return 'refused'


_GROUP = {}


def refused_groups(spec):
    """kinds of the per-accessible entry groups of the modules of spec which are refused in a single-module node of their own"""
    found = []
    for cls, ents, _errs in spec:
        groups = {}
        for eid in ents:
            groups.setdefault(entry_by_id(cls, eid)[1], []).append(eid)
        for _target, group in groups.items():
            key = (cls, tuple(group))
            if key not in _GROUP:
                scratch = core.Part()
                _GROUP[key] = run_spec(scratch, [[cls, list(group), []]], attribute=False) == 'refused'
            if _GROUP[key]:
                found.append(kinds(cls, [entry_by_id(cls, e)[1:] for e in group]))
    return sorted(set(found))


def error_class(cls, eid):
    """signature class of a catalogue error: category + what kind of entry carries it"""
    _id, cat, kind, payload = error_by_id(cls, eid)
    if kind == 'drop':
        what = 'needscfg-parameter' if 'needscfg' in eid else 'mandatory-property'
    else:
        pls = [payload] if kind == 'add' else list(payload)
        target = pls[0][0]
        if target in UNIMPLEMENTED.get(cls, ()):
            return f'{cat}:unimplemented-optional-accessible.' + '+'.join(pl[1] for pl in pls)
        tk = 'module' if target == '' else MODEL[cls].get(target, {}).get('kind', 'unknown-name')
        tk = 'command' if tk == 'command' else ('module' if tk == 'module' else ('unknown-name' if tk == 'unknown-name' else 'parameter'))
        what = tk + '.' + '+'.join(pl[1] if pl[0] else 'property' for pl in pls)
    return f'{cat}:{what}'


_SINGLE = {}


def single_error_refused(cls, eid):
    """is a node with one module carrying just this error refused (and the module reported, not registered)?  memoised"""
    key = (cls, eid)
    if key not in _SINGLE:
        scratch = core.Part()
        run_spec(scratch, [[cls, [], [eid]]], attribute=False)
        _SINGLE[key] = not scratch.violations
    return _SINGLE[key]


# ---------------------------------------------------------------------------------------------------------------
# enumeration

def valid_sets(cls, k):
    ids = [e[0] for e in ENTRIES[cls]]
    for n in range(k + 1):
        for combo in itertools.combinations(ids, n):
            if compatible([entry_by_id(cls, e) for e in combo] + REQUIRED[cls]):
                yield list(combo)


def error_sets(cls, n):
    """all sets of exactly n errors of the class that can be combined (disjoint targets)"""
    ids = [e[0] for e in ERRORS[cls]]
    for combo in itertools.combinations(ids, n):
        yield list(combo)


def items_ok(cls, ents, errs):
    """the error entries must not collide with valid entries on the same (accessible, key)"""
    seen = set()
    for target, key, _f, _v in module_items(cls, ents, errs):
        if (target, key) in seen:
            return False
        seen.add((target, key))
    return True


def error_specs(nmod, nerr, contexts=True):
    """all specs of nmod modules with 1..nerr errors in total"""
    for classes in itertools.product(CLASSES if nmod <= 2 else WIDE_CLASSES, repeat=nmod):
        for total in range(1, nerr + 1):
            for dist in itertools.product(range(total + 1), repeat=nmod):
                if sum(dist) != total:
                    continue
                per_mod = []
                for cls, n in zip(classes, dist):
                    opts = []
                    for errs in error_sets(cls, n):
                        for ctx in (CONTEXTS[cls] if contexts else [[]]):
                            if items_ok(cls, ctx, errs):
                                opts.append([cls, ctx, errs])
                    per_mod.append(opts)
                for combo in itertools.product(*per_mod):
                    yield [list(c) for c in combo]


def shard_valid(shard):
    cls, chunk = shard
    part = core.Part()
    for ents in chunk:
        if ents:
            part.nontrivial += 1
        run_spec(part, [[cls, ents, []]])
        if part.evaluations % 211 == 1:
            part.sample({'class': cls, 'entries': ents})
    return part


def shard_errors(shard):
    part = core.Part()
    memo = {}
    for spec in shard:
        run_spec(part, spec)
        # differential: the same configuration without the erroneous entries starts
        key = json.dumps([[c, e] for c, e, _r in spec])
        if key not in memo:
            scratch = core.Part()
            memo[key] = run_spec(scratch, [[c, e, []] for c, e, _r in spec])
            part.transitions += scratch.transitions
            part.extra['differential_valid_runs'] += 1
            if memo[key] != 'started':
                part.violation(f'C10:direct:context-without-errors-does-not-start:{memo[key]}', {'spec': [[c, e, []] for c, e, _r in spec], 'mode': 'direct'},
                               f'the configuration {spec} without its erroneous entries does not start')
            for sig, v in scratch.violations.items():
                part.violation(sig, v[1], v[2])
        if part.evaluations % 499 == 1:
            part.sample({'spec': spec})
    return part


# --- config files

def file_specs(tier):
    """module specs for the file path: pairs of modules, valid contexts and single errors"""
    for c1, c2 in itertools.product(FILE_CLASSES, repeat=2):
        for x1 in CONTEXTS[c1]:
            for x2 in CONTEXTS[c2]:
                yield [[c1, x1, []], [c2, x2, []]]
        for e1 in error_sets(c1, 1):
            yield [[c1, [], e1], [c2, [], []]]
        for e2 in error_sets(c2, 1):
            yield [[c1, [], []], [c2, [], e2]]
        if tier != 'quick':
            for e1 in error_sets(c1, 1):
                for e2 in error_sets(c2, 1):
                    yield [[c1, [], e1], [c2, [], e2]]
    for c1 in FILE_CLASSES:
        for ents in valid_sets(c1, 2 if c1 == 'GS' or tier != 'quick' else 1):
            yield [[c1, ents, []]]


LAYOUTS = ['one-file-by-name', 'two-files-by-name', 'two-files-by-path', 'two-files-same-module-name']
SAME_NAME = 'two-files-same-module-name'    # the second file ALSO defines a module with the name of the first file's module
SHARED_LAYOUT = 'one-file-shared-param-objects'      # `par0 = Param(...)` once, used by every Mod(...) with that expression


class LogStub:
    def __init__(self):
        self.warnings = []

    def debug(self, *args):
        pass
    info = exception = error = debug

    def warning(self, fmt, *args):
        self.warnings.append(fmt % args if args else fmt)
    handlers = []


def run_files(part, spec, layout, scratch):
    """write the spec as config file(s), load and merge through frappy.config.load_config, compare, start, judge"""
    from frappy.config import load_config
    from frappy.lib import generalConfig
    names = MODNAMES[:len(spec)]
    items = [module_items(cls, ents, errs) for cls, ents, errs in spec]
    variables, vartext = (shared_variables(items) if layout == SHARED_LAYOUT else (None, ''))
    texts = [mod_text(n, c, it, variables) for n, (c, _e, _r), it in zip(names, spec, items)]
    d = tempfile.mkdtemp(dir=scratch)
    first = "Node('first_id', 'first node', 'tcp://0', _prop='p1')\n" + vartext
    second = "Node('second_id', 'second node', 'tcp://0')\n"
    if layout in ('one-file-by-name', SHARED_LAYOUT) or len(spec) == 1:
        files = {'one_cfg.py': first + ''.join(texts)}
        args = ['one']
        second_mods = []
    elif layout == SAME_NAME:
        # file one: mod_a as spec[0]; file two: a module of the SAME name configured as spec[1], and mod_b as spec[1]
        clash = mod_text(names[0], spec[1][0], items[1])
        files = {'one_cfg.py': first + texts[0], 'two_cfg.py': second + clash + ''.join(texts[1:])}
        second_mods = names[1:]
        args = ['one', 'two']
    else:
        files = {'one_cfg.py': first + texts[0], 'two_cfg.py': second + ''.join(texts[1:])}
        second_mods = names[1:]
        args = ['one', 'two'] if layout == 'two-files-by-name' else [os.path.join(d, 'one_cfg.py'), os.path.join(d, 'two_cfg.py')]
    for fn, text in files.items():
        with open(os.path.join(d, fn), 'w', encoding='utf-8') as f:
            f.write(text)
        part.transitions += 1
    saved = generalConfig._config
    from pathlib import Path
    generalConfig.testinit(confdir=[Path(d)], piddir=Path(d))
    case = {'spec': spec, 'mode': 'files', 'layout': layout}
    try:
        log = LogStub()
        try:
            merged = load_config(args, log)
        except Exception as e:
            from frappy.errors import ConfigError
            if layout == SAME_NAME and isinstance(e, ConfigError):
                part.outcomes['files:same-module-name:refused-by-load_config'] += 1      # a permitted reading: the clash is an error
                return
            part.violation(f'C10:files:load_config-raises:{type(e).__name__}', case, f'{layout}: load_config({args}) of {files} raised {e!r}')
            return
        part.transitions += 1
    finally:
        generalConfig._config = saved
    merged = dict(merged)
    node_cfg = merged.pop('node')
    # differential: what the files yield == what the DSL yields in process (+ original_id for merged modules)
    expect = {n: build_mod(n, c, it) for n, (c, _e, _r), it in zip(names, spec, items)}
    for n in second_mods:
        expect[n]['original_id'] = 'second_id'
    part.traces += 1
    if layout == SAME_NAME:
        # the statement does not say which definition of a module named in two files is to be used: the module must be one of
        # the two definitions AS A WHOLE - the first file's (nothing of the second file applied to it) or the second file's
        # (then marked with that file's equipment id) - never a mixture
        later = dict(expect)
        later[names[0]] = dict(build_mod(names[0], spec[1][0], items[1]), original_id='second_id')
        if json.dumps(merged, sort_keys=True, default=repr) == json.dumps(later, sort_keys=True, default=repr):
            part.outcomes['files:same-module-name:second-file-used-as-a-whole'] += 1
            expect = later
            spec = [spec[1]] + list(spec[1:])
            case = dict(case, spec=spec)
        elif json.dumps(merged, sort_keys=True, default=repr) == json.dumps(expect, sort_keys=True, default=repr):
            part.outcomes['files:same-module-name:first-file-used-as-a-whole'] += 1
        else:
            part.violation('C10:files:same-module-name-in-two-files:module-is-neither-definition-as-a-whole', case,
                           f'{layout}: files {files} load as {merged}; expected the first file\'s {names[0]} untouched {expect[names[0]]} '
                           f'or the second file\'s as a whole {later[names[0]]}')
            return
    if json.dumps(merged, sort_keys=True, default=repr) != json.dumps(expect, sort_keys=True, default=repr) or list(merged) != names:
        part.violation(f'C10:files:{layout}:merged-configuration-differs', case,
                       f'{layout}: files {files} load as {merged}, the same Mod(...) calls in process give {expect}')
    else:
        part.outcomes[f'files:{layout}:same-as-dsl'] += 1
    if node_cfg.get('equipment_id') != 'first_id':
        part.violation(f'C10:files:{layout}:node-section-not-from-first-file', case, f'{layout}: node section {node_cfg}')
    ncfg = {k: v for k, v in node_cfg.items() if k not in ('interface',)}
    run_spec(part, spec, tag='files', cfg=merged, node_cfg=ncfg)
    case_fix(part, case)


def case_fix(part, case):
    """violations raised by run_spec with mode 'files' need the layout for replay"""
    for sig, v in part.violations.items():
        if isinstance(v[1], dict) and v[1].get('mode') == 'files' and 'layout' not in v[1]:
            v[1]['layout'] = case['layout']


def shard_files(shard):
    part = core.Part()
    scratch = tempfile.mkdtemp(prefix='c10-')
    try:
        for spec, layout in shard:
            if any(errs for _c, _e, errs in spec) or any(ents for _c, ents, _r in spec):
                pass
            run_files(part, spec, layout, scratch)
            if part.evaluations % 97 == 1:
                part.sample({'spec': spec, 'layout': layout})
    finally:
        shutil.rmtree(scratch, ignore_errors=True)
    return part


def pair_cases():
    for c1, c2 in itertools.product(CLASSES, repeat=2):
        for x1 in PAIRCTX[c1]:
            for x2 in PAIRCTX[c2]:
                spec = [[c1, x1, []], [c2, x2, []]]
                yield spec, 'separate'
                yield spec, 'shared'
                if c1 in FILE_CLASSES and c2 in FILE_CLASSES:
                    yield spec, SHARED_LAYOUT


def shard_pairs(shard):
    part = core.Part()
    scratch = tempfile.mkdtemp(prefix='c10-')
    try:
        for spec, mode in shard:
            part.nontrivial += 1
            if mode == SHARED_LAYOUT:
                run_files(part, spec, mode, scratch)
            else:
                run_spec(part, spec, shared=(mode == 'shared'))
            if part.evaluations % 101 == 1:
                part.sample({'spec': spec, 'param objects': mode})
    finally:
        shutil.rmtree(scratch, ignore_errors=True)
    return part


def chunks(seq, n):
    seq = list(seq)
    return [seq[i:i + n] for i in range(0, len(seq), n)]


def run(ctx):
    b = bounds(ctx.tier)
    only = getattr(ctx, 'only', set())
    counts = {}
    if not only or 'valid' in only:
        shards = []
        for cls in CLASSES:
            sets = list(valid_sets(cls, b['k']))
            counts[f'valid_{cls}'] = len(sets)
            shards += [(cls, ch) for ch in chunks(sets, 40)]
        ctx.pmap(shard_valid, shards, name='valid')
    if not only or 'errors' in only:
        specs = []
        for nmod in range(1, b['nmod'] + 1):
            # the widest nodes of the thorough tier carry no extra valid context (the count stays enumerable)
            specs += list(error_specs(nmod, b['nerr'], contexts=(nmod <= 2)))
        counts['error_specs'] = len(specs)
        ctx.pmap(shard_errors, chunks(specs, 150), name='errors')
    if not only or 'pairs' in only:
        pc = list(pair_cases())
        counts['pair_cases'] = len(pc)
        ctx.pmap(shard_pairs, chunks(pc, 40), name='pairs')
    if not only or 'files' in only:
        fs = [(spec, layout) for spec in file_specs(ctx.tier) for layout in (LAYOUTS if len(spec) > 1 else LAYOUTS[:1])]
        counts['file_cases'] = len(fs)
        ctx.pmap(shard_files, chunks(fs, 60), name='files')
    ctx.rule = ('enumeration: valid = per class every compatible set of <= %d entries of its catalogue (%s entries), node with that '
                'module; errors = every node of 1..%d modules over all class tuples with 1..%d catalogue errors (%s per class) '
                'distributed over the modules in every way x every representative valid context per module (3-module nodes: no '
                'context); pairs = all class pairs x pair contexts x {own Param objects, one Param object per distinct expression, '
                'the latter as cfg file}; every node of every sub-check is processed a second time on the same server object '
                '(differential against the first processing, configuration objects unchanged); files = module pairs x contexts / single errors (thorough: error pairs) and all single-entry modules x '
                'layouts {one file, two files by name, two files by path} through load_config. states = configurations; '
                'distinct_nontrivial = configurations with >= 1 entry resp. >= 1 error; transitions = node start-ups, describe, '
                'start-up calls, change requests, file operations; traces = single demands of the statement evaluated'
                % (b['k'], {c: len(ENTRIES[c]) for c in CLASSES}, b['nmod'], b['nerr'], {c: len(ERRORS[c]) for c in CLASSES}))
    ctx.coverage.update(bound_completed=f'valid: <= {b["k"]} entries per module; errors: <= {b["nerr"]} errors over <= {b["nmod"]} modules',
                        **counts)
    ctx.assume('classes, entries and errors outside the catalogues (vf.genmods.G_RECORDS, ENTRIES, ERRORS) are not covered',
               'the real poll thread body is executed in the calling thread up to its first wait (virtual clock), not by a thread',
               'the second processing is _processCfg() on the same server object, without the interface / shutdown part of restart',
               'a configured start value outside the limits may be refused or accepted')


def replay(case):
    part = core.Part()
    spec = case['spec']
    if case.get('mode') == 'files':
        scratch = tempfile.mkdtemp(prefix='c10-')
        try:
            run_files(part, spec, case.get('layout', LAYOUTS[0]), scratch)
        finally:
            shutil.rmtree(scratch, ignore_errors=True)
    else:
        run_spec(part, spec, shared=bool(case.get('shared')))
    return part
