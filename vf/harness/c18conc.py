"""C18 concurrent part - linked parameters stay consistent when two threads update them at once.

schedx: a real module (real node) with a StructParam (combined read/write methods: the struct is primary; or member
methods only: the members are primary) or a FloatEnumParam; two threads (what the poll thread and a driver / request thread
do) each perform one or two updates of the linked parameters: attribute assignment (announceUpdate), read_<p>(), write_<p>().
All schedules with <= bound preemptions; scheduling points at every lock operation and at every source line of
Module.announceUpdate (the store / callback / notify sequence).

Oracle at quiescence (both threads joined): struct[m] == member m for every member; float == value of the current index;
and the last update message a globally activated connection holds for each of these parameters equals the cache.
"""
import json

from vf import core

TABLE = {0: 0.001, 1: 0.02, 2: 1.0}
CASES = {
    # struct primary (combined read / write methods)
    'struct-rw:assign|assign': ('rw', [[['assign', 'pid', {'p': 1.0, 'i': 1.0}]], [['assign', 'pid', {'p': 2.0, 'i': 2.0}]]]),
    'struct-rw:read|assign': ('rw', [[['read', 'pid']], [['assign', 'pid', {'p': 2.0, 'i': 2.0}]]]),
    'struct-rw:write|read': ('rw', [[['write', 'pid', {'p': 3.0, 'i': 4.0}]], [['read', 'pid']]]),
    'struct-rw:member-write|assign': ('rw', [[['write', 'pid_p', 5.0]], [['assign', 'pid', {'p': 2.0, 'i': 2.0}]]]),
    # members primary
    'struct-members:assign-p|assign-i': ('mem', [[['assign', 'pid_p', 1.0]], [['assign', 'pid_i', 2.0]]]),
    'struct-members:assign-p|assign-p': ('mem', [[['assign', 'pid_p', 1.0]], [['assign', 'pid_p', 3.0], ['assign', 'pid_i', 4.0]]]),
    'struct-members:write-struct|assign-i': ('mem', [[['write', 'pid', {'p': 3.0, 'i': 4.0}]], [['assign', 'pid_i', 2.0]]]),
    'struct-members:read-struct|assign-p': ('mem', [[['read', 'pid']], [['assign', 'pid_p', 6.0]]]),
    # two access methods (both serialised on the access lock): a poll of the struct and a client write of a member
    'struct-members:read-struct|write-member': ('mem', [[['read', 'pid']], [['write', 'pid_p', 5.0]]]),
    'struct-members:write-struct|read-member': ('mem', [[['write', 'pid', {'p': 3.0, 'i': 4.0}]], [['read', 'pid_i']]]),
    'struct-rw:read|write-member': ('rw', [[['read', 'pid']], [['write', 'pid_i', 6.0]]]),
    # a parameter and its limit written by two threads (module code / poll thread and a request thread)
    'limits:write-a|write-a_max': ('lim', [[['write', 'a', 5.0]], [['write', 'a_max', 3.0]]]),
    'limits:write-a|assign-a_max': ('lim', [[['write', 'a', 5.0]], [['assign', 'a_max', 3.0]]]),
    'limits:write-a|write-a_limits': ('lim', [[['write', 'b', 5.0]], [['write', 'b_limits', (0.0, 3.0)]]]),
    # float / enum pair
    'floatenum:assign-idx|assign-idx': ('fe', [[['assign', 'rng_idx', 1]], [['assign', 'rng_idx', 2]]]),
    'floatenum:write-float|assign-idx': ('fe', [[['write', 'rng', 0.9]], [['assign', 'rng_idx', 1]]]),
}
_cls = {}
HW = {}


def classes():
    if _cls:
        return _cls
    from frappy.core import Readable, Parameter, FloatRange
    from frappy.extparams import StructParam, FloatEnumParam

    def members():
        return {'p': Parameter('p', FloatRange(), default=0.0), 'i': Parameter('i', FloatRange(), default=0.0)}

    class RW(Readable):
        pid = StructParam('struct', members(), prefix='pid_', readonly=False)

        def read_value(self):
            return 0.0

        def read_pid(self):
            return dict(HW['pid'])

        def write_pid(self, value):
            HW['pid'] = dict(value)
            return dict(value)

    class Mem(Readable):
        pid = StructParam('struct', members(), prefix='pid_', readonly=False)

        def read_value(self):
            return 0.0

        def read_pid_p(self):
            return HW['pid']['p']

        def read_pid_i(self):
            return HW['pid']['i']

        def write_pid_p(self, value):
            HW['pid']['p'] = value
            return value

        def write_pid_i(self, value):
            HW['pid']['i'] = value
            return value

    class FE(Readable):
        rng = FloatEnumParam('range', ['1mV', '20mV', '1V'], 'V', readonly=False)

        def read_value(self):
            return 0.0

        def write_rng_idx(self, value):
            HW['idx'] = int(value)
            return value

        def read_rng_idx(self):
            return HW['idx']
    from frappy.params import Limit

    class Lim(Readable):
        a = Parameter('limited', FloatRange(0, 100), readonly=False, default=1.0)
        a_max = Limit()
        b = Parameter('limited by pair', FloatRange(0, 100), readonly=False, default=1.0)
        b_limits = Limit()

        def read_value(self):
            return 0.0

        def write_a(self, value):
            from vf.engines import schedx
            sc = schedx.active()
            if sc is not None:
                sc.point('yield', 'hardware')
            HW.setdefault('writes', []).append(('a', value, self.a_max))
            return value

        def write_b(self, value):
            from vf.engines import schedx
            sc = schedx.active()
            if sc is not None:
                sc.point('yield', 'hardware')
            HW.setdefault('writes', []).append(('b', value, self.b_limits[1]))
            return value
    _cls.update(rw=RW, mem=Mem, fe=FE, lim=Lim)
    return _cls


def execute(case, prefix):
    from vf.engines import schedx
    from vf.harness import nodeconc as N
    from vf import nodes
    import frappy.modulebase as MB
    MB.time = schedx.time_shim       # (the sequential part of C18 binds its own clock there; workers inherit it)
    kind, threads = CASES[case['name']]
    kinds = None if case['level'] == 'line' else {'acquire', 'tryacquire', 'release', 'spawn', 'join', 'yield', 'send'}
    sched = schedx.Scheduler(prefix, point_kinds=kinds, max_steps=8000)
    out = {}
    HW.clear()
    HW.update(pid={'p': 7.0, 'i': 8.0}, idx=0)
    errors = []

    def body():
        cfg = {'cls': classes()[kind]}
        if kind == 'lim':
            cfg.update(a_max={'value': 10.0}, b_limits={'value': (0.0, 10.0)})
        node = nodes.Node({'m': cfg})
        out['node'] = node
        mod = node.secnode.modules['m']
        obs = N.ObserverConn(sched, 'c3')
        node.dispatcher.add_connection(obs)
        node.request_msg(obs, ('activate', None, None))
        out['obs'] = obs
        sched.begin()

        def runner(ops):
            def run():
                for op in ops:
                    try:
                        if op[0] == 'assign':
                            setattr(mod, op[1], op[2])
                        elif op[0] == 'read':
                            getattr(mod, 'read_' + op[1])()
                        else:
                            getattr(mod, 'write_' + op[1])(op[2])
                    except Exception as e:      # noqa
                        errors.append((op, repr(e)))
            return run
        ts = [schedx.Thread(target=runner(ops), name=f'w{i}') for i, ops in enumerate(threads)]
        for t in ts:
            t.start()
        for t in ts:
            t.join()
        if kind == 'lim':
            out['final'] = {'a': mod.a, 'a_max': mod.a_max, 'b': mod.b}
            out['writes'] = list(HW.get('writes', []))
        elif kind == 'fe':
            out['final'] = {'rng': mod.rng, 'rng_idx': int(mod.rng_idx)}
        else:
            out['final'] = {'pid': dict(mod.pid), 'pid_p': mod.pid_p, 'pid_i': mod.pid_i}
        out['errs'] = {p: repr(mod.parameters[p].readerror) for p in out['final'] if mod.parameters[p].readerror}
        out['wire'] = {mod.parameters[p].export: p for p in out['final']}
    x = sched.run(body)
    viol = judge(case, kind, x, out, errors)
    if out.get('node') is not None:
        out['node'].close()
    return x, viol, out.get('final')


def judge(case, kind, x, out, errors):
    from vf.harness import nodeconc as N
    if x.deadlock:
        return [('conc:deadlock', x.deadlock)]
    if x.livelock:
        return [('conc:livelock', x.livelock)]
    for t in x.threads:
        if t.exc is not None:
            return [(f'conc:thread-died:{type(t.exc).__name__}', f'{t.name}: {t.exc!r}')]
    viol = []
    for op, e in errors:
        viol.append((f'conc:{op[0]}-raised', f'{op}: {e}'))
    # class of the history: pure attribute assignments (the update funnel alone must keep them atomic) or an
    # assignment racing with an access method (read_ / write_ hold the access lock, an assignment does not take it)
    opkinds = {op[0] for ops in CASES[case['name']][1] for op in ops}
    cls = ':assignment-racing-with-access-method' if 'assign' in opkinds and opkinds - {'assign'} else \
        (':concurrent-assignments' if opkinds == {'assign'} else ':concurrent-access-methods')
    final = out['final']
    if out['errs']:
        return viol         # a parameter in error shows no value (calibration of C18)
    if kind == 'lim':
        for e, (op, exc) in enumerate(errors):
            pass
        viol = [v for v in viol if 'RangeError' not in v[1]]        # a write refused because the limit came first is fine
        for pname, value, limit in out.get('writes', []):
            if value > limit:
                viol.append(('conc:limits:value-above-the-limit-in-force-reached-the-hardware' + cls,
                             f'write_{pname}({value}) while the limit in force was {limit}; final {final}'))
        return viol
    if kind == 'fe':
        if abs(final['rng'] - TABLE[final['rng_idx']]) > 1e-12:
            viol.append(('conc:floatenum:float-differs-from-value-of-index' + cls, f'final cache {final}'))
    else:
        if final['pid'] != {'p': final['pid_p'], 'i': final['pid_i']}:
            viol.append((f'conc:struct:{case["name"].split(":")[0]}:struct-differs-from-members' + cls, f'final cache {final}'))
    # the client's view
    last = {}
    for line in out['obs'].lines:
        k = N.msg_key(line)
        if k[0] == 'update' and k[1].startswith('m:') and k[1][2:] in out['wire']:
            last[out['wire'][k[1][2:]]] = k[2]
    for p, v in final.items():
        if p in last and last[p][0] == 'v' and json.loads(last[p][1]) != v:
            viol.append(('conc:last-update-differs-from-cache' + cls, f'{p}: last update {last[p][1]} but the cache holds {v!r} (final {final})'))
    return viol


def cases(tier):
    return [{'kind': 'conc', 'name': n, 'level': 'line', 'bound': 2 if tier == 'quick' else 3} for n in CASES]


def trace(case):
    from vf.engines import schedx
    import frappy.modulebase as MB
    schedx.trace_lines([MB.Module.announceUpdate])


def root_fn(case):
    from vf.engines import schedx
    trace(case)
    x1, _v, f1 = execute(case, [])
    x2, _v, f2 = execute(case, [])
    if x1.trace != x2.trace or f1 != f2:
        raise core.Inconclusive(f'C18 concurrent case {case["name"]}: the default schedule is not deterministic')
    part = core.Part()
    part.data.append([case['name'], schedx.first_level(x1, case['bound'], 0)])
    part.extra['points_in_default_schedule'] += len(x1.points)
    return part


def sub_fn(shard):
    from vf.engines import schedx
    case, prefix = shard
    part = core.Part()
    trace(case)

    def ex(pfx):
        x, viol, final = execute(case, pfx)
        part.evaluations += 1
        part.traces += 1
        part.transitions += x.steps
        part.fps |= x.fingerprints
        part.outcomes[case['name'].split(':')[0] + ':' + json.dumps(final, sort_keys=True)] += 1
        if x.preemptions:
            part.nontrivial += 1
        for sig, detail in viol:
            part.violation(f'C18:{sig}', dict(case, prefix=list(x.choices)), f'case {case["name"]} schedule {x.choices}: {detail}')
        if part.evaluations % 499 == 1:
            part.sample({'case': case['name'], 'schedule': list(x.choices), 'final': final})
        return x
    if prefix is None:
        ex([])
    else:
        schedx.explore(ex, case['bound'], prefix=prefix)
    part.extra['schedules'] += part.evaluations
    return part


def run_conc(ctx):
    cs = cases(ctx.tier)
    roots = ctx.pmap(root_fn, cs, name='conc_determinism')
    byname = {c['name']: c for c in cs}
    shards = []
    for name, prefixes in roots.data:
        shards.append((byname[name], None))
        shards += [(byname[name], p) for p in prefixes]
    ctx.total.data.clear()
    ctx.pmap(sub_fn, shards, name='concurrent_updates')
    ctx.coverage.update(concurrent_cases={c['name']: c['bound'] for c in cs})


def replay_conc(case):
    trace(case)
    part = core.Part()
    x, viol, final = execute(case, case['prefix'])
    for sig, detail in viol:
        part.violation(f'C18:{sig}', case, detail)
    part.notes.append(repr(final))
    part.evaluations = 1
    return part
