"""C09 - module classes, instances and configurations are isolated from each other.

enumx: explicit-state BFS over *programs* against the real frappy class / module machinery.  A program is data:

    {'family': <name>, 'steps': [['def', cid] | ['new', cid, cfgid] | ['mut', k, mid], ...]}

  def  creates the menu class `cid` with type(name, bases, dict) (vf.genmods.make_class -> the real
       HasAccessibles.__init_subclass__ / HasProperties.__init_subclass__), allowed once its menu bases exist
  new  instantiates class `cid` with configuration `cfgid` of the family in the program's node (a real SecNode /
       Dispatcher; the module is created by SecNode.get_module, the lazy path also used for attached modules).  All
       instances of a program created with configuration j share its inner per-accessible Param objects (a new outer
       dict each, as `common = dict(f=Param(..)); Mod('a', .., **common); Mod('b', .., **common)` in a cfg file); the
       configuration objects must be unchanged after every step
  mut  changes instance k at run time (setProperty on a datatype / member datatype / command argument / result, unit change,
       applyMainUnit, enum growth exactly as HasControlledBy.register_input does it, register_input itself,
       attribute assignment)

Every program of every family up to the depth bound is executed from scratch (live frappy objects do not deep-copy), all
definition and creation orders arise from the enumeration.  After the program's last step every class and instance alive is
observed and compared with the observation of the same entity built ALONE (differential oracle, no expected values):

  class     (order of accessibles, {name: aobj.for_export()}, module property table, the own properties of every accessible =
             what subclasses defined later merge from, datatypes by their export)
  instance  (describe of the module, internal table of all parameters/commands incl. unexported ones, accept/reject
             table of datatype.validate(import_value(x), previous) on a universal probe list for every parameter and
             command argument, then - impure, at the very end - replies to read / change / do requests through the
             real Dispatcher and the values handed to the recording fake driver)

"Alone" = only the entity's own class chain is defined (menu bases in menu order), then for an instance: created with
its configuration and its own mutations applied, in a process that has never defined any other menu class: a helper
process is forked from the worker before the worker defines its first class; for every distinct reference key it forks a
child which builds and observes (memoised per worker - a fork per reference key, not per step).  Class definition has
global side effects (wrapperClasses, check_<p> functions set on the class defining a Limit, Parameter objects of plain
mixins are merged in place), so independence can not be shown by construction.

Plus an object-identity walk over everything alive: accessibles -> Parameter/Command -> propertyValues /
ownProperties -> datatype -> members / enum / optional ...; an Accessible, DataType, Enum, dict or list object
reachable from two different owners (classes / instances) is reported.

Oracle calibration
  * Only differences between "among others" and "alone" are reported; whether the alone behaviour is right is C03/C06/C10.
  * A subclass's accessible referring to a datatype object of the same accessible of its base class (Command.merge hands on the
    inherited argument / result object without copying it) is counted as a latent hazard, not reported: only an observable
    change of the base class is a violation (it shows in the differential observation).
  * The module-global registries a class definition can write to (frappy.params.PREDEFINED_ACCESSIBLES, rwhandler.Handler.
    method_names, generalConfig.defaults) are compared before / after every def step: a change is counted as a latent hazard
    (outcome), a violation only when an observable difference of some class / instance follows.
  * The datatype object a program passes to the declarations of several classes ('shared' family) is an entity of its own: it
    must stay what the programmer wrote.  That several classes remember it in ownProperties is by design (latent, not reported);
    ownProperties differences of a class are not reported on top of a deviation of the shared object itself.
  * A class and its subclass legitimately share the *same* Accessible object for an accessible the subclass does not
    override (plain Python inheritance of the class attribute).  Objects reached through the very same Accessible
    object from two classes are therefore not reported by the identity walk; sharing between an instance and
    anything else, or between two classes through different Accessible objects, is.  Property *descriptors*
    (frappy.properties.Property) are class level by design and not walked.
  * The identity walk does not follow EnumMember *values* (a default / value taken from the base class's enum keeps a
    reference to that Enum: members and Enums are immutable, nothing can be changed through them).
  * An instance that deviates right at its creation while a class of its own chain deviates (already reported at the
    step that spoiled the class) is counted as explained by that class, not reported again.
  * The class-level observation is what a class describes (for_export of every accessible, in order) - not the raw
    internal `export` property: Command.clone() normalises export=True to the wire name on the class-level object at the
    first instantiation (fixExport, idempotent, no observable consequence).
  * A deviation is reported at the program whose last step caused it (the entity was fine, absent, or differently
    wrong after the program without its last step), not again at every extension of that program.
  * Error texts are compared by exception class only; module names are normalised (inst<k> -> instN).
  * The statement is about description, limits and behaviour: cached values are part of the behaviour tables only
    through read / change replies.
"""
import copy
import json
import logging
import os
import re
import sys

from vf import core

PROPERTY = 'C09'

# ---------------------------------------------------------------------------------------------------------------
# menus

F10 = ['double', {'min': 0, 'max': 10, 'unit': 'K'}]

FAMILIES = {
    # overriding by Parameter(...), bare value, None, inherit=False, command by plain method / decorated
    'params': {
        'prelude': [],
        'classes': {
            'B': {'bases': ['Module'], 'body': {
                'f': ['P', {'description': 'f', 'datatype': F10, 'readonly': False, 'default': 1}],
                'write_f': ['M', 'w:f'],
                'i': ['P', {'description': 'i', 'datatype': ['int', 0, 9], 'readonly': False, 'default': 2}],
                'e': ['P', {'description': 'e', 'datatype': ['enum', {'a': 1, 'b': 2}], 'readonly': False, 'default': 1}],
                's': ['P', {'description': 's', 'datatype': ['struct', {'x': ['double', {'min': 0, 'max': 5}],
                                                                      'y': ['string', {'maxchars': 4}]}, ['y']],
                            'readonly': False, 'default': {'x': 1, 'y': ''}}],
                'arr': ['P', {'description': 'arr', 'datatype': ['array', ['string', {'maxchars': 6}], 0, 3],
                              'readonly': False, 'default': []}],
                't': ['P', {'description': 't', 'datatype': ['tuple', [['int', 0, 3], ['bool']]], 'readonly': False,
                            'default': [0, False]}],
                'sc': ['P', {'description': 'sc', 'datatype': ['scaled', {'scale': 0.1, 'min': 0, 'max': 10}],
                             'readonly': False, 'default': 0}],
                'cmd': ['C', {'argument': ['double', {'min': 0, 'max': 10}], 'result': ['double', {'min': 0, 'max': 10}],
                              'description': 'cmd'}, 'echo'],
                'cs': ['C', {'argument': ['struct', {'a': ['int', 0, 5], 'b': ['string', {'maxchars': 3}]}, None],
                             'result': None, 'description': 'cs'}, 'kw:a,b?'],
            }},
            'S1': {'bases': ['B'], 'body': {
                'f': ['P', {'max': 5, 'unit': 'mK'}],
                'e': ['P', {'datatype': ['enum', {'a': 1, 'b': 2, 'c': 3}]}],
                'arr': ['P', {'maxchars': 3}],
            }},
            'S2': {'bases': ['B'], 'body': {'f': ['V', 3.0], 'i': ['V', 4], 'e': ['V', 2], 'arr': ['V', ['a']]}},
            'S3': {'bases': ['B'], 'body': {'i': ['N'], 'cmd': ['N']}},
            'S4': {'bases': ['B'], 'body': {
                'f': ['P', {'description': 'f4', 'datatype': ['double', {'min': -1, 'max': 1}], 'inherit': False}],
                'cmd': ['M', 'echo'],
                's': ['P', {'datatype': ['struct', {'x': ['double', {'min': 0, 'max': 3}], 'y': ['string', {'maxchars': 2}]}, None]}],
            }},
            'S7': {'bases': ['S1'], 'body': {'f': ['V', 2.0], 'e': ['V', 2], 'arr': ['V', ['b']]}},
            'S8': {'bases': ['B'], 'body': {'f': ['P', {'visibility': 'expert'}], 'e': ['P', {'readonly': True}],
                                            'arr': ['P', {'minlen': 1}], 'i': ['V', 5]}},
            'S5': {'bases': ['S1'], 'body': {'f': ['P', {'min': 1}], 'arr': ['P', {'maxlen': 2}], 'visibility': ['V', 'expert']}},
            'S6': {'bases': ['B'], 'body': {
                'cmd': ['C', {'argument': ['int', 0, 3], 'result': None, 'group': 'grp'}, 'echo'],
                'i': ['P', {'max': 5, 'readonly': True}],
                'group': ['V', 'modgrp'],
            }},
        },
        'instantiable': ['B', 'S1', 'S2', 'S3', 'S4', 'S5', 'S6', 'S7', 'S8'],
        'quick_instantiable': ['B', 'S1', 'S2', 'S4', 'S5', 'S7', 'S8'],
        'configs': [
            {},
            {'f': {'max': 7.0, 'unit': 'C'}, 'i': {'value': 3}},
            {'f': {'value': 2.0, 'readonly': True}, 'e': {'value': 2}, 'visibility': 'expert'},
            {'f': {'export': False}, 'sc': {'export': 'scaled'}, 'arr': {'maxlen': 2}, 's': {'visibility': 'advanced'},
             'cmd': {'visibility': 'expert', 'export': 'run'}},
            {'export': False, 'f': {'min': 1}},
        ],
        'quick_configs': [0, 1, 2, 3],
        'mutations': {
            'fmax': {'needs': ['f'], 'op': ['setprop', 'f', [], 'max', 4.0]},
            'funit': {'needs': ['f'], 'op': ['setprop', 'f', [], 'unit', 'X']},
            'arrchars': {'needs': ['arr'], 'op': ['setprop', 'arr', [], 'maxchars', 2]},
            'sx': {'needs': ['s'], 'op': ['setprop', 's', ['x'], 'max', 2.0]},
            't0': {'needs': ['t'], 'op': ['setprop', 't', [0], 'max', 1]},
            'egrow': {'needs': ['e'], 'op': ['enumgrow', 'e', 'z']},
            'assign': {'needs': ['f'], 'op': ['assign', 'f', 0.5]},
            'cmdarg': {'needs': ['cmd'], 'op': ['cmdarg', 'cmd', [], 'max', 3]},
            'csarg': {'needs': ['cs'], 'op': ['cmdarg', 'cs', ['a'], 'max', 2]},
            'cmdres': {'needs': ['cmd'], 'op': ['cmdres', 'cmd', [], 'max', 3]},
        },
        'quick_mutations': ['fmax', 'arrchars', 'sx', 't0', 'egrow', 'assign', 'cmdarg', 'csarg', 'cmdres'],
    },
    # plain mixins (not derived from HasAccessibles), Feature mixins, diamond
    'mixin': {
        'prelude': ['MixP', 'Feat', 'B1', 'B2'],
        'classes': {
            'MixP': {'bases': ['object'], 'body': {
                'f': ['P', {'max': 8}],
                'h': ['P', {'description': 'h', 'datatype': ['double', {'min': 0, 'max': 1}], 'default': 0, 'readonly': False}],
            }},
            'Feat': {'bases': ['Feature'], 'body': {
                'k': ['P', {'description': 'k', 'datatype': ['int', 0, 5], 'default': 0, 'readonly': False}],
                'g': ['P', {'min': 1}],
            }},
            'B1': {'bases': ['Module'], 'body': {
                'f': ['P', {'description': 'f', 'datatype': F10, 'readonly': False, 'default': 1}],
                'g': ['P', {'description': 'g', 'datatype': ['int', 0, 9], 'readonly': False, 'default': 2}],
                'cmd': ['C', {'argument': ['double', {'min': 0, 'max': 10}], 'result': None, 'description': 'cmd'}, 'echo'],
            }},
            'B2': {'bases': ['Module'], 'body': {
                'f': ['P', {'description': 'f2', 'datatype': ['int', 0, 20], 'readonly': False, 'default': 2}],
                'g': ['P', {'description': 'g2', 'datatype': ['double', {'min': 0, 'max': 50}], 'readonly': False, 'default': 3}],
            }},
            'X1': {'bases': ['MixP', 'B1'], 'body': {}},
            'X2': {'bases': ['MixP', 'B2'], 'body': {}},
            'Y1': {'bases': ['Feat', 'B1'], 'body': {}},
            'Y2': {'bases': ['Feat', 'B2'], 'body': {}},
            'L': {'bases': ['B1'], 'body': {'f': ['P', {'min': 1}]}},
            'R': {'bases': ['B1'], 'body': {'f': ['P', {'max': 9}], 'g': ['V', 5]}},
            'D': {'bases': ['L', 'R'], 'body': {}},
        },
        'instantiable': ['B1', 'B2', 'X1', 'X2', 'Y1', 'Y2', 'L', 'R', 'D'],
        'quick_instantiable': ['B1', 'X1', 'X2', 'Y1', 'L', 'D'],
        'configs': [
            {},
            {'f': {'max': 6, 'value': 2}},
            {'g': {'value': 4, 'max': 8}, 'visibility': 'advanced'},
        ],
        'quick_configs': [0, 1],
        'mutations': {
            'fmax': {'needs': ['f'], 'op': ['setprop', 'f', [], 'max', 4]},
            'gmin': {'needs': ['g'], 'op': ['setprop', 'g', [], 'min', 2]},
            'hmax': {'needs': ['h'], 'op': ['setprop', 'h', [], 'max', 0.25]},
            'kmax': {'needs': ['k'], 'op': ['setprop', 'k', [], 'max', 2]},
            'assign': {'needs': ['g'], 'op': ['assign', 'g', 3]},
        },
        'quick_mutations': ['fmax', 'hmax', 'kmax'],
    },
    # frappy's own plain mixin HasControlledBy on different Writable bases; run-time enum growth by register_input
    'ctl': {
        'prelude': [],
        'classes': {
            'H1': {'bases': ['HasControlledBy', 'Writable'], 'body': {'write_target': ['M', 'w:target']}},
            'W2': {'bases': ['Writable'], 'body': {
                'value': ['P', {'datatype': ['int', 0, 50], 'default': 0}],
                'target': ['P', {'datatype': ['int', 0, 50], 'default': 0}],
            }},
            'H2': {'bases': ['HasControlledBy', 'W2'], 'body': {}},
            'H3': {'bases': ['HasControlledBy', 'Drivable'], 'body': {
                'value': ['P', {'unit': 'K'}],
                'target': ['P', {'max': 300}],
            }},
            'H4': {'bases': ['H1'], 'body': {'controlled_by': ['V', 0], 'target': ['P', {'min': -5, 'max': 5}]}},
        },
        'instantiable': ['H1', 'W2', 'H2', 'H3', 'H4'],
        'configs': [
            {},
            {'target': {'max': 40, 'min': 0}, 'value': {'unit': 'C'}},
        ],
        'quick_configs': [0, 1],
        'mutations': {
            'reg': {'needs': ['controlled_by'], 'op': ['register', 'ctl']},
            'tmax': {'needs': ['target'], 'op': ['setprop', 'target', [], 'max', 30]},
            'vunit': {'needs': ['value'], 'op': ['setprop', 'value', [], 'unit', 'X']},
            'assign': {'needs': ['target'], 'op': ['assign', 'target', 3]},
        },
        'quick_mutations': ['reg', 'tmax', 'vunit'],
    },
    # module properties (group / visibility / pollinterval) overridden by bare values at two levels of a three-level hierarchy,
    # with siblings of the intermediate and of the leaf class; bare-value override of the *parameter* pollinterval likewise
    'props': {
        'prelude': [],
        'classes': {
            'A': {'bases': ['Module'], 'body': {
                'f': ['P', {'description': 'f', 'datatype': F10, 'readonly': False, 'default': 1}],
            }},
            'A1': {'bases': ['A'], 'body': {'group': ['V', 'service'], 'visibility': ['V', 'advanced'], 'pollinterval': ['V', 2.0]}},
            'A2': {'bases': ['A1'], 'body': {'group': ['V', 'factory'], 'visibility': ['V', 'expert'], 'pollinterval': ['V', 3.0]}},
            'A3': {'bases': ['A1'], 'body': {'f': ['V', 2.0]}},
            'A4': {'bases': ['A'], 'body': {'group': ['V', 'other']}},
            'R1': {'bases': ['Readable'], 'body': {'pollinterval': ['V', 2.0], 'visibility': ['V', 'advanced']}},
            'R2': {'bases': ['R1'], 'body': {'pollinterval': ['V', 3.0], 'visibility': ['V', 'expert'], 'group': ['V', 'deep']}},
        },
        'instantiable': ['A', 'A1', 'A2', 'A3', 'A4', 'R1', 'R2'],
        'configs': [
            {},
            {'group': 'cfg', 'visibility': 'user'},
            {'pollinterval': 4.0, 'f': {'max': 5}},
        ],
        'quick_configs': [0, 1],
        'mutations': {
            'fmax': {'needs': ['f'], 'op': ['setprop', 'f', [], 'max', 4.0]},
            'assign': {'needs': ['f'], 'op': ['assign', 'f', 0.5]},
            'pimax': {'needs': ['pollinterval'], 'op': ['setprop', 'pollinterval', [], 'max', 60.0]},
        },
        'quick_mutations': ['fmax', 'pimax'],
    },
    # commands with struct arguments (mandatory and optional members) overridden by decorated methods with other defaulted
    # keyword parameters (argument inherited / given anew), by plain methods and by **kwds methods
    'cmds': {
        'prelude': [],
        'classes': {
            'K': {'bases': ['Module'], 'body': {
                'f': ['P', {'description': 'f', 'datatype': F10, 'readonly': False, 'default': 1}],
                'cs': ['C', {'argument': ['struct', {'a': ['int', 0, 5], 'b': ['string', {'maxchars': 3}]}, None],
                             'result': None, 'description': 'cs'}, 'kw:a,b?'],
                'cm': ['C', {'argument': ['struct', {'x': ['double', {'min': 0, 'max': 5}], 'y': ['double', {'min': 0, 'max': 10}]}, None],
                             'result': ['double', {}], 'description': 'cm'}, 'kw:x,y'],
            }},
            'K1': {'bases': ['K'], 'body': {'cs': ['C', {}, 'kw:a?,b?'], 'cm': ['C', {}, 'kw:x,y?']}},
            'K2': {'bases': ['K'], 'body': {'cs': ['M', 'kw:a,b'], 'cm': ['M', 'kw:x?,y?']}},
            'K3': {'bases': ['K'], 'body': {'cs': ['C', {'group': 'g'}, 'kwargs'], 'cm': ['C', {'visibility': 'expert'}, 'kw:x,y']}},
            'K4': {'bases': ['K'], 'body': {
                'cm': ['C', {'argument': ['struct', {'x': ['double', {'min': 0, 'max': 2}], 'y': ['double', {'min': 0, 'max': 10}]}, None]},
                       'kw:y,x?'],
            }},
            'K5': {'bases': ['K1'], 'body': {'cs': ['C', {}, 'kw:a,b'], 'cm': ['M', 'kw:x,y']}},
        },
        'instantiable': ['K', 'K1', 'K2', 'K3', 'K4', 'K5'],
        'configs': [
            {},
            {'cs': {'visibility': 'advanced'}, 'f': {'value': 2}},
        ],
        'quick_configs': [0, 1],
        'mutations': {
            'csarg': {'needs': ['cs'], 'op': ['cmdarg', 'cs', ['a'], 'max', 2]},
            'cmarg': {'needs': ['cm'], 'op': ['cmdarg', 'cm', ['y'], 'max', 3.0]},
            'csopt': {'needs': ['cs'], 'op': ['cmdopt', 'cs', ['a', 'b']]},
        },
        'quick_mutations': ['csarg', 'cmarg', 'csopt'],
    },
    # control loops: every controller (HasOutputModule) is created together with an output module (HasControlledBy) of its own;
    # taking control / setting the output manually on one loop must not be noticed by the other loops
    'loops': {
        'prelude': ['Heater', 'Loop'],
        'classes': {
            'Heater': {'bases': ['HasControlledBy', 'Writable'], 'body': {
                'value': ['P', {'datatype': ['double', {'min': 0, 'max': 100, 'unit': 'W'}], 'default': 0}],
                'target': ['P', {'datatype': ['double', {'min': 0, 'max': 100, 'unit': 'W'}], 'default': 0}],
                'write_target': ['M', 'wout'],
            }},
            'Loop': {'bases': ['HasOutputModule', 'Writable'], 'body': {
                'value': ['P', {'datatype': ['double', {'min': 0, 'unit': 'K'}], 'default': 0}],
                'target': ['P', {'datatype': ['double', {'min': 0, 'unit': 'K'}], 'default': 0}],
                'write_target': ['M', 'wloop'],
            }},
            'LoopB': {'bases': ['Loop'], 'body': {'target': ['P', {'max': 500}], 'control_active': ['V', False]}},
            'HeaterB': {'bases': ['Heater'], 'body': {'target': ['P', {'max': 50}]}},
        },
        'instantiable': ['Loop', 'LoopB', 'Heater', 'HeaterB'],
        # '+output': the instance is created together with an output module <name>_out of that class / configuration
        'configs': [
            {'+output': {'cls': 'Heater', 'cfg': {}}},
            {'+output': {'cls': 'Heater', 'cfg': {'target': {'max': 80}}}, 'target': {'max': 300}},
            {'+output': {'cls': 'HeaterB', 'cfg': {}}},
            {},
            {'target': {'max': 40}},
        ],
        'configs_for': {'Loop': [0, 1, 2], 'LoopB': [0, 1, 2], 'Heater': [3, 4], 'HeaterB': [3, 4]},
        'quick_configs': [0, 1, 3],
        'mutations': {
            'take': {'needs': ['control_active'], 'op': ['call', '', 'write_target', 20.0]},
            'manual': {'needs': ['control_active'], 'op': ['call', '_out', 'write_target', 10.0]},
            'set': {'needs': ['controlled_by'], 'op': ['call', '', 'write_target', 5.0]},
            'reg': {'needs': ['controlled_by'], 'op': ['register', 'ctl']},
            'tmax': {'needs': ['target'], 'op': ['setprop', 'target', [], 'max', 30]},
        },
        'quick_mutations': ['take', 'manual', 'set', 'reg'],
    },
    # Limit parameters defined in plain mixins shared by classes with different limit sets (the generated check_<p> is attached to
    # the class defining the limit); limits of predefined parameters next to unrelated roots with an ordinary parameter of that name
    'limits': {
        'prelude': ['Bx', 'LowLimit', 'HighLimit', 'RangeLimit'],
        'classes': {
            'Bx': {'bases': ['Module'], 'body': {
                'x': ['P', {'description': 'x', 'datatype': ['double', {'min': -100, 'max': 100}], 'readonly': False, 'default': 5}],
            }},
            'LowLimit': {'bases': ['object'], 'body': {'x_min': ['L', {}]}},
            'HighLimit': {'bases': ['object'], 'body': {'x_max': ['L', {}]}},
            'RangeLimit': {'bases': ['object'], 'body': {'x_limits': ['L', {}]}},
            'Both': {'bases': ['LowLimit', 'HighLimit', 'Bx'], 'body': {}},
            'LowOnly': {'bases': ['LowLimit', 'Bx'], 'body': {}},
            'HighOnly': {'bases': ['HighLimit', 'Bx'], 'body': {'write_x': ['M', 'w:x']}},
            'Lims': {'bases': ['RangeLimit', 'Bx'], 'body': {}},
            'LowLims': {'bases': ['RangeLimit', 'LowLimit', 'Bx'], 'body': {}},
            'Mot': {'bases': ['Drivable'], 'body': {'target_max': ['L', {}], 'value_min': ['L', {}], 'write_target': ['M', 'w:target']}},
            'Stg': {'bases': ['Drivable'], 'body': {
                'target_max': ['P', {'description': 'highest target so far', 'datatype': ['double', {}], 'default': 0}],
                'value_min': ['P', {'description': 'lowest value so far', 'datatype': ['double', {}], 'default': 0}],
                'x_min': ['P', {'description': 'an ordinary parameter', 'datatype': ['double', {}], 'default': 0, 'readonly': False}],
            }},
        },
        'instantiable': ['Bx', 'Both', 'LowOnly', 'HighOnly', 'Lims', 'LowLims', 'Mot', 'Stg'],
        'quick_instantiable': ['Both', 'LowOnly', 'HighOnly', 'Stg'],
        'configs': [
            {},
            {'x_min': {'value': 2}},
            {'x_max': {'value': 8}},
            {'x_limits': {'value': [1, 9]}},
            {'target_max': {'value': 50}},
            {'x_min': {'value': 2}, 'x_max': {'value': 8}},
        ],
        'configs_for': {'Bx': [0], 'Both': [0, 1, 2, 5], 'LowOnly': [0, 1], 'HighOnly': [0, 2], 'Lims': [0, 3], 'LowLims': [0, 1, 3],
                        'Mot': [0, 4], 'Stg': [0, 4]},
        'quick_configs': [0, 1, 2, 4],
        'mutations': {
            'setmin': {'needs': ['x_min', 'x'], 'op': ['assign', 'x_min', 3]},
            'setmax': {'needs': ['x_max', 'x'], 'op': ['assign', 'x_max', 6]},
            'setlim': {'needs': ['x_limits'], 'op': ['assign', 'x_limits', [2, 7]]},
            'tmax': {'needs': ['target_max'], 'op': ['assign', 'target_max', 40]},
        },
        'quick_mutations': ['setmin', 'setmax', 'tmax'],
    },
    # datatype OBJECTS shared by the declarations of several unrelated classes (module level constants of a driver), passed to
    # Parameter(...) with and without datatype property keywords, to Command(argument=, result=); container parameters whose
    # member properties are set through the parameter (keyword, subclass override, configuration)
    'shared': {
        'prelude': [],
        'constants': {
            'PERCENT': ['double', {'min': 0, 'max': 100, 'unit': '%'}],
            'TRACE': ['array', ['double', {}], 0, 16],
        },
        'classes': {
            'Va': {'bases': ['Module'], 'body': {
                'opening': ['P', {'description': 'valve opening', 'datatype': ['shared', 'PERCENT'], 'default': 0, 'readonly': False}],
            }},
            'He': {'bases': ['Module'], 'body': {
                'power': ['P', {'description': 'heater power', 'datatype': ['shared', 'PERCENT'], 'max': 5, 'default': 0,
                                'readonly': False}],
            }},
            'Hu': {'bases': ['Module'], 'body': {
                'level': ['P', {'description': 'level', 'datatype': ['shared', 'PERCENT'], 'unit': 'ppm', 'default': 0}],
                'run': ['C', {'argument': ['shared', 'PERCENT'], 'result': ['shared', 'PERCENT'], 'description': 'run'}, 'echo'],
            }},
            'Sp': {'bases': ['Module'], 'body': {
                'spectrum': ['P', {'description': 'intensities', 'datatype': ['array', ['double', {}], 0, 16], 'unit': 'cts', 'min': 0,
                                   'default': []}],
                'window': ['P', {'description': 'window', 'datatype': ['array', ['double', {'min': 0, 'max': 2000}], 2, 2],
                                 'default': [0, 0], 'readonly': False}],
                'image': ['P', {'description': 'nested', 'datatype': ['array', ['array', ['double', {}], 0, 2], 0, 2], 'unit': 'px',
                                'default': []}],
            }},
            'Sp2': {'bases': ['Sp'], 'body': {'spectrum': ['P', {'max': 100}], 'window': ['P', {'unit': 'nm'}]}},
            'Un': {'bases': ['Module'], 'body': {
                'trace': ['P', {'description': 'a trace', 'datatype': ['shared', 'TRACE'], 'default': []}],
                'pair': ['P', {'description': 'tuple with an array', 'datatype': ['tuple', [['int', 0, 3], ['array', ['double', {}], 0, 2]]],
                               'default': [0, []]}],
            }},
            'Tr': {'bases': ['Module'], 'body': {
                'trace': ['P', {'description': 'another trace', 'datatype': ['shared', 'TRACE'], 'unit': 'V', 'maxlen': 4, 'default': []}],
            }},
        },
        'instantiable': ['Va', 'He', 'Hu', 'Sp', 'Sp2', 'Un', 'Tr'],
        'configs': [
            {},
            {'opening': {'max': 50}},
            {'power': {'unit': 'W'}},
            {'window': {'unit': 'nm', 'max': 1500}, 'spectrum': {'max': 1000}},
            {'trace': {'max': 10}},
        ],
        'configs_for': {'Va': [0, 1], 'He': [0, 2], 'Hu': [0], 'Sp': [0, 3], 'Sp2': [0, 3], 'Un': [0, 4], 'Tr': [0, 4]},
        'quick_configs': [0, 1, 3, 4],
        'mutations': {
            'omax': {'needs': ['opening'], 'op': ['setprop', 'opening', [], 'max', 30]},
            'tmin': {'needs': ['trace'], 'op': ['setprop', 'trace', [], 'min', -1]},
            'wunit': {'needs': ['window'], 'op': ['setprop', 'window', [], 'unit', 'um']},
        },
        'quick_mutations': ['omax', 'tmin'],
    },
    # main unit, status enum extension, Limit parameters (check_ functions are attached to the defining class)
    'units': {
        'prelude': [],
        'classes': {
            'Dr': {'bases': ['Drivable'], 'body': {
                'value': ['P', {'datatype': ['double', {'min': 0, 'max': 100, 'unit': 'K'}]}],
                'target': ['P', {'datatype': ['double', {'min': 0, 'max': 100, 'unit': '$'}]}],
                'ramp': ['P', {'description': 'ramp', 'datatype': ['double', {'min': 0, 'unit': '$/min'}], 'default': 0,
                               'readonly': False}],
                'status': ['P', {'datatype': ['status', 'Drivable', ['PREPARING']]}],
                'target_max': ['L', {}],
                'userlimits': ['P', {'description': 'user limits', 'datatype': ['limits', ['double', {'unit': '$'}]],
                                     'default': [-1e9, 1e9], 'readonly': False}],
            }},
            'Dr2': {'bases': ['Dr'], 'body': {'value': ['P', {'unit': 'mm'}], 'stop': ['M', 'doc:plain stop']}},
            'Dr3': {'bases': ['Dr'], 'body': {'status': ['P', {'datatype': ['status', 'Drivable', ['WARN_STANDBY']]}],
                                              'ramp': ['N'], 'target_min': ['L', {}]}},
            'Lm': {'bases': ['Module'], 'body': {
                'a': ['P', {'description': 'a', 'datatype': ['double', {'min': -10, 'max': 10}], 'readonly': False, 'default': 0}],
                'a_min': ['L', {}], 'a_max': ['L', {}],
                'b': ['P', {'description': 'b', 'datatype': ['int', 0, 8], 'readonly': False, 'default': 0}],
                'check_b': ['M', 'chk:b:6'],
            }},
            'Lm2': {'bases': ['Lm'], 'body': {'a': ['P', {'max': 5}], 'b_max': ['L', {}], 'check_b': ['M', 'chk:b:4']}},
        },
        'instantiable': ['Dr', 'Dr2', 'Dr3', 'Lm', 'Lm2'],
        'configs': [
            {},
            {'value': {'unit': 'C'}, 'target': {'max': 50}},
            {'a': {'min': -2}, 'a_max': {'value': 3}},
        ],
        'quick_configs': [0, 1, 2],
        'mutations': {
            'vunit': {'needs': ['value'], 'op': ['setprop', 'value', [], 'unit', 'X']},
            'mainunit': {'needs': ['ramp'], 'op': ['mainunit', 'mm']},
            'tmax': {'needs': ['target'], 'op': ['setprop', 'target', [], 'max', 30]},
            'amax': {'needs': ['a'], 'op': ['setprop', 'a', [], 'max', 1]},
            'assign': {'needs': ['a_max'], 'op': ['assign', 'a_max', 2]},
            'status': {'needs': ['status'], 'op': ['statusgrow', 'UNSTABLE']},
            'ulmax': {'needs': ['userlimits'], 'op': ['setprop', 'userlimits', [0], 'max', 360.0]},
        },
        'quick_mutations': ['vunit', 'tmax', 'amax', 'assign', 'status', 'ulmax'],
    },
}

PROBES = [None, True, 0, 1, 2, 3, 4, 5, 7, 9, 10, 11, 20, 21, 45, 100, 350, -1, -3, -10, 0.25, 0.5, 1.5, 2.5, 4.5, 8.5, 9.5,
          10.5, 1e9, '', 'a', 'b', 'c', 'z', 'ctl', 'self', 'abc', 'abcde', 'abcdefg',
          [], [1], [1, True], [3, False], [4, True], ['a'], ['abc'], ['abcdefg'], ['a', 'b'], ['a', 'b', 'c'],
          ['a', 'b', 'c', 'd'], [100, ''], [150, 'x'], [270, ''], [230, ''],
          {'x': 1}, {'x': 2.5}, {'x': 4}, {'x': 1, 'y': 'abc'}, {'x': 1, 'y': 'abcd'}, {'x': 1, 'y': 'abcde'}, {'y': 'a'},
          {'a': 1}, {'a': 3, 'b': 'ab'}, {'a': 6}, {'a': 1, 'b': 'abcd'}, {}]
CHANGE_PROBES = [0, 1, 3, 4.5, 8.5, 11, 35, 'b', 'z', 'ctl', ['abc'], ['a', 'b', 'c'], {'x': 1}, {'x': 2.5, 'y': 'ab'}, [1, True]]


def wire_candidates(fam):
    """every wire name an accessible of the family can have: <name> and _<name> of every accessible of every class, and the
    custom names given in the configurations - a static set, the same for a program and for the alone build"""
    names = set()
    for rec in fam['classes'].values():
        for attr, item in rec['body'].items():
            if item[0] in ('P', 'L', 'C', 'V', 'M', 'N', 'PP') and not attr.startswith(('write_', 'read_', 'check_', 'do')):
                names.update((attr, '_' + attr))
    for b in ('value', 'status', 'target', 'pollinterval', 'stop', 'controlled_by', 'control_active'):
        names.add(b)

    def scan(cfg):
        for v in cfg.values():
            if isinstance(v, dict):
                if isinstance(v.get('export'), str):
                    names.add(v['export'])
                scan(v)
    for cfg in fam['configs']:
        scan(cfg)
    return sorted(names)


DO_PROBES = CHANGE_PROBES[:6] + [{'a': 1}, {'a': 3, 'b': 'ab'}, {'b': 'x'}, {'x': 1}, {'x': 1, 'y': 2}, {'y': 2}, None]
MAX_INSTANCES = 3


def plans(tier):
    """family -> list of (view, depth, min_len): explore all programs of the view ('quick' = the reduced menus, 'full' = all
    configurations / mutations / instantiable classes) up to `depth` steps and judge those with >= min_len steps"""
    if tier == 'quick':
        return {f: [('quick', 4, 0)] for f in FAMILIES}
    res = {f: [('full', 5, 0)] for f in FAMILIES}
    # the mixin, loops and limits families are the widest ones: the full menus to 4 steps, then the reduced menus one step deeper (the programs
    # of <= 4 steps of the reduced menus are among those of the full menus and are not judged twice)
    res['mixin'] = [('full', 4, 0), ('quick', 5, 5)]
    res['loops'] = [('full', 4, 0), ('quick', 5, 5)]
    res['limits'] = [('full', 4, 0), ('quick', 5, 5)]
    return res


def fam_view(family, view):
    fam = FAMILIES[family]
    if view == 'quick':
        return fam['quick_configs'], fam['quick_mutations']
    return list(range(len(fam['configs']))), list(fam['mutations'])


def instantiable(family, view):
    fam = FAMILIES[family]
    return fam.get('quick_instantiable', fam['instantiable']) if view == 'quick' else fam['instantiable']


def chain(fam, cid):
    """cid's menu ancestors and cid itself, in menu order"""
    need = set()

    def add(c):
        if c in fam['classes'] and c not in need:
            need.add(c)
            for b in fam['classes'][c]['bases']:
                add(b)
    add(cid)
    return [c for c in fam['classes'] if c in need]


# ---------------------------------------------------------------------------------------------------------------
# the world of one program

DIRTY = [False]     # this process has defined menu classes (it can not serve as a clean reference any more)


def exc_name(e):
    return type(e).__name__


def dtexp(dt):
    if dt is None:
        return None
    try:
        return dt.export_datatype()
    except Exception as e:
        return f'exc:{exc_name(e)}'


def class_wire_name(aobj):
    """the name under which modules of the class export the accessible (export=True is resolved as Accessible.fixExport does it:
    Command.clone resolves it on the class-level object only at the first instantiation)"""
    from frappy.params import PREDEFINED_ACCESSIBLES
    e = getattr(aobj, 'export', None)
    if e is True:
        name = getattr(aobj, 'name', None)
        return name if PREDEFINED_ACCESSIBLES.get(name) is not None else f'_{name}'
    return repr(e) if not isinstance(e, str) else e


def registries():
    """the module-global registries of frappy a class definition can write to (wrapperClasses is keyed by class: by design)"""
    from frappy import params, rwhandler
    from frappy.lib import generalConfig
    from frappy import datatypes

    def subclasses(c):
        for sc in c.__subclasses__():
            yield sc
            yield from subclasses(sc)
    dtprops = sorted((c.__module__ + '.' + c.__name__, sorted(c.propertyDict)) for c in set(subclasses(datatypes.DataType)))
    return {'propertyDict of the DataType classes': dtprops,
            'PREDEFINED_ACCESSIBLES': sorted(params.PREDEFINED_ACCESSIBLES),
            'rwhandler.Handler.method_names': len(rwhandler.Handler.method_names),
            'generalConfig.defaults': sorted(generalConfig.defaults)}


def own_properties(aobj):
    from frappy.datatypes import DataType
    res = []
    for k, v in (aobj.ownProperties or {}).items():
        res.append([k, dtexp(v) if isinstance(v, DataType) else repr(v)])
    return res


def safe(fn, *args):
    try:
        return fn(*args)
    except Exception as e:
        return f'exc:{exc_name(e)}'


class World:
    def __init__(self, family):
        from vf import genmods, nodes
        self.G, self.family = genmods, family
        self.fam = FAMILIES[family]
        self.env = {}
        self.deferr = {}
        self.node = nodes.Node({}, start=False, name='c09node')
        self.quiet()
        self.conn = self.node.connect()
        self.insts = []
        self.transitions = 0
        # the configuration objects of the program: one object per configuration of the family, as a cfg file has it
        # (common = dict(f=Param(...)); Mod('a', ..., **common); Mod('b', ..., **common)): every instance created with
        # configuration j gets a new outer dict, the inner per-accessible Param objects are the same objects
        self.cfgobjs = {}
        self.cfgsnap = {}
        self.registry_changes = []
        # the datatype objects several declarations of the program share (fresh ones for every program)
        self.constants = {n: self.G.dt(spec) for n, spec in self.fam.get('constants', {}).items()}
        for cid in self.fam['prelude']:
            self.define(cid)

    def close(self):
        self.node.close()

    def quiet(self):
        """debug records of every request are not needed here (mlzlog children get their own level)"""
        prefix = self.node.log.name
        for name, lg in list(logging.Logger.manager.loggerDict.items()):
            if name.startswith(prefix) and isinstance(lg, logging.Logger):
                lg.setLevel(logging.WARNING)

    # --- steps
    def define(self, cid):
        DIRTY[0] = True
        self.transitions += 1
        before = registries()
        self.G.SHARED.clear()
        self.G.SHARED.update(self.constants)
        try:
            self.env[cid] = self.G.make_class(cid, self.fam['classes'][cid], self.env)
        except Exception as e:
            self.env[cid] = None
            self.deferr[cid] = exc_name(e)
        after = registries()
        # a registry changed by a class definition is the mechanism of an order dependence: latent, counted; a violation only
        # when an observable difference follows (differential observation)
        self.registry_changes += [k for k in before if before[k] != after[k]]

    def new(self, cid, cfgid):
        self.transitions += 1
        name = f'inst{len(self.insts)}'
        inst = {'name': name, 'cid': cid, 'cfgid': cfgid, 'muts': [], 'obj': None, 'refused': None, 'mutout': [], 'companions': {}}
        self.insts.append(inst)
        cls = self.env.get(cid)
        if cls is None:
            inst['refused'] = ['no class']
            return
        cfg = dict(self.config_object(cfgid))
        cfg['cls'] = cls
        cfg.setdefault('description', 'generated')
        out = cfg.pop('+output', None)
        if out is not None:
            # the instance comes with an output module of its own (created by the server when the instance asks for it)
            oname = name + '_out'
            ocfg = {k: (dict(v) if isinstance(v, dict) else v) for k, v in out['cfg'].items()}
            ocfg.update(cls=self.env.get(out['cls']), description='generated output')
            self.node.module_cfg[oname] = ocfg
            cfg['output_module'] = oname
        self.node.module_cfg[name] = cfg
        sec = self.node.secnode
        nerr = len(sec.errors)
        try:
            obj = sec.get_module(name)
        except Exception as e:
            obj = None
            sec.errors.append(f'raised {exc_name(e)}')
        self.quiet()
        if obj is None or len(sec.errors) > nerr:
            inst['refused'] = [re.sub(r'\s+', ' ', t.strip())[:200] for t in sec.errors[nerr:]] or ['no module']
            if obj is not None:     # registered although errors were collected: keep it observable
                inst['obj'] = obj
        else:
            inst['obj'] = obj
        if out is not None and sec.modules.get(name + '_out') is not None:
            inst['companions']['_out'] = sec.modules[name + '_out']

    def config_object(self, cfgid):
        from frappy.config import Param
        if cfgid not in self.cfgobjs:
            obj = {}
            for key, val in copy.deepcopy(self.fam['configs'][cfgid]).items():
                if isinstance(val, dict) and not key.startswith('+'):
                    val = Param(val.pop('value'), **val) if 'value' in val else Param(**val)
                obj[key] = val
            self.cfgobjs[cfgid] = obj
            self.cfgsnap[cfgid] = json.dumps(obj, default=repr)
        return self.cfgobjs[cfgid]

    def changed_configs(self):
        """configuration objects which are not what they were when they were written"""
        return [(cfgid, self.cfgsnap[cfgid], json.dumps(obj, default=repr)) for cfgid, obj in self.cfgobjs.items()
                if json.dumps(obj, default=repr) != self.cfgsnap[cfgid]]

    def mutate(self, k, mid):
        self.transitions += 1
        inst = self.insts[k]
        inst['muts'].append(mid)
        obj = inst['obj']
        if obj is None:
            inst['mutout'].append('no object')
            return
        op = self.fam['mutations'][mid]['op']
        try:
            if op[0] == 'call':      # a driver / dispatcher level call on the instance ('') or on its companion module
                target = obj if op[1] == '' else inst['companions'][op[1]]
                getattr(target, op[2])(*op[3:])
            else:
                self._apply(obj, op)
            inst['mutout'].append('ok')
        except Exception as e:
            inst['mutout'].append(f'exc:{exc_name(e)}')

    @staticmethod
    def _descend(dt, path):
        for p in path:
            dt = dt.members[p]
        return dt

    def _apply(self, obj, op):
        from frappy.datatypes import EnumType, StatusType
        from frappy.lib.enum import Enum
        kind = op[0]
        if kind == 'setprop':
            self._descend(obj.parameters[op[1]].datatype, op[2]).setProperty(op[3], op[4])
        elif kind == 'cmdarg':
            self._descend(obj.commands[op[1]].argument, op[2]).setProperty(op[3], op[4])
        elif kind == 'cmdopt':     # the optional members of a struct argument are assigned anew
            obj.commands[op[1]].argument.optional = list(op[2])
        elif kind == 'cmdres':
            self._descend(obj.commands[op[1]].result, op[2]).setProperty(op[3], op[4])
        elif kind == 'enumgrow':    # literally what HasControlledBy.register_input does
            prev_enum = obj.parameters[op[1]].datatype.export_datatype()['members']
            obj.parameters[op[1]].datatype = EnumType(Enum(prev_enum, **{op[2]: None}))
        elif kind == 'statusgrow':
            obj.parameters['status'].datatype = StatusType(obj.parameters['status'].datatype.members[0]._enum, op[1])
        elif kind == 'register':
            obj.register_input(op[1], lambda *args: None)
        elif kind == 'assign':
            setattr(obj, op[1], op[2])
        elif kind == 'mainunit':
            obj.applyMainUnit(op[1])
        else:
            raise ValueError(op)

    def run(self, steps):
        for st in steps:
            if st[0] == 'def':
                self.define(st[1])
            elif st[0] == 'new':
                self.new(st[1], st[2])
            elif st[0] == 'mut':
                self.mutate(st[1], st[2])
            else:
                raise ValueError(st)

    # --- observations
    def observe_class(self, cid):
        cls = self.env[cid]
        if cls is None:
            return {'deferr': self.deferr[cid]}
        acc = getattr(cls, 'accessibles', None)
        if acc is None:     # plain mixin (not a frappy class): it has no description of its own
            return {'plain-mixin': True}
        export = [[name, safe(aobj.for_export), class_wire_name(aobj)] for name, aobj in acc.items()]
        # the properties a class hands on to subclasses defined later (ownProperties of its accessibles)
        own = [[name, own_properties(aobj)] for name, aobj in acc.items()]
        props = []
        for pn, po in getattr(cls, 'propertyDict', {}).items():
            props.append([pn, repr(po.default), repr(po.value), po.mandatory, po.extname])
        return {'export': export, 'props': props, 'own': own}

    def observe_constant(self, name):
        """a datatype object the program's declarations share: what the programmer wrote must stay what it is"""
        return {'datainfo': dtexp(self.constants[name])}

    def observe_inst_pure(self, k):
        inst = self.insts[k]
        obj = inst['obj']
        res = {'refused': inst['refused'] and [classify_error(t) for t in inst['refused']], 'mutout': inst['mutout']}
        if obj is None:
            return res
        self._observe_module_pure(obj, inst['name'], res)
        if inst['companions']:     # the modules created together with the instance (its own output module)
            res['companions'] = {sfx: self._observe_module_pure(cobj, inst['name'] + sfx, {})
                                 for sfx, cobj in inst['companions'].items()}
        return res

    def _observe_module_pure(self, obj, name, res):
        desc = safe(self.node.describe)
        res['describe'] = desc['modules'].get(name) if isinstance(desc, dict) else desc
        res['modprops'] = safe(lambda: json.loads(json.dumps(obj.exportProperties(), default=repr)))
        # all module properties, also those which are not exported (pollinterval of a plain Module, ...)
        res['allprops'] = [[pn, safe(lambda pn=pn: repr(getattr(obj, pn)))] for pn in type(obj).propertyDict]
        table = []
        valid = {}
        for pname, pobj in obj.parameters.items():
            table.append([pname, repr(pobj.export), pobj.readonly, dtexp(pobj.datatype),
                          safe(lambda p=pobj: json.loads(json.dumps(p.export_value(), default=repr))),
                          repr(pobj.constant), repr(pobj.visibility), pobj.group])
            valid[pname] = [self._probe(pobj.datatype, x, pobj.value) for x in PROBES]
        for cname, cobj in obj.commands.items():
            table.append([cname, repr(cobj.export), dtexp(cobj.datatype), repr(cobj.visibility), cobj.group])
            if cobj.argument is not None:
                valid[cname + '()'] = [self._probe(cobj.argument, x, None) for x in PROBES]
        res['table'] = table
        res['validate'] = valid
        return res

    def _probe(self, dt, x, prev):
        self.transitions += 1
        try:
            r = dt.validate(dt.import_value(x), prev)
        except Exception as e:
            return exc_name(e)
        try:
            return json.dumps(dt.export_value(r), default=repr)
        except Exception as e:
            return f'ok-unexportable:{exc_name(e)}'

    def observe_inst_impure(self, k):
        """replies of the real dispatcher; changes values, therefore done last"""
        inst = self.insts[k]
        obj = inst['obj']
        if obj is None:
            return None
        out = self._observe_module_impure(obj, inst['name'])
        for sfx, cobj in inst['companions'].items():
            out['companion' + sfx] = self._observe_module_impure(cobj, inst['name'] + sfx)
        return out

    def _observe_module_impure(self, obj, name):
        out = {}
        for aname, aobj in obj.accessibles.items():
            ext = aobj.export
            if not ext:
                continue
            rows = []
            if aname in obj.parameters:
                rows.append(self._req(f'read {name}:{ext}'))
                for x in CHANGE_PROBES:
                    rows.append(self._req(f'change {name}:{ext} {json.dumps(x)}'))
                rows.append(self._req(f'read {name}:{ext}'))
            else:
                for x in DO_PROBES:
                    rows.append(self._req(f'do {name}:{ext} {json.dumps(x)}' if x is not None else f'do {name}:{ext}'))
            out[aname] = rows
        out['drvlog'] = list(obj.__dict__.get('drvlog', []))
        # which wire names the module answers to - also names it does not describe (a hidden or renamed accessible)
        served = []
        for wname in wire_candidates(self.fam):
            rep = self._req(f'read {name}:{wname}')
            if not (rep[0].startswith('error') and rep[1] in ('NoSuchParameter', 'NoSuchModule')):
                served.append(wname)
            else:
                rep = self._req(f'do {name}:{wname}')
                if not (rep[0].startswith('error') and rep[1] in ('NoSuchCommand', 'NoSuchModule', 'NoSuchParameter')):
                    served.append(wname + '()')
        out['served-wire-names'] = served
        return out

    def _req(self, line):
        self.transitions += 1
        rep = self.node.request(self.conn, line)
        action, _spec, data = rep
        if action.startswith('error'):
            return [action, data[0]]
        if isinstance(data, (list, tuple)) and len(data) == 2 and isinstance(data[1], dict):
            data = data[0]
        return [action, json.loads(json.dumps(data, default=repr))]

    def observe_inst(self, k):
        return {'pure': self.observe_inst_pure(k), 'impure': self.observe_inst_impure(k)}

    # --- identity walk
    def owners(self):
        res = []
        for cid, cls in self.env.items():
            if cls is None:
                continue
            acc = getattr(cls, 'accessibles', None)
            if acc is None:
                from frappy.params import Accessible
                acc = {k: v for k, v in cls.__dict__.items() if isinstance(v, Accessible)}
            res.append((f'class:{cid}', 'class', dict(acc), None))
        for inst in self.insts:
            if inst['obj'] is not None:
                res.append((f"instance:{inst['name']}", 'instance', dict(inst['obj'].accessibles), inst['obj'].propertyValues))
            for sfx, cobj in inst['companions'].items():
                res.append((f"instance:{inst['name']}{sfx}", 'instance', dict(cobj.accessibles), cobj.propertyValues))
        return res

    def related(self, cida, cidb):
        return cida in chain(self.fam, cidb) or cidb in chain(self.fam, cida)

    def alias_findings(self):
        """-> list of (kindA, kindB, typename, pathA, pathB, ownerA, ownerB); only the topmost shared object of a shared
        sub-graph is listed (everything below a shared object is shared as well)"""
        seen = {}     # id(obj) -> (owner label, owner kind, path, via id, obj)
        found = []
        reported = set()
        self.latent = 0
        self.latent_working = False
        vianame = {}  # (owner label, via id) -> name of the accessible
        for label, okind, acc, propvals in self.owners():
            mine = {}
            for aname, aobj in acc.items():
                vianame[label, id(aobj)] = aname
                walk(aobj, type(aobj).__name__, id(aobj), mine)
            if propvals is not None:
                walk(propvals, 'module.propertyValues', 0, mine)
            shared = {}
            skipped = set()      # latent (by design) shared objects: what hangs below them is shared as well
            for oid, (path, via, obj, parent) in mine.items():
                other = seen.get(oid)
                if other is None:
                    seen[oid] = (label, okind, path, via, obj)
                    continue
                if parent in skipped:
                    skipped.add(oid)
                    continue
                olabel, ookind, opath, ovia, _ = other
                if okind == 'class' and ookind == 'class' and via == ovia and via:
                    continue      # the same inherited Accessible object (by design)
                if okind == 'class' and ookind == 'class' and any(obj is c for c in self.constants.values()):
                    if '.propertyValues' in path and path.startswith('Parameter') or '.propertyValues' in opath and opath.startswith('Parameter'):
                        self.latent_working = True   # a class-level parameter WORKS on the programmer's object (no copy)
                    # the datatype object the programmer passed to the declarations of both classes: each class remembers it
                    # in ownProperties (and works on a copy); a hazard only if somebody changes the object - that is observed
                    self.latent += 1
                    skipped.add(oid)
                    continue
                if okind == 'class' and ookind == 'class' and vianame.get((label, via)) == vianame.get((olabel, ovia)) \
                        and self.related(label[6:], olabel[6:]):
                    # a subclass's accessible refers to a datatype object of the SAME accessible of its base class (Command.merge
                    # hands on argument / result without copying): a latent hazard, no violation as long as nothing changes
                    # the object - a change shows in the differential observation of the base class
                    self.latent += 1
                    skipped.add(oid)
                    continue
                shared[oid] = (olabel, ookind, opath, path, obj, parent)
            for oid, (olabel, ookind, opath, path, obj, parent) in shared.items():
                if parent in shared and shared[parent][0] == olabel:
                    continue      # below an object already listed for the same pair of owners
                key = (ookind, okind, type(obj).__name__, opath, path)
                if key not in reported:
                    reported.add(key)
                    found.append(key + (olabel, label))
        return found


def walk(obj, path, via, out, depth=0, parent=0):
    """collect mutable objects reachable from one Accessible: id -> (path, via, obj, id of the object it was reached from)"""
    from frappy.datatypes import DataType
    from frappy.lib.enum import Enum, EnumMember
    from frappy.params import Accessible
    if depth > 12:
        return
    oid = id(obj)
    if isinstance(obj, Accessible):
        if oid in out:
            return
        out[oid] = (path, via, obj, parent)
        walk(obj.propertyValues, path + '.propertyValues', via, out, depth + 1, oid)
        if obj.ownProperties is not None:
            walk(obj.ownProperties, path + '.ownProperties', via, out, depth + 1, oid)
    elif isinstance(obj, Enum):
        if oid not in out:
            out[oid] = (path, via, obj, parent)
    elif isinstance(obj, EnumMember):
        return      # an immutable value; that it knows the Enum it was taken from is no aliasing of mutable state
    elif isinstance(obj, DataType):
        if oid in out:
            return
        out[oid] = (path, via, obj, parent)
        for k, v in vars(obj).items():
            walk(v, f'{path}<{type(obj).__name__}>.{k}', via, out, depth + 1, oid)
    elif isinstance(obj, dict):
        if oid in out:
            return
        out[oid] = (path, via, obj, parent)
        for k, v in obj.items():
            walk(v, f'{path}[{k}]' if path.endswith(('propertyValues', 'ownProperties')) else path + '[]', via, out, depth + 1, oid)
    elif isinstance(obj, list):
        if oid in out:
            return
        out[oid] = (path, via, obj, parent)
        for v in obj:
            walk(v, path + '[]', via, out, depth + 1, oid)
    elif isinstance(obj, tuple):
        for v in obj:
            walk(v, path + '()', via, out, depth + 1, parent)


def classify_error(text):
    """error texts of a refused module: keep the words, drop values"""
    text = re.sub(r'inst\d+', 'instN', text)
    text = re.sub(r'0x[0-9a-f]+', '0xN', text)
    return text


def canon(obs):
    text = re.sub(r'inst\d+', 'instN', json.dumps(obs, sort_keys=False, default=repr))
    return re.sub(r'0x[0-9a-f]{6,}', '0xN', text)


# ---------------------------------------------------------------------------------------------------------------
# reference: the entity built alone, in a process that never defined anything else

def alone_steps(family, ent):
    fam = FAMILIES[family]
    if ent[0] == 'const':
        return []
    if ent[0] == 'class':
        return [['def', c] for c in chain(fam, ent[1])]
    _, cid, cfgid, muts = ent
    need = set(chain(fam, cid))
    out = fam['configs'][cfgid].get('+output')
    if out:      # the class chain of the module created together with the instance belongs to its own history
        need |= set(chain(fam, out['cls']))
    return [['def', c] for c in fam['classes'] if c in need] + [['new', cid, cfgid]] + [['mut', 0, m] for m in muts]


def alone_observe(family, ent):
    """runs in a fresh child: define only the chain (no prelude), observe the entity"""
    fam = dict(FAMILIES[family], prelude=[])
    saved = FAMILIES[family]
    FAMILIES[family] = fam
    try:
        w = World(family)
        w.run(alone_steps(family, ent))
        if w.deferr:
            raise RuntimeError(f'menu error: class chain of {ent!r} can not be defined alone: {w.deferr}')
        if ent[0] == 'const':
            obs = w.observe_constant(ent[1])
        elif ent[0] == 'class':
            obs = w.observe_class(ent[1])
        else:
            obs = w.observe_inst(0)
            if ent[2] == 0 and obs['pure']['refused']:
                raise RuntimeError(f'menu error: {ent!r} with the empty configuration is refused alone: {obs["pure"]["refused"]}')
        w.close()
        return canon(obs)
    finally:
        FAMILIES[family] = saved


class RefClient:
    """helper process forked while this process is still clean; it forks one child per reference request"""
    def __init__(self):
        if DIRTY[0]:
            raise core.Inconclusive('reference helper requested after menu classes were defined in this process')
        from vf import genmods, nodes   # noqa: F401  import everything the children need before forking
        req_r, req_w = os.pipe()
        res_r, res_w = os.pipe()
        pid = os.fork()
        if pid == 0:
            try:
                os.close(req_w)
                os.close(res_r)
                keep = {req_r, res_w}
                for fd in range(3, 256):
                    if fd not in keep:
                        try:
                            os.close(fd)
                        except OSError:
                            pass
                self._serve(req_r, res_w)
            finally:
                os._exit(0)
        os.close(req_r)
        os.close(res_w)
        self.pid = pid
        self.req = os.fdopen(req_w, 'w', encoding='utf-8')
        self.res = os.fdopen(res_r, 'r', encoding='utf-8')
        self.memo = {}
        self.forks = 0

    @staticmethod
    def _serve(req_r, res_w):
        rf = os.fdopen(req_r, 'r', encoding='utf-8')
        for line in rf:
            child = os.fork()
            if child == 0:
                code = 0
                try:
                    family, ent = json.loads(line)
                    ent = tuple(tuple(x) if isinstance(x, list) else x for x in ent)
                    text = json.dumps({'ok': alone_observe(family, ent)})
                except BaseException as e:   # noqa
                    import traceback
                    text = json.dumps({'error': traceback.format_exc()[-1500:] or repr(e)})
                    code = 1
                try:
                    os.write(res_w, (text + '\n').encode('utf-8'))
                finally:
                    os._exit(code)
            _, status = os.waitpid(child, 0)
            if status != 0 and not os.WIFEXITED(status):
                os.write(res_w, (json.dumps({'error': f'reference child died with status {status}'}) + '\n').encode('utf-8'))

    def get(self, family, ent):
        key = (family, ent)
        if key not in self.memo:
            cached = self._cache_read(key)
            if cached is not None:
                self.memo[key] = cached
                return cached
            self.req.write(json.dumps([family, ent]) + '\n')
            self.req.flush()
            line = self.res.readline()
            if not line:
                raise core.Inconclusive('reference helper died')
            ans = json.loads(line)
            if 'error' in ans:
                raise core.Inconclusive(f'reference build of {key!r} failed: {ans["error"]}')
            self.memo[key] = ans['ok']
            self.forks += 1
            self._cache_write(key, ans['ok'])
        return self.memo[key]

    # reference observations are a function of the key only: workers share them through a scratch directory of the run
    cache_dir = None

    def _cache_file(self, key):
        import hashlib
        return os.path.join(self.cache_dir, hashlib.sha1(json.dumps(key).encode()).hexdigest() + '.json')

    def _cache_read(self, key):
        if not self.cache_dir:
            return None
        try:
            with open(self._cache_file(key), encoding='utf-8') as f:
                rec = json.load(f)
            return rec['obs'] if rec['key'] == json.loads(json.dumps(key)) else None
        except (OSError, ValueError, KeyError):
            return None

    def _cache_write(self, key, obs):
        if not self.cache_dir:
            return
        path = self._cache_file(key)
        tmp = f'{path}.{os.getpid()}.tmp'
        try:
            with open(tmp, 'w', encoding='utf-8') as f:
                json.dump({'key': key, 'obs': obs}, f)
            os.replace(tmp, path)
        except OSError:
            pass

    def close(self):
        try:
            self.req.close()
            self.res.close()
            os.waitpid(self.pid, 0)
        except OSError:
            pass


_REF = [None]


def ref_client(cache_dir=None):
    if _REF[0] is None or _REF[0].owner != os.getpid():
        rc = RefClient()
        rc.owner = os.getpid()
        _REF[0] = rc
    if cache_dir:
        _REF[0].cache_dir = cache_dir
    return _REF[0]


# ---------------------------------------------------------------------------------------------------------------
# evaluation of one program

def first_diff(a, b, path=''):
    """path of the first difference between two JSON values"""
    if type(a) != type(b):
        return path or '.'
    if isinstance(a, dict):
        if list(a) != list(b):
            ka, kb = list(a), list(b)
            if sorted(ka) != sorted(kb):
                odd = sorted(set(ka) ^ set(kb))
                return f'{path}.keys[{odd[0]}]'
            return f'{path}.order'
        for k in a:
            d = first_diff(a[k], b[k], f'{path}.{k}')
            if d:
                return d
        return ''
    if isinstance(a, list):
        if len(a) != len(b):
            return f'{path}.len'
        for i, (x, y) in enumerate(zip(a, b)):
            d = first_diff(x, y, f'{path}[{i}]')
            if d:
                return d
        return ''
    return '' if a == b else (path or '.')


def norm_path(p):
    return re.sub(r'\[\d+\]', '[]', p)[:80]


def component(fd):
    """which part of the observation differs: export / props (class), describe / table / validate / refused / mutout /
    read-change-do replies (instance)"""
    parts = [x for x in re.split(r'[.\[\]]+', fd) if x]
    if not parts:
        return 'all'
    if parts[0] == 'pure':
        if len(parts) > 1 and parts[1] == 'keys':
            return 'refused-or-not'
        return parts[1] if len(parts) > 1 else 'pure'
    if parts[0] == 'impure':
        return 'replies'
    return parts[0]


def relation(world, steps, ent):
    """how the differing entity relates to the subject of the last step"""
    last = steps[-1] if steps else ['prelude']
    fam = world.fam
    if ent[0] == 'const':
        return 'datatype-object-passed-by-the-programmer'
    if last[0] == 'def':
        subj = last[1]
        if ent[0] == 'class':
            if ent[1] == subj:
                return 'class-just-defined'
            return 'base-class' if ent[1] in chain(fam, subj) else 'sibling-class'
        return 'instance-existing-before-class-definition'
    if last[0] == 'prelude':
        return 'prelude'
    k = last[1] if last[0] == 'mut' else len(world.insts) - 1
    inst = world.insts[k]
    if ent[0] == 'class':
        return ('class-of-the-instance' if ent[1] in chain(fam, inst['cid']) else 'unrelated-class') + f'-after-{last[0]}'
    if ent[1] == k:
        return 'instance-created-later' if last[0] == 'new' else 'instance-being-mutated'
    return f'other-instance-after-{last[0]}'


def evaluate(family, steps, part, ref, parent=None):
    """execute the program, observe, compare.  `parent` = summary of the program without its last step (None: unknown,
    then every deviation is reported): a deviation is reported at the program whose last step caused it, not again at every
    extension.  Returns the summary {'obs': {ent: (observed, expected)}, 'aliases': set, 'world': ...}"""
    world = World(family)
    try:
        world.run(steps)
        case = {'family': family, 'steps': [list(s) for s in steps]}
        last = steps[-1] if steps else ['prelude']
        lastkind = last[0] + (':' + last[2] if last[0] == 'mut' else '')
        subject = None
        if last[0] == 'mut':
            subject = ('inst', last[1])
        ents = [('const', n) for n in world.constants] + [('class', cid) for cid in world.env]
        obs = {}
        for n in world.constants:
            obs[('const', n)] = canon(world.observe_constant(n))
        for cid in world.env:
            obs[('class', cid)] = canon(world.observe_class(cid))
        pure = [world.observe_inst_pure(k) for k in range(len(world.insts))]
        aliases = world.alias_findings()
        if world.latent:
            part.outcomes['alias:latent(datatype of the same accessible shared by class and subclass)'] += 1
        if getattr(world, 'latent_working', False):
            part.outcomes['alias:latent(a class-level parameter works on the datatype object passed by the programmer)'] += 1
        for regname in set(world.registry_changes):
            part.outcomes[f'latent:global registry {regname} changed by a class definition'] += 1
        impure = [world.observe_inst_impure(k) for k in range(len(world.insts))]
        for k, inst in enumerate(world.insts):
            ent = ('inst', k)
            ents.append(ent)
            obs[ent] = canon({'pure': pure[k], 'impure': impure[k]})
        summary = {'obs': {}, 'aliases': set(), 'nclasses': len(world.env), 'ninsts': len(world.insts)}
        for ent in ents:
            if ent[0] in ('class', 'const'):
                key = (ent[0], ent[1])
            else:
                inst = world.insts[ent[1]]
                key = ('inst', inst['cid'], inst['cfgid'], tuple(inst['muts']))
            expected = ref.get(family, key)
            part.traces += 1
            summary['obs'][ent] = (obs[ent], expected)
            if obs[ent] == expected:
                tag = 'same'
                if ent[0] == 'inst':
                    inst = world.insts[ent[1]]
                    tag = 'refused-same' if inst['obj'] is None else ('same' + ('-mutated' if inst['muts'] else ''))
                part.outcomes[f'{ent[0]}:{tag}'] += 1
                continue
            if parent is not None and ent in parent['obs']:
                pobs, pexp = parent['obs'][ent]
                if pobs != pexp and (ent == subject or pobs == obs[ent]):
                    # deviating already before the last step (reported there) and not changed again by a foreign step
                    part.outcomes['diff:inherited-from-prefix'] += 1
                    continue
            if ent[0] == 'inst' and last[0] == 'new' and ent[1] == len(world.insts) - 1:
                mychain = chain(world.fam, world.insts[ent[1]]['cid'])
                if any(summary['obs'][('class', c)][0] != summary['obs'][('class', c)][1] for c in mychain):
                    part.outcomes['diff:instance-of-a-deviating-class'] += 1
                    continue
            a, b = json.loads(obs[ent]), json.loads(expected)
            fd = first_diff(a, b)
            if ent[0] == 'class' and component(fd) == 'own' and any(
                    summary['obs'][e][0] != summary['obs'][e][1] for e in summary['obs'] if e[0] == 'const'):
                # the class remembers the programmer's datatype object in ownProperties: explained by the changed object itself
                part.outcomes['diff:own-properties-show-the-changed-shared-object'] += 1
                continue
            rel = relation(world, steps, ent)
            sig = f'C09:{family}:diff:{rel}:{component(fd)}:after-{lastkind}'
            part.outcomes['diff:' + rel] += 1
            detail = (f'program {json.dumps(case["steps"])} (family {family}, prelude {world.fam["prelude"]}): '
                      f'{describe_entity(world, ent)} differs from the same entity built alone at {fd}: '
                      f'among others {json.dumps(pick(a, fd))[:300]} / alone {json.dumps(pick(b, fd))[:300]}')
            part.violation(sig, case, detail)
        for kinda, kindb, tname, patha, pathb, ownera, ownerb in aliases:
            akey = (kinda, kindb, tname, patha, pathb, ownera, ownerb)
            summary['aliases'].add(akey)
            if parent is not None and akey in parent['aliases']:
                part.outcomes['alias:inherited-from-prefix'] += 1
                continue
            sig = f'C09:{family}:alias:{kinda}-{kindb}:{tname}:{norm_alias(patha)}~{norm_alias(pathb)}:after-{lastkind}'
            part.outcomes['alias'] += 1
            part.violation(sig, case,
                           f'program {json.dumps(case["steps"])} (family {family}): the same {tname} object is reachable '
                           f'from {ownera} via {patha} and from {ownerb} via {pathb}')
        summary['cfgchanged'] = set()
        for cfgid, before, after in world.changed_configs():
            summary['cfgchanged'].add(cfgid)
            if parent is not None and cfgid in parent.get('cfgchanged', ()):
                continue
            part.outcomes['config-object-changed'] += 1
            part.violation(f'C09:{family}:config-objects-changed-by-creating-a-module:after-{lastkind}', case,
                           f'program {json.dumps(case["steps"])} (family {family}): the configuration object {cfgid} shared by the '
                           f'modules configured with it was {before} and is {after} after the last step')
        for inst in world.insts:
            for o in inst['mutout']:
                part.outcomes['mut:' + o] += 1
        part.transitions += world.transitions
        return summary
    finally:
        world.close()


def norm_alias(path):
    return re.sub(r'\[\w+\]', '[]', path)[:70]


def describe_entity(world, ent):
    if ent[0] == 'const':
        return f'the datatype object {ent[1]} = {world.fam["constants"][ent[1]]} used in the declarations of several classes'
    if ent[0] == 'class':
        return f'class {ent[1]}'
    inst = world.insts[ent[1]]
    return f"instance {inst['name']} of {inst['cid']} with config {world.fam['configs'][inst['cfgid']]} and mutations {inst['muts']}"


def pick(obj, path):
    """the sub-value at a first_diff path (best effort, for the detail text)"""
    cur = obj
    for m in re.finditer(r'\.([^.\[\]]+)|\[(\d+)\]', path):
        try:
            if m.group(1) is not None:
                if m.group(1) in ('len', 'order') or m.group(1).startswith('keys'):
                    break
                cur = cur[m.group(1)]
            else:
                cur = cur[int(m.group(2))]
        except (KeyError, IndexError, TypeError):
            break
    return cur


# ---------------------------------------------------------------------------------------------------------------
# enumeration

def successors(family, view, steps, state, ref):
    """all steps that may follow; state = (defined list, instances [(cid, cfgid, names|None)])"""
    fam = FAMILIES[family]
    cfgids, mids = fam_view(family, view)
    defined, insts = state
    for cid, rec in fam['classes'].items():
        if cid not in defined and all(bb in defined or bb not in fam['classes'] for bb in rec['bases']):
            yield ['def', cid]
    if len(insts) < MAX_INSTANCES:
        for cid in instantiable(family, view):
            if cid in defined:
                allowed = fam.get('configs_for', {}).get(cid)
                for cfgid in cfgids:
                    out = fam['configs'][cfgid].get('+output')
                    if out and out['cls'] not in defined:
                        continue      # the class of the module created together with the instance must exist
                    if allowed is None or cfgid in allowed:
                        yield ['new', cid, cfgid]
    for k, (cid, cfgid, names) in enumerate(insts):
        for mid in mids:
            if names is not None and all(n in names for n in fam['mutations'][mid]['needs']):
                yield ['mut', k, mid]


def inst_names(family, cid, cfgid, ref):
    """accessible names of the instance (cid, cfgid) built alone; None if it is refused"""
    obs = json.loads(ref.get(family, ('inst', cid, cfgid, ())))
    if 'table' not in obs['pure']:
        return None
    return {row[0] for row in obs['pure']['table']}


def apply_state(family, state, step, ref):
    defined, insts = state
    if step[0] == 'def':
        return (defined + [step[1]], insts)
    if step[0] == 'new':
        return (defined, insts + [(step[1], step[2], inst_names(family, step[1], step[2], ref))])
    return state


def initial_state(family):
    return (list(FAMILIES[family]['prelude']), [])


def explore(family, view, steps, state, depth, min_len, part, ref, parent):
    """evaluate the program `steps` and all its extensions up to `depth`"""
    summary = run_program(family, steps, part, ref, parent, count=len(steps) >= min_len)
    if len(steps) >= depth:
        return
    for st in successors(family, view, steps, state, ref):
        explore(family, view, steps + [st], apply_state(family, state, st, ref), depth, min_len, part, ref, summary)


def run_program(family, steps, part, ref, parent, count=True):
    """parent: summary of steps[:-1]; count=False: executed only to obtain the summary (counted by another shard)"""
    scratch = part if count else core.Part()
    summary = evaluate(family, steps, scratch, ref, parent)
    if count:
        part.evaluations += 1
        part.states += 1
        part.extra[f'programs_{family}'] += 1
        if summary['nclasses'] + summary['ninsts'] >= 2 and steps:
            part.nontrivial += 1
        if part.evaluations % 997 == 1:
            part.sample({'family': family, 'steps': steps, 'classes': summary['nclasses'], 'instances': summary['ninsts']})
    else:
        part.extra['prefix_reexecutions'] += 1
    return summary


SPLIT = 3      # programs shorter than this are shards of their own, programs of this length are roots of sub-tree shards


def shard_fn(shard):
    family, prefix, mode, (view, depth, min_len), cache_dir = shard
    part = core.Part()
    ref = ref_client(cache_dir)
    state = initial_state(family)
    for st in prefix:
        state = apply_state(family, state, st, ref)
    # summaries of the proper prefixes (their verdicts are counted by the shards of those prefixes)
    parent = None
    for n in range(len(prefix)):
        parent = run_program(family, list(prefix[:n]), part, ref, parent, count=False)
    if mode == 'single':
        run_program(family, list(prefix), part, ref, parent)
    else:
        explore(family, view, list(prefix), state, depth, min_len, part, ref, parent)
    return part


def make_shards(tier, cache_dir=None):
    """every program shorter than SPLIT steps is a shard of its own; every program of SPLIT steps is the root of a sub-tree
    shard.  Needs the reference (which mutations apply to which instance), computed by a helper of this (clean) process"""
    ref = ref_client(cache_dir)
    shards = []

    def gen(family, plan, steps, state):
        view, depth, min_len = plan
        if len(steps) >= min(SPLIT, depth):
            shards.append((family, steps, 'subtree', plan, cache_dir))
            return
        if len(steps) >= min_len:
            shards.append((family, steps, 'single', plan, cache_dir))
        for st in successors(family, view, steps, state, ref):
            gen(family, plan, steps + [st], apply_state(family, state, st, ref))
    for family, plist in plans(tier).items():
        for plan in plist:
            gen(family, plan, [], initial_state(family))
    ref.close()
    _REF[0] = None
    return shards


def run(ctx):
    import shutil
    import tempfile
    cache_dir = tempfile.mkdtemp(prefix='c09-ref-')     # reference observations shared by the workers, removed afterwards
    try:
        shards = make_shards(ctx.tier, cache_dir)
        ctx.pmap(shard_fn, shards, name='programs')
    finally:
        shutil.rmtree(cache_dir, ignore_errors=True)
    pl = plans(ctx.tier)
    menus = {f: {'classes': len(FAMILIES[f]['classes']),
                 'plans': [{'view': v, 'depth': d, 'configs': len(fam_view(f, v)[0]), 'mutations': len(fam_view(f, v)[1]),
                            'instantiable': len(instantiable(f, v))} for v, d, _m in pl[f]]} for f in FAMILIES}
    ctx.rule = ('explicit-state BFS over programs: every sequence of steps {define a menu class (bases first), instantiate a defined '
                'class with one of the family\'s configurations (<= %d instances), mutate an instance (only mutations whose '
                'parameters exist)} up to the depth of the plan, per family, on top of the family prelude: %s. Each program is '
                'executed from scratch on the real code; every class and instance alive after the last step is compared with its '
                'alone build (fresh process) and the object-identity walk is run. states = evaluations = programs; '
                'distinct_nontrivial = programs with >= 2 entities alive; transitions = steps + validate probes + dispatcher '
                'requests executed; traces = entity observations compared with the reference' % (MAX_INSTANCES, json.dumps(menus)))
    ctx.coverage.update(bound_completed='; '.join(f'{f}: ' + ', '.join(f'{v} menus to {d} steps' for v, d, _m in pl[f]) for f in FAMILIES),
                        families={f: {'classes': list(FAMILIES[f]['classes']), 'prelude': FAMILIES[f]['prelude']} for f in FAMILIES})
    ctx.assume('class menus, configurations and mutations outside the nine families are not covered; classes of different families '
               'are never combined in one program',
               'prelude classes of the mixin family are defined in a fixed order before the first step',
               'the reference ("alone") build runs in a child forked from a process that imported frappy but never defined a menu class')


def replay(case):
    part = core.Part()
    ref = ref_client()
    steps = [list(s) for s in case['steps']]
    parent = None
    for n in range(len(steps)):     # the prefixes, to attribute a deviation to the step that caused it
        parent = evaluate(case['family'], steps[:n], core.Part(), ref, parent)
    evaluate(case['family'], steps, part, ref, parent)
    return part
