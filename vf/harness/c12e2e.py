"""C12 end-to-end part: a value written through the client reaches the driver equal to what the caller passed and comes
back into the cache equal to what the driver returned, for every datatype - through a real node over the (in-memory) TCP
interface, and through a proxy node in front of it.

Per datatype of the catalogue one real node (module with one writable parameter and one command of that type, recording
driver) is served by the real TCPRequestHandler over an in-memory connection to the real SecopClient (real AsynTcp, rx /
tx threads), everything under schedx with the default schedule (one deterministic execution per datatype; the thread
interleavings of the client are C11's subject).  For every valid value: setParameter, readParameter, execCommand.
Proxy part: a second real node whose module is `proxy_class(<the module class>)` connected to the first node; the same
values are written / read / executed through the front node's dispatcher.

Oracle: the recording driver received a value == the caller's (and with an identical export); the cache item returned by
setParameter equals what the driver returned (the driver returns a *different* valid value, so a client caching its own
request would be caught); readParameter equals the node's cache; the command result equals the argument.
"""
import json

from vf import core
from vf.catalog import types as T, values as V

LOG = []


def specs(tier):
    leaves = list(T.LEAVES)
    reps = T.REPS_SMALL
    cont = T.arrays_over(reps, [(0, 3)]) + [('tuple', (a, b)) for a, b in zip(reps, reps[1:] + reps[:1])] + \
        [('struct', (('a', a), ('b', b)), ('b',)) for a, b in zip(reps, reps[2:] + reps[:2])]
    if tier == 'thorough':
        cont += T.depth3('quick')[:40]
    return leaves + cont


def internal_values(dt, spec):
    res = []
    for entry in ('drv', 'wire'):
        for x in V.valid(spec, entry):
            try:
                v = dt.validate(x) if entry == 'drv' else dt.validate(dt.import_value(x))
            except Exception:
                continue
            try:
                dt(v)       # complete values only: a reported struct value carries all members (optional applies to change requests)
            except Exception:
                continue
            if not any(repr(v) == repr(o) for o in res):
                res.append(v)
    return res


def make_class(spec):
    from frappy.core import Writable, Parameter, Command
    dt = T.build(spec)
    vals = internal_values(dt, spec)

    def write_p(self, value):
        LOG.append(('write', value))
        # the hardware answers with a different valid value (the next one of the catalogue)
        for i, v in enumerate(vals):
            if repr(v) == repr(value):
                return vals[(i + 1) % len(vals)]
        return value

    def read_p(self):
        LOG.append(('read',))
        return self.p

    if spec[0] == 'struct':
        # a struct argument arrives as keyword arguments; members with a default are the optional ones
        names = [n for n, _m in spec[1]]
        optional = names if spec[2] is None else list(spec[2])
        sig = ', '.join(n + ('=None' if n in optional else '') for n in sorted(names, key=lambda n: n in optional))
        scope = {'LOG': LOG}
        exec(f'def cmd(self, {sig}):\n'
             f'    arg = {{k: v for k, v in dict({", ".join(f"{n}={n}" for n in names)}).items() if v is not None}}\n'
             f'    LOG.append(("cmd", arg))\n'
             f'    return None\n', scope)
        cmd = scope['cmd']
        command = Command(T.build(spec), description="cmd")(cmd)
    elif spec[0] == 'tuple':
        def cmd(self, *args):
            LOG.append(('cmd', tuple(args)))
            return tuple(args)
        command = Command(T.build(spec), result=T.build(spec), description="cmd")(cmd)
    else:
        def cmd(self, arg):
            LOG.append(('cmd', arg))
            return arg
        command = Command(T.build(spec), result=T.build(spec), description="cmd")(cmd)

    ns = {'p': Parameter('param', T.build(spec), readonly=False, default=vals[0]),
          'write_p': write_p, 'read_p': read_p, 'c': command}
    return type('E2E', (Writable,), ns), dt, vals


def same(a, b, dt):
    try:
        if a == b and repr(dt.export_value(a)) == repr(dt.export_value(b)):
            return True
    except Exception:
        pass
    return False


def run_spec(spec, part, proxy):
    from vf.engines import schedx, fakesock
    from vf import nodes
    import frappy.client as C
    import frappy.proxy as P
    from frappy.protocol.interface.tcp import TCPRequestHandler
    fakesock.install()
    import frappy.io
    frappy.io.HasIO.ioDict.clear()      # class-level cache uri -> io module name, shared by all nodes of a process
    cls, dt, vals = make_class(spec)
    sched = schedx.Scheduler([], max_steps=400000, horizon=600.0, grace=5.0)
    net = fakesock.Net()
    fakesock.set_net(net)
    res = {'viol': [], 'n': 0}
    del LOG[:]

    def check(what, ok, detail):
        res['n'] += 1
        part.outcomes[f'{what}:{"ok" if ok else "bad"}'] += 1
        if not ok:
            res['viol'].append((f'e2e:{"proxy:" if proxy else ""}{what}:{spec[0]}', detail))

    def body():
        back = nodes.Node({'m': {'cls': cls}}, name='back')
        res['back'] = back
        net.listen('node', 10767, lambda: fakesock.ServerPeer(
            lambda ssock: TCPRequestHandler(ssock, ('127.0.0.1', 4000), nodes.InterfaceStub(back)), 'backhandler'))
        sched.begin()
        mod = back.secnode.modules['m']
        if not proxy:
            client = C.SecopClient('tcp://node:10767', log=None)
            res['client'] = client
            client.connect()
            for v in vals:
                del LOG[:]
                try:
                    item = client.setParameter('m', 'p', v)
                except Exception as e:      # noqa
                    check('set-raised', False, f'{T.sstr(spec)} setParameter({v!r}) raised {e!r}')
                    continue
                w = [e for e in LOG if e[0] == 'write']
                check('driver-got-own-value', len(w) == 1 and same(w[0][1], v, dt),
                      f'{T.sstr(spec)} setParameter({v!r}): driver calls {w}')
                check('cache-equals-driver-return', item.readerror is None and same(item.value, mod.p, dt),
                      f'{T.sstr(spec)} setParameter({v!r}): client cache {item!r}, node cache {mod.p!r}')
                item = client.readParameter('m', 'p')
                check('read-equals-node-cache', item.readerror is None and same(item.value, mod.p, dt),
                      f'{T.sstr(spec)} readParameter: client {item!r}, node {mod.p!r}')
                try:
                    r = client.execCommand('m', 'c', v)[0]
                    c = [e for e in LOG if e[0] == 'cmd']
                    check('command-roundtrip', len(c) == 1 and same(c[0][1], v, dt) and (spec[0] == 'struct' or same(r, v, dt)),
                          f'{T.sstr(spec)} execCommand({v!r}): driver {c}, result {r!r}')
                except Exception as e:      # noqa
                    check('command-raised', False, f'{T.sstr(spec)} execCommand({v!r}) raised {e!r}')
            client.disconnect()
            client.callbacks.clear()
        else:
            front = nodes.Node({'pm': {'cls': P.proxy_class(cls), 'uri': 'tcp://node:10767', 'module': 'm'}}, start=True, name='front')
            res['front'] = front
            conn = front.connect()
            pdt = front.secnode.modules['pm'].parameters['p'].datatype
            for v in vals:
                del LOG[:]
                payload = json.dumps(dt.export_value(v))
                rep = front.request(conn, f'change pm:_p {payload}')
                w = [e for e in LOG if e[0] == 'write']
                check('driver-got-own-value', rep[0] == 'changed' and len(w) == 1 and same(w[0][1], v, dt),
                      f'{T.sstr(spec)} change pm:_p {payload}: reply {rep[:2]} {str(rep[2])[:80]}, driver calls {w}')
                if rep[0] == 'changed':
                    check('reply-equals-driver-return', json.dumps(rep[2][0]) == json.dumps(dt.export_value(mod.p)),
                          f'{T.sstr(spec)} change pm:_p {payload}: reply {rep[2][0]!r}, backend cache {dt.export_value(mod.p)!r}')
                rep = front.request(conn, 'read pm:_p')
                check('read-equals-node-cache', rep[0] == 'reply' and json.dumps(rep[2][0]) == json.dumps(dt.export_value(mod.p)),
                      f'{T.sstr(spec)} read pm:_p: {rep}, backend {dt.export_value(mod.p)!r}')
                rep = front.request(conn, f'do pm:_c {payload}')
                c = [e for e in LOG if e[0] == 'cmd']
                check('command-roundtrip', rep[0] == 'done' and len(c) == 1 and same(c[0][1], v, dt) and
                      (spec[0] == 'struct' or json.dumps(rep[2][0]) == json.dumps(dt.export_value(v))),
                      f'{T.sstr(spec)} do pm:_c {payload}: reply {rep}, driver {c}')
            front.secnode.shutdown_modules()
            io = front.secnode.modules.get('pm_io')
            if io is not None:
                io.secnode.disconnect()
                io.secnode.callbacks.clear()
    x = sched.run(body)
    for key in ('back', 'front'):
        if res.get(key) is not None:
            res[key].close()
    for s in net.socks:
        s.closed = True
    part.evaluations += res['n']
    part.traces += res['n']
    part.transitions += x.steps
    part.states += len(vals)
    part.nontrivial += len(vals)
    if x.deadlock or x.livelock:
        res['viol'].append((f'e2e:{"proxy:" if proxy else ""}hang', f'{T.sstr(spec)}: {x.deadlock or x.livelock}'))
    main = x.threads[0]
    if main.exc is not None:
        res['viol'].append((f'e2e:{"proxy:" if proxy else ""}harness-died:{type(main.exc).__name__}', f'{T.sstr(spec)}: {main.exc!r}'))
    for sig, detail in res['viol']:
        part.violation(f'C12:{sig}', {'kind': 'e2e', 'spec': T.tojson(spec), 'proxy': proxy}, detail)
    part.sample({'type': T.sstr(spec), 'proxy': proxy, 'values': len(vals), 'checks': res['n']})


# ---------------------------------------------------------------------------------------------
# the value returned to a caller is the one the driver produced - under every schedule of the client's threads

RACE_SPEC = ('int', 0, 9)


def race_execute(prefix, activate=True):
    from vf.engines import schedx, fakesock
    from vf import nodes
    import frappy.client as C
    from frappy.protocol.interface.tcp import TCPRequestHandler
    fakesock.install()
    import frappy.io
    frappy.io.HasIO.ioDict.clear()
    cls, dt, vals = make_class(RACE_SPEC)
    sched = schedx.Scheduler(prefix, max_steps=400000, horizon=600.0, grace=5.0)
    net = fakesock.Net()
    fakesock.set_net(net)
    res = {'viol': []}
    del LOG[:]

    def body():
        back = nodes.Node({'m': {'cls': cls}}, name='back')
        res['back'] = back
        net.listen('node', 10767, lambda: fakesock.ServerPeer(
            lambda ssock: TCPRequestHandler(ssock, ('127.0.0.1', 4000), nodes.InterfaceStub(back)), 'backhandler'))
        mod = back.secnode.modules['m']
        client = C.SecopClient('tcp://node:10767', log=None)
        client.activate = activate      # without activation the cache is written from the replies alone
        client.connect()
        sched.begin()
        for v in vals[:2]:
            try:
                item = client.setParameter('m', 'p', v)
                if item.readerror is not None or not same(item.value, mod.p, dt):
                    res['viol'].append(('e2e:race:setParameter-returned-a-stale-cache-item',
                                        f'setParameter({v!r}) returned {item!r} but the driver answered {mod.p!r}'))
                item = client.readParameter('m', 'p')
                if item.readerror is not None or not same(item.value, mod.p, dt):
                    res['viol'].append(('e2e:race:readParameter-returned-a-stale-cache-item',
                                        f'readParameter returned {item!r} but the node holds {mod.p!r}'))
            except Exception as e:      # noqa
                res['viol'].append((f'e2e:race:call-raised:{type(e).__name__}', f'value {v!r}: {e!r}'))
        sched.window = False
        client.disconnect()
        client.callbacks.clear()
    x = sched.run(body)
    if res.get('back') is not None:
        res['back'].close()
    for s in net.socks:
        s.closed = True
    if x.deadlock or x.livelock:
        res['viol'].append(('e2e:race:hang', str(x.deadlock or x.livelock)))
    main = x.threads[0]
    if main.exc is not None:
        res['viol'].append((f'e2e:race:harness-died:{type(main.exc).__name__}', repr(main.exc)))
    return x, res['viol']


def race_trace():
    import inspect
    from vf.engines import schedx
    import frappy.client as C
    # every function of the client class that takes part in receiving a reply and handing it to the caller (helpers a change
    # may split off included: everything whose name speaks of rx / reply / update / request / Parameter)
    funcs = [f for n, f in inspect.getmembers(C.SecopClient, inspect.isfunction) if f.__code__.co_filename == C.__file__
             and any(k in n.lower() for k in ('rxthread', 'reply', 'updatevalue', 'request', 'setparameter', 'readparameter'))]
    schedx.trace_lines(funcs)


def race_root(activate):
    from vf.engines import schedx
    race_trace()
    x1, _v = race_execute([], activate)
    x2, _v = race_execute([], activate)
    if x1.trace != x2.trace:
        raise core.Inconclusive('C12 e2e race: the default schedule is not deterministic')
    part = core.Part()
    part.data.append([activate, schedx.first_level(x1, 1, 0, 1)])
    part.extra['points_in_default_schedule'] += len(x1.points)
    return part


def race_sub(shard):
    from vf.engines import schedx
    activate, prefix = shard
    race_trace()
    part = core.Part()

    def ex(pfx):
        x, viol = race_execute(pfx, activate)
        part.evaluations += 1
        part.traces += 1
        part.transitions += x.steps
        part.fps |= x.fingerprints
        if x.preemptions:
            part.nontrivial += 1
        part.outcomes['race:' + ('ok' if not viol else viol[0][0])] += 1
        for sig, detail in viol:
            part.violation(f'C12:{sig}', {'kind': 'e2e-race', 'activate': activate, 'prefix': list(x.choices)},
                           f'client {"activated" if activate else "not activated"}, schedule {x.choices}: {detail}')
        return x
    if prefix is None:
        ex([])
    else:
        schedx.explore(ex, 1, prefix=prefix, free_bound=1)
    return part


def e2e_fn(shard):
    spec, proxy = shard
    part = core.Part()
    run_spec(spec, part, proxy)
    return part


def run_e2e(ctx):
    sp = specs(ctx.tier)
    ctx.pmap(e2e_fn, [(s, False) for s in sp], name='e2e_client')
    ctx.pmap(e2e_fn, [(s, True) for s in (sp if ctx.tier == 'thorough' else sp[::3])], name='e2e_proxy')
    ctx.coverage.update(e2e_types=len(sp))
    # all schedules with <= 1 preemption at every source line of the client's receive / reply path
    roots = ctx.pmap(race_root, [True, False], name='e2e_race_determinism')
    shards = []
    for activate, plist in roots.data:
        shards += [(activate, None)] + [(activate, p) for p in plist]
    ctx.total.data.clear()
    ctx.pmap(race_sub, shards, name='e2e_race')


def replay_e2e(case):
    part = core.Part()
    if case.get('kind') == 'e2e-race':
        race_trace()
        x, viol = race_execute(case['prefix'], case.get('activate', True))
        for sig, detail in viol:
            part.violation(f'C12:{sig}', case, detail)
        part.evaluations = 1
        return part
    run_spec(T.fromjson(case['spec']), part, case['proxy'])
    return part
